// instantiation driver (C10, C11): explicit instantiation of FixedString<L>
// (all non-template members) and uses of the member templates with other
// capacities, plus the free comparison operators.  Contains no copy of
// repository code.
#include <string>
#include "celma/common/fixed_string.hpp"

template class celma::common::FixedString< 10>;
#ifdef VERIF_THOROUGH
template class celma::common::FixedString< 1>;
template class celma::common::FixedString< 2>;
template class celma::common::FixedString< 255>;
template class celma::common::FixedString< 256>;
template class celma::common::FixedString< 65535>;
template class celma::common::FixedString< 65536>;
#endif

template class celma::common::detail::FixedStringIterator< char, celma::common::FixedString< 10>>;
template class celma::common::detail::FixedStringIterator< const char, const celma::common::FixedString< 10>>;
template class celma::common::detail::FixedStringReverseIterator< char, celma::common::FixedString< 10>>;
template class celma::common::detail::FixedStringReverseIterator< const char, const celma::common::FixedString< 10>>;

namespace verif_driver {

using celma::common::FixedString;

template< size_t L, size_t S> int cross( FixedString< L>& a, const FixedString< S>& b)
{
   FixedString< L>  c( b);
   a.assign( b);
   a = b;
   a.insert( 1, b);
   a.insert( 1, b, 1, 2);
   a.append( b);
   a.append( b, 1, 2);
   a += b;
   a.replace( 1, 2, b);
   a.replace( 1, 2, b, 1, 2);
   int  r = a.compare( b) + a.compare( 1, 2, b) + a.compare( 1, 2, b, 1, 2);
   r += a.starts_with( b) + a.ends_with( b) + a.contains( b);
   r += (a == b) + (a != b);
   return r + static_cast< int>( c.length());
}

int drive( FixedString< 10>& a, const FixedString< 5>& s5, const FixedString< 20>& s20,
           const FixedString< 10>& s10, const std::string& str, const char* cstr)
{
   int  r = cross( a, s5) + cross( a, s20) + cross( a, s10);
   r += a.compare( str) + a.compare( cstr);
   a.sprintf( "%d", r);
   for (auto it = a.begin(); it != a.end(); ++it) r += *it;
   for (auto it = a.cbegin(); it != a.cend(); it++) r += *it;
   for (auto it = a.rbegin(); it != a.rend(); ++it) r += *it;
   for (auto it = a.crbegin(); it != a.crend(); it++) r += *it;
   r += static_cast< int>( (a.end() - a.begin()) + (a.cend() - a.cbegin()) + (a.rend() - a.rbegin())
      + (a.crend() - a.crbegin()));
#ifdef VERIF_THOROUGH
   FixedString< 1>  f1;  FixedString< 2>  f2;  FixedString< 255>  f255;  FixedString< 256>  f256;
   FixedString< 65535>  f65535;  FixedString< 65536>  f65536;
   r += cross( f1, s5) + cross( f2, s5) + cross( f255, f256) + cross( f256, f255)
      + cross( f65535, f65536) + cross( f65536, f65535) + cross( a, f256);
#endif
   return r;
}

} // namespace verif_driver
