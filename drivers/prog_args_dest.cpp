// instantiation driver (C01-C09, C18): forces every destination kind of the
// argument handler into existence (their virtual members, notably assign(),
// are instantiated together with the vtable) so that the bodies in
// /repo/src/celma/prog_args/detail/*.hpp are analysed as resolved AST.
// Contains no copy of repository code.
#include <array>
#include <bitset>
#include <deque>
#include <forward_list>
#include <list>
#include <map>
#include <optional>
#include <queue>
#include <set>
#include <stack>
#include <string>
#include <tuple>
#include <unordered_map>
#include <unordered_set>
#include <vector>

#include "celma/prog_args.hpp"
#include "celma/prog_args/groups.hpp"
#include "celma/prog_args/eval_argument_string.hpp"
#include "celma/prog_args/level_counter.hpp"
#include "celma/prog_args/detail/check_lower.hpp"
#include "celma/prog_args/detail/check_upper.hpp"
#include "celma/prog_args/detail/check_range.hpp"
#include "celma/prog_args/detail/check_values.hpp"
#include "celma/prog_args/detail/check_pattern.hpp"
#include "celma/prog_args/detail/check_min_length.hpp"
#include "celma/prog_args/detail/check_max_length.hpp"
#include "celma/common/range_dest.hpp"
#include "celma/common/value_filter.hpp"
#include "celma/container/dynamic_bitset.hpp"

namespace verif_driver {

using namespace celma::prog_args;

void on_flag( bool) {}
void on_value( const std::string&, bool) {}

void drive( int argc, char* argv[])
{
   Handler  ah( Handler::AllHelp | Handler::hfReadProgArg | Handler::hfEnvVarArgs);
   Handler  sub( 0);

   bool                       v_bool = false;
   int                        v_int = 0;
   short                      v_short = 0;
   long                       v_long = 0;
   unsigned int               v_uint = 0;
   unsigned long              v_ulong = 0;
   unsigned char              v_uchar = 0;
   float                      v_float = 0.0f;
   double                     v_double = 0.0;
   char                       v_char = ' ';
   std::string                v_string;
   std::optional< int>        v_oint;
   std::optional< std::string>  v_ostring;
   std::optional< bool>       v_obool;
   std::optional< double>     v_odouble;
   LevelCounter               v_level;
   std::vector< int>          c_vec_int;
   std::vector< std::string>  c_vec_str;
   std::vector< double>       c_vec_dbl;
   std::deque< int>           c_deque;
   std::forward_list< int>    c_flist;
   std::list< std::string>    c_list;
   std::multiset< int>        c_mset;
   std::priority_queue< int>  c_pqueue;
   std::queue< int>           c_queue;
   std::set< std::string>     c_set;
   std::stack< int>           c_stack;
   std::unordered_multiset< int>  c_umset;
   std::unordered_set< int>   c_uset;
   std::map< int, std::string>            kv_map;
   std::multimap< std::string, int>       kv_mmap;
   std::unordered_map< int, int>          kv_umap;
   std::unordered_multimap< int, std::string>  kv_ummap;
   int                        a_int[ 3] = { 0, 0, 0 };
   std::string                a_str[ 2];
   std::array< int, 4>        sa_int{};
   std::array< std::string, 2>  sa_str;
   std::tuple< int, std::string>          t_is;
   std::tuple< int, double, std::string>  t_ids;
   std::bitset< 10>           bs10;
   std::bitset< 1024>         bs1024;
   std::vector< bool>         vb;
   celma::container::DynamicBitset  dbs( 10);
   celma::common::ValueFilter< int>  vf_int;
   std::vector< int>          range_vec;
   std::bitset< 64>           range_bs;
   int                        p_int = 0;
   std::string                p_str;
   int                        se_start = 0, se_end = 0;

   ah.addArgument( "b", DEST_VAR( v_bool), "bool");
   ah.addArgument( "i", DEST_VAR( v_int), "int")->addCheck( lower( 1))
      ->addCheck( upper( 100))->setIsMandatory();
   ah.addArgument( "short", DEST_VAR( v_short), "short")->addCheck( range( short( 1), short( 5)));
   ah.addArgument( "long", DEST_VAR( v_long), "long")->addCheck( values( "1,2,3"));
   ah.addArgument( "uint", DEST_VAR( v_uint), "uint");
   ah.addArgument( "ulong", DEST_VAR( v_ulong), "ulong");
   ah.addArgument( "uchar", DEST_VAR( v_uchar), "uchar");
   ah.addArgument( "float", DEST_VAR( v_float), "float")->addCheck( lower( 1.0f));
   ah.addArgument( "double", DEST_VAR( v_double), "double")->addCheck( range( 1.0, 2.0));
   ah.addArgument( "char", DEST_VAR( v_char), "char");
   ah.addArgument( "s,string", DEST_VAR( v_string), "string")->addCheck( minLength( 1))
      ->addCheck( maxLength( 10))->addCheck( pattern( "^a"))->addFormat( lowercase())
      ->addFormat( uppercase())->addFormat( anycase( "Ull"));
   ah.addArgument( "oint", DEST_VAR( v_oint), "optional int");
   ah.addArgument( "ostring", DEST_VAR( v_ostring), "optional string");
   ah.addArgument( "obool", DEST_VAR( v_obool), "optional bool");
   ah.addArgument( "odouble", DEST_VAR( v_odouble), "optional double");
   ah.addArgument( "v", DEST_VAR( v_level), "level counter");
   ah.addArgument( "vec-int", DEST_VAR( c_vec_int), "vector int")->setListSep( ';')
      ->setSortData()->setUniqueData( true)->setClearBeforeAssign()->setTakesMultiValue()
      ->setCardinality( cardinality_max( 3));
   ah.addArgument( "vec-str", DEST_VAR( c_vec_str), "vector string")
      ->setCardinality( cardinality_exact( 2));
   ah.addArgument( "vec-dbl", DEST_VAR( c_vec_dbl), "vector double")
      ->setCardinality( cardinality_range( 1, 3));
   ah.addArgument( "deque", DEST_VAR( c_deque), "deque");
   ah.addArgument( "flist", DEST_VAR( c_flist), "forward_list");
   ah.addArgument( "list", DEST_VAR( c_list), "list");
   ah.addArgument( "mset", DEST_VAR( c_mset), "multiset");
   ah.addArgument( "pqueue", DEST_VAR( c_pqueue), "priority_queue");
   ah.addArgument( "queue", DEST_VAR( c_queue), "queue");
   ah.addArgument( "set", DEST_VAR( c_set), "set");
   ah.addArgument( "stack", DEST_VAR( c_stack), "stack");
   ah.addArgument( "umset", DEST_VAR( c_umset), "unordered_multiset");
   ah.addArgument( "uset", DEST_VAR( c_uset), "unordered_set");
   ah.addArgument( "map", DEST_VAR( kv_map), "map");
   ah.addArgument( "mmap", DEST_VAR( kv_mmap), "multimap");
   ah.addArgument( "umap", DEST_VAR( kv_umap), "unordered_map");
   ah.addArgument( "ummap", DEST_VAR( kv_ummap), "unordered_multimap");
   ah.addArgument( "a-int", DEST_VAR( a_int), "int[3]");
   ah.addArgument( "a-str", DEST_VAR( a_str), "string[2]");
   ah.addArgument( "sa-int", DEST_VAR( sa_int), "array<int,4>");
   ah.addArgument( "sa-str", DEST_VAR( sa_str), "array<string,2>");
   ah.addArgument( "t-is", DEST_VAR( t_is), "tuple");
   ah.addArgument( "t-ids", DEST_VAR( t_ids), "tuple3");
   ah.addArgument( "bs10", DEST_VAR( bs10), "bitset 10");
   ah.addArgument( "bs1024", DEST_VAR( bs1024), "bitset 1024");
   ah.addArgument( "vb", DEST_VAR( vb), "vector bool");
   ah.addArgument( "dbs", DEST_VAR( dbs), "dynamic bitset");
   ah.addArgument( "vf-int", DEST_VAR( vf_int), "value filter");
   ah.addArgument( "range-vec", DEST_RANGE( range_vec, int, std::vector), "range");
   ah.addArgument( "range-bs", DEST_RANGE_BITSET( range_bs, 64), "range bitset");
   ah.addArgument( "value", DEST_VAR_VALUE( v_int, 42), "value");
   ah.addArgument( "value-s", DEST_VAR_VALUE( v_string, std::string( "x")), "value string");
   ah.addArgument( "pair", DEST_PAIR( v_string, p_int, 7), "pair");
   ah.addArgument( "pair-c", DEST_PAIR( c_vec_int, p_str, std::string( "y")), "pair container");
   ah.addArgument( "start", DEST_START_END( se_start, se_end), "start end");
   ah.addArgument( "f-flag", DEST_FUNCTION( on_flag), "callable");
   ah.addArgument( "f-value", DEST_FUNCTION_VALUE( on_value), "callable value");
   ah.addArgument( "sub", sub, "sub group");

   ah.addConstraint( all_of( "b;i"));
   ah.addConstraint( any_of( "b;i"));
   ah.addConstraint( one_of( "b;i"));
   ah.addConstraint( differ( "i;uint"));
   ah.addConstraint( disjoint( "vec-int;deque"));

   ah.evalArguments( argc, argv);
   evalArgumentString( ah, "-i 5", nullptr);

   auto  h1 = Groups::instance().getArgHandler( "one");
   auto  h2 = Groups::instance().getArgValueHandler( "two");
   h1->addArgument( "x", DEST_VAR( v_int), "x");
   Groups::instance().evalArguments( argc, argv);
   (void) h2;
}

} // namespace verif_driver
