// instantiation driver (C13): instantiates the public int2string /
// grouped_int2string dispatcher templates for every integral type.
// Contains no copy of repository code.
#include <cstdint>
#include "celma/format/int2string.hpp"
#include "celma/format/grouped_int2string.hpp"
#include "celma/format/string_to.hpp"

namespace verif_driver {

template< typename T> void use()
{
   char  buffer[ 64];
   T     v = T();
   (void) celma::format::int2string( v);
   (void) celma::format::int2string( buffer, v);
   (void) celma::format::grouped_int2string( v);
   (void) celma::format::grouped_int2string( buffer, v);
   (void) celma::format::grouped_int2string( v, '.');
}

void drive()
{
   use< int8_t>();   use< uint8_t>();
   use< int16_t>();  use< uint16_t>();
   use< int32_t>();  use< uint32_t>();
   use< int64_t>();  use< uint64_t>();
   use< long long>();  use< unsigned long long>();
   use< signed char>(); use< unsigned char>(); use< char>();
   use< short>(); use< unsigned short>(); use< long>(); use< unsigned long>();
}

} // namespace verif_driver
