// instantiation driver (C12): instantiates the members of the DynamicBitset
// iterator templates.  Contains no copy of repository code.
#include <bitset>
#include "celma/container/dynamic_bitset.hpp"

namespace verif_driver {

size_t drive( celma::container::DynamicBitset& bs, const celma::container::DynamicBitset& cbs)
{
   size_t  sum = 0;
   for (auto it = bs.begin(); it != bs.end(); ++it)  sum += *it;
   for (auto it = bs.begin(); it != bs.end(); it++)  sum += *it;
   for (auto it = cbs.begin(); it != cbs.end(); ++it)  sum += *it;
   for (auto it = cbs.cbegin(); it != cbs.cend(); it++)  sum += *it;
   for (auto it = bs.rbegin(); it != bs.rend(); ++it)  sum += *it;
   for (auto it = bs.rbegin(); it != bs.rend(); it++)  sum += *it;
   for (auto it = cbs.crbegin(); it != cbs.crend(); ++it)  sum += *it;
   for (auto it = cbs.rbegin(); it != cbs.rend(); it++)  sum += *it;
   auto  i1 = bs.end();   --i1;  i1--;
   auto  i2 = cbs.end();  --i2;  i2--;
   auto  i3 = bs.rend();  --i3;  i3--;
   auto  i4 = cbs.rend(); --i4;  i4--;
   sum += cbs.to_string().length() + cbs.to_string< char>( 'o', 'x').length();
   // the member templates that take a std::bitset
   const std::bitset< 8>  fixed( 0x5a);
   celma::container::DynamicBitset  from_fixed( fixed);
   bs = fixed;
   sum += from_fixed.size();
   return sum + *i1 + *i2 + *i3 + *i4;
}

} // namespace verif_driver
