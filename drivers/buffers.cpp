// instantiation driver (C19): ReadBuffer / WriteBuffer for several buffer sizes
// and both policies.  Contains no copy of repository code.
#include <cstddef>
#include "celma/common/read_buffer.hpp"
#include "celma/common/write_buffer.hpp"

namespace verif_driver {

template< size_t N, typename P> class Reader : public celma::common::ReadBuffer< N, P>
{
protected:
   size_t readData( unsigned char*, size_t len) override { return len; }
};

template< size_t N, typename P> class Writer : public celma::common::WriteBuffer< N, P>
{
protected:
   void writeData( const unsigned char* const, size_t) const override {}
};

template< size_t N> void use()
{
   char  data[ 8];
   Reader< N, celma::common::EmptyReadPolicy>  r1;
   Reader< N, celma::common::ReadCountPolicy>  r2;
   r1.get( data, 4);
   r2.get( data, 4);
   Writer< N, celma::common::EmptyWritePolicy>  w1;
   Writer< N, celma::common::WriteCountPolicy>  w2;
   w1.append( data, 4);  w1.flush();  (void) w1.buffered();
   w2.append( data, 4);  w2.flush();
   // the block type is a template parameter: also instantiate append() for elements wider than one byte (the
   // length is a number of BYTES for every element type)
   const unsigned int  wide[ 2] = { 1, 2};
   w1.append( wide, sizeof( wide));
   w2.append( wide, sizeof( wide));
}

void drive()
{
   use< 1>();
   use< 16>();
#ifdef VERIF_THOROUGH
   use< 2>();
   use< 3>();
   use< 4096>();
#endif
}

} // namespace verif_driver
