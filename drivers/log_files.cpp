// instantiation driver (C15): instantiates the log file handler template for
// the rolling-file policies, with and without a real lock type.  Contains no
// copy of repository code.
#include <mutex>
#include "celma/log/files/counted.hpp"
#include "celma/log/files/handler.hpp"
#include "celma/log/files/max_size.hpp"

template class celma::log::files::Handler< celma::log::files::Counted, std::mutex>;
template class celma::log::files::Handler< celma::log::files::MaxSize>;
