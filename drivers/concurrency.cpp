// instantiation driver (C20): forces Singleton<X>::instance / reset and the
// ManagedThread constructor template into existence so that their bodies are
// analysed as resolved AST.  Contains no copy of repository code.
#include "celma/common/singleton.hpp"
#include "celma/common/managed_thread.hpp"

namespace verif_driver {

class Single : public celma::common::Singleton< Single>
{
   friend class celma::common::Singleton< Single>;
protected:
   Single() = default;
   explicit Single( int, const char*) {}
};

inline void worker( int) {}

void drive()
{
   Single::instance();
   Single::instance( 1, "x");
   Single::reset();
   celma::common::ManagedThread  t1( [] () {});
   celma::common::ManagedThread  t2( worker, 42);
   (void) t1.isActive();
}

} // namespace verif_driver
