// instantiation driver (C20): forces Singleton<X>::instance / reset and the
// ManagedThread constructor template into existence so that their bodies are
// analysed as resolved AST.  Contains no copy of repository code.
#include "celma/common/singleton.hpp"
#include "celma/common/managed_thread.hpp"

namespace verif_driver {

class Single : public celma::common::Singleton< Single>
{
   friend class celma::common::Singleton< Single>;
protected:
   Single() = default;
   explicit Single( int, const char*) {}
};

inline void worker( int) {}
// thread functions that return a value (std::thread ignores it): their instantiations of the constructor's lambda
// are analysed too - a set/clear bracket that depends on the return type must hold for them as well
inline int valued_worker( int v) { return v; }

void drive()
{
   Single::instance();
   Single::instance( 1, "x");
   Single::reset();
   celma::common::ManagedThread  t1( [] () {});
   celma::common::ManagedThread  t2( worker, 42);
   celma::common::ManagedThread  t3( valued_worker, 42);
   celma::common::ManagedThread  t4( [] () -> bool { return true; });
   (void) t1.isActive();
}

} // namespace verif_driver
