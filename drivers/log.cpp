// instantiation driver (C14-C16): instantiates the log pre-check template and
// touches the header-only filter classes.  Contains no copy of repository code.
#include <string>
#include "celma/log/logging.hpp"
#include "celma/log/detail/helper_function.hpp"
#include "celma/log/filter/filters.hpp"
#include "celma/log/filter/detail/log_filter_classes.hpp"
#include "celma/log/filter/detail/log_filter_level.hpp"
#include "celma/log/filter/detail/log_filter_max_level.hpp"
#include "celma/log/filter/detail/log_filter_min_level.hpp"
#include "celma/log/detail/log_defs.hpp"

namespace verif_driver {

bool drive( celma::log::id_t id, const std::string& name)
{
   bool  r = celma::log::detail::discard_by_level( id, celma::log::LogLevel::info);
   r |= celma::log::detail::discard_by_level( name, celma::log::LogLevel::info);
   celma::log::filter::Filters  f;
   f.maxLevel( celma::log::LogLevel::info);
   f.minLevel( celma::log::LogLevel::info);
   f.level( celma::log::LogLevel::info);
   f.classes( "data");
   (void) celma::log::detail::text2logClass( "data");
   (void) celma::log::detail::text2logLevel( "info");
   return r || f.processLevel( celma::log::LogLevel::info);
}

} // namespace verif_driver
