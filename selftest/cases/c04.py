H = 'src/library/prog_args/handler.cpp'
A = 'src/library/appl/arg_string_2_array.cpp'
T = 'src/celma/prog_args/detail/typed_arg.hpp'
CASES = [
    dict(id='c04-orig-progname-copy', prop='C04', file=H, expect='R1',
         old="   std::unique_ptr< char[]>  copy( new char[ ::strlen( arg0) + 1]);\n\n   ::strcpy( copy.get(), arg0);\n\n   const char*  progNameOnly",
         new="   std::unique_ptr< char[]>  copy( new char[ ::strlen( arg0)]);\n\n   ::strcpy( copy.get(), arg0);\n\n   const char*  progNameOnly"),
    dict(id='c04-orig-scalar-owner', prop='C04', file=H, expect='R2',
         old="      std::unique_ptr< char[]>  copy( new char[ ::strlen( arg0) + 1]);", new="      std::unique_ptr< char>  copy( new char[ ::strlen( arg0) + 1]);"),
    dict(id='c04-argv-no-room-for-null', prop='C04', file=A, expect='R3',
         old="   mpArgV = new char*[ arguments.size() + 1];", new="   mpArgV = new char*[ arguments.size()];"),
    dict(id='c04-argv-progname-slot', prop='C04', file=A, expect='R3',
         old="   mpArgV = new char*[ arguments.size() + 2];", new="   mpArgV = new char*[ arguments.size() + 1];"),
    dict(id='c04-word-no-terminator', prop='C04', file=A, expect='R1',
         old="      argv[ argc] = new char[ next_arg.length() + 1];", new="      argv[ argc] = new char[ next_arg.length()];"),
    dict(id='c04-default-progname-short', prop='C04', file=A, expect='R1',
         old="      mpArgV[ 0] = new char[ 12];", new="      mpArgV[ 0] = new char[ 11];"),
    dict(id='c04-delete-scalar', prop='C04', file=A, expect='R2',
         old="      delete [] mpArgV[ i];", new="      delete mpArgV[ i];"),
    dict(id='c04-throw-cstring', prop='C04', file=H, expect='R4',
         old="         throw argument_error( \"Argument '\" + format::toString( key)\n                               + \"' requires value(s)\");", new="         throw \"argument requires value(s)\";"),
    dict(id='c04-array-index-check-late', prop='C04', file=T, expect='R5',
         old="      if (mIndex == N)\n         throw std::runtime_error( \"too many values for fixed-size array \"\n            \"variable '\" + mVarName + \"'\");\n\n      auto  list_val( *it);\n\n      check( list_val);\n\n      if (!mFormats.empty())\n      {\n         format( list_val);\n         format( list_val, mIndex);\n      } // end if\n\n      auto const  dest_value = boost::lexical_cast< T>( list_val);\n      if (mUniqueData)\n      {\n         // only search in the values that were stored already\n         if (common::contains( mDestVar, mIndex, dest_value))",
         new="      if (mIndex > N)\n         throw std::runtime_error( \"too many values for fixed-size array \"\n            \"variable '\" + mVarName + \"'\");\n\n      auto  list_val( *it);\n\n      check( list_val);\n\n      if (!mFormats.empty())\n      {\n         format( list_val);\n         format( list_val, mIndex);\n      } // end if\n\n      auto const  dest_value = boost::lexical_cast< T>( list_val);\n      if (mUniqueData)\n      {\n         // only search in the values that were stored already\n         if (common::contains( mDestVar, mIndex, dest_value))"),
    dict(id='c04-bitset-pos-inclusive', prop='C04', file=T, expect='R5',
         old="         auto const  pos = boost::lexical_cast< size_t>( list_val);\n         if (pos >= N)", new="         auto const  pos = boost::lexical_cast< size_t>( list_val);\n         if (pos > N)"),
    dict(id='c04-orig-vecbool-growth', prop='C04', file=T, expect='R5',
         old="            auto const  pos = boost::lexical_cast< size_t>( listVal);\n            if (pos >= mDestVar.size())\n            {\n               if (pos >= mDestVar.max_size())\n                  throw std::length_error( \"position \" + std::to_string( pos)\n                     + \" is too big for variable '\" + mVarName + \"'\");\n               mDestVar.resize( (pos + 1) * 1.5);\n            } // end if",
         new="            auto const  pos = boost::lexical_cast< size_t>( listVal);\n            if (pos >= mDestVar.size())\n               mDestVar.resize( pos * 1.5);"),
    dict(id='c04-eq-argv-plus-three', prop='C04', file=A, expect=None,
         old="   mpArgV = new char*[ arguments.size() + 2];", new="   mpArgV = new char*[ arguments.size() + 3];"),
]

CASES += [
    dict(id='c04-argv0-strdup', prop='C04', file='src/library/appl/arg_string_2_array.cpp', expect='R2',
         old="      mpArgV[ 0] = new char[ 12];\n      ::strcpy( mpArgV[ 0], \"programname\");", new="      mpArgV[ 0] = ::strdup( \"programname\");"),
]

CASES += [
    dict(id='c04-orig-arg-file-loop-eof', prop='C04', file='src/library/prog_args/handler.cpp', expect='R8',
         old="   while (std::getline( progArgs, line))", new="   while (!std::getline( progArgs, line).eof())"),
    dict(id='c04-arg-file-loop-or-nonempty', prop='C04', file='src/library/prog_args/handler.cpp', expect='R8',
         old="   while (std::getline( progArgs, line))", new="   while (std::getline( progArgs, line) || !line.empty())"),
    dict(id='c04-eq-arg-file-loop-not-fail', prop='C04', file='src/library/prog_args/handler.cpp', expect=None,
         old="   while (std::getline( progArgs, line))", new="   while (!std::getline( progArgs, line).fail())"),
]

CASES += [
    dict(id='c04-lambda-captures-param-by-ref', prop='C04', file='src/library/prog_args/handler.cpp', expect='R10',
         old="         [&, full=full]( auto const& help_arg_key, bool)", new="         [&]( auto const& help_arg_key, bool)"),
    dict(id='c04-eq-lambda-explicit-copy', prop='C04', file='src/library/prog_args/handler.cpp', expect=None,
         old="         [&, full=full]( auto const& help_arg_key, bool)", new="         [this, full]( auto const& help_arg_key, bool)"),
]

CASES += [
    dict(id='c04-help-subgroup-cast-of-normal-argument', prop='C04', file=H, expect='R11',
         old="      auto                       p_arg_hdl = mSubGroupArgs.findArg( key);\n\n      if (p_arg_hdl != nullptr)\n      {\n         static_cast<",
         new="      auto                       p_arg_hdl = mArguments.findArg( key);\n\n      if (p_arg_hdl != nullptr)\n      {\n         static_cast<"),
    dict(id='c04-eq-help-subgroup-two-step-lookup', prop='C04', file=H, expect=None,
         old="      auto                       p_arg_hdl = mSubGroupArgs.findArg( key);\n\n      if (p_arg_hdl != nullptr)\n      {\n         static_cast<",
         new="      detail::TypedArgBase*      p_arg_hdl = nullptr;\n      p_arg_hdl = mSubGroupArgs.findArg( key);\n\n      if (p_arg_hdl != nullptr)\n      {\n         static_cast<"),
]

AO = 'src/library/prog_args/detail/constraint_all_of.cpp'
CASES += [
    dict(id='c04-eq-erase-after-early-return', prop='C04', file=AO, expect=None,
         old="   if (argpos != mRemainingArguments.end())\n      mRemainingArguments.erase( argpos);",
         new="   if (argpos == mRemainingArguments.end())\n      return;\n\n   mRemainingArguments.erase( argpos);"),
    dict(id='c04-erase-guard-on-wrong-container', prop='C04', file=AO, expect='R12',
         old="   if (argpos != mRemainingArguments.end())\n      mRemainingArguments.erase( argpos);",
         new="   if (!mRemainingArguments.empty())\n      mRemainingArguments.erase( argpos);"),
]

ALI4 = 'src/celma/prog_args/detail/arg_list_iterator.hpp'
CASES += [
    dict(id='c04-eq-postfix-increment-try-block', prop='C04', file=H, expect=None,
         old="   if (mUsedByGroup)\n      Groups::instance().crossCheckArguments( this);\n\n   return ah_obj;", new="   if (mUsedByGroup)\n   {\n      Groups::instance().crossCheckArguments( this);\n   } // end if\n\n   return ah_obj;"),
]

CASES += [
    dict(id='c04-orig-argument-file-nesting-unbounded', prop='C04', file=H, expect='R14',
         old="   if (++mArgFileNesting > MaxArgFileNesting)\n      throw runtime_error(", new="   if (++mArgFileNesting < 0)\n      return;\n   if (false)\n      throw runtime_error("),
    dict(id='c04-eq-argument-file-nesting-test-form', prop='C04', file=H, expect=None,
         old="   if (++mArgFileNesting > MaxArgFileNesting)\n      throw runtime_error(", new="   ++mArgFileNesting;\n   if (mArgFileNesting >= MaxArgFileNesting + 1)\n      throw runtime_error("),
]

CASES += [
    dict(id='c04-eq-move-ctor-by-exchange', prop='C04', file=A, expect=None,
         edits=[(A, "   mpArgV( other.mpArgV)\n{\n\n   other.mpArgV = nullptr;", "   mpArgV( std::exchange( other.mpArgV, nullptr))\n{\n"),
                (A, "#include \"celma/appl/arg_string_2_array.hpp\"", "#include \"celma/appl/arg_string_2_array.hpp\"\n#include <utility>")]),
]

A2A = 'src/library/appl/arg_string_2_array.cpp'
CASES += [
    dict(id='c04-argv-word-allocated-by-strlen', prop='C04', file=A2A, expect='R3',
         old="      argv[ argc] = new char[ next_arg.length() + 1];\n      ::strcpy( argv[ argc], next_arg.c_str());",
         new="      argv[ argc] = new char[ ::strlen( next_arg.c_str()) + 1];\n      next_arg.copy( argv[ argc], next_arg.length());\n      argv[ argc][ next_arg.length()] = '\\0';"),
    dict(id='c04-eq-argv-word-by-string-copy', prop='C04', file=A2A, expect=None,
         old="      argv[ argc] = new char[ next_arg.length() + 1];\n      ::strcpy( argv[ argc], next_arg.c_str());",
         new="      argv[ argc] = new char[ next_arg.length() + 1];\n      next_arg.copy( argv[ argc], next_arg.length());\n      argv[ argc][ next_arg.length()] = '\\0';"),
]
