A = 'src/library/prog_args/detail/argument_desc.cpp'
H = 'src/library/prog_args/handler.cpp'
CASES = [
    dict(id='c18-orig-help-raw-key', prop='C18', file=H, expect='R3',
         old="      auto const  desc = mDescription.getArgDesc( p_arg_hdl->key());", new="      auto const  desc = mDescription.getArgDesc( key);"),
    dict(id='c18-hidden-shown-when-deprecated-requested', prop='C18', file=A, expect='R1',
         old="          && (printHidden || !mpArgObj->isHidden())", new="          && (printHidden || print_deprecated || !mpArgObj->isHidden())"),
    dict(id='c18-long-only-shows-short', prop='C18', file=A, expect='R1',
         old="              || ((usage_contents == UsageParams::Contents::longOnly)\n                  && mpArgObj->key().hasStringArg()));",
         new="              || ((usage_contents == UsageParams::Contents::longOnly)\n                  && mpArgObj->key().hasCharArg()));"),
    dict(id='c18-both-passes', prop='C18', file=A, expect='R1',
         old="   return (printIsMandatory == mpArgObj->isMandatory())\n          &&", new="   return (printIsMandatory || !mpArgObj->isMandatory())\n          &&"),
    dict(id='c18-pass-not-toggled', prop='C18', file=A, expect='R2',
         old="      printIsMandatory = !printIsMandatory;\n   } // end for", new="      if (max_length < MaxNameLength)\n         printIsMandatory = !printIsMandatory;\n   } // end for"),
    dict(id='c18-stop-after-deprecated', prop='C18', file=A, expect='R2',
         old="         else\n            descCopy.append( \"\\n[deprecated]\");\n      } // end if", new="         else\n            break;\n      } // end if"),
    dict(id='c18-key-only-same-line', prop='C18', file=A, expect='R2',
         old="      else\n         os << mIndention << std::left\n            << mArguments[ i].key( mpUsageParams->contents())\n            << endl;", new="      else\n         os << mIndention << std::left\n            << endl;"),
    dict(id='c18-subgroup-no-description', prop='C18', file=H, expect='R2',
         old="   mSubGroupArgs.addArgument( arg_hdl, key);\n   mDescription.addArgument( desc, arg_hdl);", new="   mSubGroupArgs.addArgument( arg_hdl, key);"),
    dict(id='c18-unknown-silent', prop='C18', file=H, expect='R3',
         old="      mErrorOutput << \"*** ERROR: Argument '\" << help_arg_key << \"' is unknown!\"\n         << std::endl;", new=""),
    dict(id='c18-eq-demorgan', prop='C18', file=A, expect=None,
         old="          && (printHidden || !mpArgObj->isHidden())", new="          && !(!printHidden && mpArgObj->isHidden())"),
]

CASES += [
    dict(id='c18-subgroup-private-settings', prop='C18', file='src/library/prog_args/handler.cpp', expect='R4',
         old="   mpUsageParams( main_ah.mpUsageParams),", new="   mpUsageParams( std::make_shared< detail::UsageParams>( *main_ah.mpUsageParams)),"),
]

CASES += [
    dict(id='c18-width-pass-wrong-setting', prop='C18', file='src/library/prog_args/detail/argument_desc.cpp', expect='R5',
         old="          && !arg_desc.doPrint( false, mpUsageParams->printHidden(),", new="          && !arg_desc.doPrint( false, mpUsageParams->printDeprecated(),"),
    dict(id='c18-description-word-dropped', prop='C18', file='src/library/format/text_block.cpp', expect='R6',
         old="         os << tiWord;\n         currLength = mIndentSpaces.length() + tiWord.length();", new="         currLength = mIndentSpaces.length() + tiWord.length();"),
]

CASES += [
    dict(id='c18-constraint-chained-to-check', prop='C18', file='src/library/prog_args/detail/argument_desc.cpp', expect='R7',
         old="      if (mArguments[ i].mpArgObj->hasConstraint())", new="      else if (mArguments[ i].mpArgObj->hasConstraint())"),
]

UP = 'src/library/prog_args/detail/usage_params.cpp'
CASES += [
    dict(id='c18-usage-short-binds-long', prop='C18', file=UP, expect='R8',
         old="      DEST_VAR_VALUE( mContents, Contents::shortOnly),", new="      DEST_VAR_VALUE( mContents, Contents::longOnly),"),
    dict(id='c18-print-deprecated-binds-hidden', prop='C18', file=UP, expect='R8',
         old="   return handler.addArgument( arg_spec, DEST_VAR( mPrintDeprecated),", new="   return handler.addArgument( arg_spec, DEST_VAR( mPrintHidden),"),
    dict(id='c18-set-print-hidden-sets-deprecated', prop='C18', file=UP, expect='R8',
         old="   mPrintHidden = true;", new="   mPrintDeprecated = true;"),
    dict(id='c18-flag-usage-long-adds-short', prop='C18', file=H, expect='R8',
         old="      mpUsageParams->addArgumentUsageLong( *this, \"help-long\");", new="      mpUsageParams->addArgumentUsageShort( *this, \"help-long\");"),
    dict(id='c18-flag-hidden-swapped', prop='C18', file=H, expect='R8',
         old="   if (flag_set & hfUsageHidden)\n      mpUsageParams->setPrintHidden();", new="   if (flag_set & hfArgHidden)\n      mpUsageParams->setPrintHidden();"),
    dict(id='c18-eq-flag-test-explicit', prop='C18', file=H, expect=None,
         old="   if (flag_set & hfUsageHidden)\n      mpUsageParams->setPrintHidden();", new="   if ((flag_set & hfUsageHidden) != 0)\n   {\n      mpUsageParams->setPrintHidden();\n   }"),
]

TBC = 'src/library/prog_args/detail/typed_arg_base.cpp'
TBH = 'src/celma/prog_args/detail/typed_arg_base.hpp'
CASES += [
    dict(id='c18-replaced-not-marked-deprecated', prop='C18', file=TBC, expect='R9',
         old="   mIsDeprecated = true;\n   mReplacedBy = new_arg_key;", new="   mReplacedBy = new_arg_key;"),
    dict(id='c18-hidden-getter-conditioned', prop='C18', file=TBH, expect='R9',
         old="   return mIsHidden;", new="   return mIsHidden && !mIsMandatory;"),
    dict(id='c18-eq-hidden-getter-parenthesised', prop='C18', file=TBH, expect=None,
         old="   return mIsHidden;", new="   return (mIsHidden);"),
]

CASES += [
    dict(id='c18-checks-dropped-after-use', prop='C18', file=TBC, expect='R10',
         old="   for (auto & curr_constraint : mConstraints)", new="   mChecks.clear();\n   for (auto & curr_constraint : mConstraints)"),
]

CASES += [
    dict(id='c18-eq-set-caption-order-of-blocks', prop='C18', file=A, expect=None,
         old="   if (mandatory != nullptr)\n      mCaptionMandatory.assign( mandatory);\n\n   if (optional != nullptr)\n      mCaptionOptional.assign( optional);",
         new="   if (optional != nullptr)\n      mCaptionOptional.assign( optional);\n\n   if (mandatory != nullptr)\n      mCaptionMandatory.assign( mandatory);"),
    dict(id='c18-optional-pass-prints-mandatory-caption', prop='C18', file=A, expect='R11',
         old="            os << mCaptionOptional << endl;", new="            os << mCaptionMandatory << endl;"),
]

TAH = 'src/celma/prog_args/detail/typed_arg.hpp'
CASES += [
    dict(id='c18-orig-level-counter-without-default-value', prop='C18', file=TAH, expect='R12',
         old="   void defaultValue( std::string& dest) const override\n   {\n      dest.append( format::toString( mDestVar.value()));\n   } // TypedArg< LevelCounter>::defaultValue\n",
         new=""),
]
