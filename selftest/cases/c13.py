D = 'src/library/format/detail/'
CASES = [
    dict(id='c13-length-decade', prop='C13', file='src/celma/format/detail/int32_str_length.hpp', expect='P1',
         old="value >= 1000000)", new="value >= 1000001)"),
    dict(id='c13-drop-division', prop='C13', file=D + 'int32_to_string.cpp', expect='P2',
         old="   case  6:  *buffer-- = '0' + (value % 10);  value /= 10;  [[fallthrough]];",
         new="   case  6:  *buffer-- = '0' + (value % 10);  [[fallthrough]];"),
    dict(id='c13-grouped-length', prop='C13', file=D + 'grouped_int32_to_string.cpp', expect='P2',
         old="int groupedUint32toString( char* buffer, uint32_t value, char group_char)\n{\n\n   const auto     result_len = int32_str_length( value);\n   const uint8_t  grouped_result_len = result_len + (result_len - 1) / 3;",
         new="int groupedUint32toString( char* buffer, uint32_t value, char group_char)\n{\n\n   const auto     result_len = int32_str_length( value);\n   const uint8_t  grouped_result_len = result_len + result_len / 3;"),
    dict(id='c13-nul-index', prop='C13', file=D + 'int16_to_string.cpp', expect='P2',
         old="   buffer[ result_len + 1] = '\\0';", new="   buffer[ result_len] = '\\0';"),
    dict(id='c13-neg-narrow', prop='C13', file=D + 'int64_to_string.cpp', expect='P2',
         old="int int64negToString( char* buffer, int64_t value)\n{\n\n   // convert into a positive value\n   const uint64_t  abs_value = -value;",
         new="int int64negToString( char* buffer, int64_t value)\n{\n\n   // convert into a positive value\n   const uint32_t  abs_value = -value;"),
    dict(id='c13-dispatch-zero-neg', prop='C13', file='src/celma/format/detail/int16_to_string.hpp', expect='P3',
         old="inline int int16toString( char* buffer, int16_t value)\n{\n   if (value < 0L)", new="inline int int16toString( char* buffer, int16_t value)\n{\n   if (value <= 0L)"),
    dict(id='c13-group-every-4', prop='C13', file=D + 'grouped_int64_to_string.cpp', expect='P2',
         old="   if (++num_digits == 4)", new="   if (++num_digits == 5)"),
    dict(id='c13-eq-top-digit-mod', prop='C13', file=D + 'int16_to_string.cpp', expect=None,
         old="   default:  *buffer   = '0' + value;", new="   default:  *buffer   = '0' + (value % 10);"),
]

CASES += [
    dict(id='c13-stringto-u64-signed', prop='C13', file='src/celma/format/string_to.hpp', expect='P4',
         old="S2( uint64_t, stoul)", new="S2( uint64_t, stol)"),
    dict(id='c13-stringto-i64-int', prop='C13', file='src/celma/format/string_to.hpp', expect='P4',
         old="S2( int64_t, stol)", new="S2( int64_t, stoi)"),
    dict(id='c13-eq-stringto-u64-ull', prop='C13', file='src/celma/format/string_to.hpp', expect=None,
         old="S2( uint64_t, stoul)", new="S2( uint64_t, stoull)"),
]

I32 = 'src/library/format/detail/int32_to_string.cpp'


def _div10_case(cid, magic, shift, expect):
    helper = ("inline uint32_t div10( uint32_t value)\n{\n   return static_cast< uint32_t>( (static_cast< uint64_t>( value) * "
              "%s) >> %d);\n} // div10\n\n\n/// The actual conversion function. Starts at the of the buffer, stores the last" % (magic, shift))
    edits = [(I32, "/// The actual conversion function. Starts at the of the buffer, stores the last", helper)]
    for k in range(10, 1, -1):
        edits.append((I32, "   case %2d:  *buffer-- = '0' + (value %% 10);  value /= 10;  [[fallthrough]];" % k,
                      "   case %2d:  *buffer-- = '0' + (value %% 10);  value = div10( value);  [[fallthrough]];" % k))
    return dict(id=cid, prop='C13', expect=expect, edits=edits)


CASES += [
    _div10_case('c13-div10-by-inexact-reciprocal', '0x66666667UL', 34, 'P2'),
    _div10_case('c13-eq-div10-by-exact-reciprocal', '0xCCCCCCCDUL', 35, None),
]

G64 = 'src/library/format/detail/grouped_int64_to_string.cpp'
CASES += [
    dict(id='c13-eq-grouped-length-table', prop='C13', expect=None,
         edits=[(G64, "} // checkAddGroupChar\n", "} // checkAddGroupChar\n\n\ninline uint8_t groupedLength( uint8_t num_digits)\n{\n   static const uint8_t  grouped_len[] = { 0, 1, 2, 3, 5, 6, 7, 9, 10, 11,\n      13, 14, 15, 17, 18, 19, 21, 22, 23, 25, 26 };\n   return grouped_len[ num_digits];\n}\n"),
                (G64, "   const uint8_t  grouped_result_len = result_len + (result_len - 1) / 3;", "   const uint8_t  grouped_result_len = groupedLength( result_len);", 4)]),
    dict(id='c13-grouped-length-table-wrong-entry', prop='C13', expect='P2',
         edits=[(G64, "} // checkAddGroupChar\n", "} // checkAddGroupChar\n\n\ninline uint8_t groupedLength( uint8_t num_digits)\n{\n   static const uint8_t  grouped_len[] = { 0, 1, 2, 3, 5, 6, 7, 9, 10, 11,\n      13, 14, 15, 17, 18, 19, 21, 23, 23, 25, 26 };\n   return grouped_len[ num_digits];\n}\n"),
                (G64, "   const uint8_t  grouped_result_len = result_len + (result_len - 1) / 3;", "   const uint8_t  grouped_result_len = groupedLength( result_len);", 4)]),
]
