F = 'src/library/log/filter/filters.cpp'
CASES = [
    dict(id='c14-bitset-one-short', prop='C14', file='src/celma/log/filter/detail/log_filter_classes.hpp', expect='R1',
         old="LogClass::operatorAction) + 1>", new="LogClass::operatorAction)>"),
    dict(id='c14-ctor-resets-policy', prop='C14', file=F, expect='R6',
         old="   if (mpDuplicatePolicy.get() == nullptr)\n      setDuplicatePolicy( detail::DuplicatePolicy::ignore);",
         new="   setDuplicatePolicy( detail::DuplicatePolicy::ignore);"),
    dict(id='c14-max-level-exclusive', prop='C14', file='src/celma/log/filter/detail/log_filter_max_level.hpp', expect='R2',
         old="   return l <= mMaxLevel;", new="   return l < mMaxLevel;"),
    dict(id='c14-level-pass-differs', prop='C14', file='src/celma/log/filter/detail/log_filter_level.hpp', expect='R3',
         old="   return msg.getLevel() == mLevel;", new="   return msg.getLevel() <= mLevel;"),
    dict(id='c14-precheck-misses-level', prop='C14', file=F, expect='R3',
         old="   case detail::IFilter::FilterTypes::level:\n      return static_cast< detail::LogFilterLevel*>( mpLevelFilter)\n         ->processLevel( l);\n", new=""),
    dict(id='c14-pass-any-filter', prop='C14', file=F, expect='R3',
         old="      if (!it->passFilter( msg))\n         return false;\n   } // end for\n\n   return true;",
         new="      if (it->passFilter( msg))\n         return true;\n   } // end for\n\n   return mFilters.empty();"),
    dict(id='c14-log-break-always', prop='C14', file='src/library/log/logging.cpp', expect='R4',
         old="         if (logs == it.mLogId)\n            break;   // for", new="         break;   // for"),
    dict(id='c14-dest-ignores-own-filter', prop='C14', file='src/library/log/detail/i_log_dest.cpp', expect='R4',
         old="   if (pass( msg))\n      message( msg);", new="   message( msg);"),
    dict(id='c14-class-lookup-short', prop='C14', file='src/celma/log/detail/log_defs.hpp', expect='R5',
         old="i <= static_cast< int>( LogClass::operatorAction); i++)", new="i < static_cast< int>( LogClass::operatorAction); i++)"),
    dict(id='c14-dup-class-text', prop='C14', file='src/celma/log/detail/log_defs.hpp', expect='R5',
         old='   case LogClass::accounting:      return "Accounting";', new='   case LogClass::accounting:      return "application";'),
    dict(id='c14-dup-adds-second', prop='C14', file=F, expect='R6',
         old="         // replaced or not: no need to look further\n         return;", new="         if (mpDuplicatePolicy->acceptNew())\n            break;\n         return;"),
    dict(id='c14-eq-pass-all-of', prop='C14', file=F, expect=None,
         old="      if (!it->passFilter( msg))\n         return false;\n   } // end for\n\n   return true;",
         new="      const bool  ok = it->passFilter( msg);\n      if (ok == false)\n         return false;\n   } // end for\n\n   return true;"),
]

CASES += [
    dict(id='c14-policy-identity-replace', prop='C14', file='src/celma/log/filter/detail/duplicate_policy_replace.hpp', expect='R7',
         old="      return DuplicatePolicy::replace;", new="      return DuplicatePolicy::ignore;"),
    dict(id='c14-policy-factory-swapped', prop='C14', file='src/library/log/filter/detail/duplicate_policy_factory.cpp', expect='R7',
         old="   case DuplicatePolicy::exception:  return new DuplicatePolicyException;\n   case DuplicatePolicy::replace:    return new DuplicatePolicyReplace;",
         new="   case DuplicatePolicy::exception:  return new DuplicatePolicyReplace;\n   case DuplicatePolicy::replace:    return new DuplicatePolicyException;"),
]

CASES += [
    dict(id='c14-class-filter-inverted', prop='C14', file='src/celma/log/filter/detail/log_filter_classes.hpp', expect='R8',
         old="   return mClassSelection[ static_cast< size_t>( msg.getClass())];", new="   return !mClassSelection[ static_cast< size_t>( msg.getClass())];"),
    dict(id='c14-class-filter-offset', prop='C14', file='src/library/log/filter/detail/log_filter_classes.cpp', expect='R8',
         old="      mClassSelection.set( static_cast< size_t>( log_class));", new="      mClassSelection.set( static_cast< size_t>( log_class) - 1);"),
    dict(id='c14-eq-class-filter-test', prop='C14', file='src/celma/log/filter/detail/log_filter_classes.hpp', expect=None,
         old="   return mClassSelection[ static_cast< size_t>( msg.getClass())];", new="   return mClassSelection.test( static_cast< size_t>( msg.getClass()));"),
]

CASES += [
    dict(id='c14-level-setter-min-tag', prop='C14', file='src/library/log/filter/filters.cpp', expect='R6',
         old="                 ( detail::IFilter::FilterTypes::level, selected_log_level);", new="                 ( detail::IFilter::FilterTypes::minLevel, selected_log_level);"),
]

CASES += [
    dict(id='c14-level-filter-back-in-exists-branch', prop='C14', file='src/library/log/filter/filters.cpp', expect='R6',
         old="         if (detail::IFilter::isLevelFilter( filter_type))\n            mpLevelFilter = it;", new="         if (detail::IFilter::isLevelFilter( filter_type))\n            mpLevelFilter = mFilters.back();"),
]

CASES += [
    dict(id='c14-level-filter-compares-member-with-itself', prop='C14', file='src/celma/log/filter/detail/log_filter_level.hpp', expect='R*',
         old="   return msg.getLevel() == mLevel;", new="   return mLevel == mLevel;"),
    dict(id='c14-max-level-pass-ignores-message', prop='C14', file='src/celma/log/filter/detail/log_filter_max_level.hpp', expect='R*',
         old="   return processLevel( msg.getLevel());", new="   return processLevel( mMaxLevel);"),
    dict(id='c14-min-level-compares-param-with-itself', prop='C14', file='src/celma/log/filter/detail/log_filter_min_level.hpp', expect='R*',
         old="   return l >= mMinLevel;", new="   return l >= l;"),
]

LG = 'src/library/log/logging.cpp'
CASES += [
    dict(id='c14-getlog-by-prefix', prop='C14', file=LG, expect='R11',
         old="      if (log_name == it.mName)\n         return it.mpLog;", new="      if (it.mName.compare( 0, log_name.length(), log_name) == 0)\n         return it.mpLog;"),
    dict(id='c14-eq-getlog-compare-form', prop='C14', file=LG, expect=None,
         old="      if (log_name == it.mName)\n         return it.mpLog;", new="      if (it.mName.compare( log_name) == 0)\n         return it.mpLog;"),
]

LOGC = 'src/library/log/detail/log.cpp'
CASES += [
    dict(id='c14-eq-remove-destination-erase-remove', prop='C14', expect=None,
         edits=[(LOGC, "   for (auto it = mLoggers.begin(); it != mLoggers.end(); ++it)\n   {\n      if (it->mName == name)\n      {\n         mLoggers.erase( it);\n         break;   // for\n      } // end if\n   } // end for",
                 "   mLoggers.erase( std::remove_if( mLoggers.begin(), mLoggers.end(),\n      [&name]( const LogDestData& ldd) { return ldd.mName == name; }), mLoggers.end());"),
                (LOGC, "#include \"celma/log/detail/log.hpp\"", "#include \"celma/log/detail/log.hpp\"\n#include <algorithm>")]),
]

SL = 'src/celma/log/detail/stream_log.hpp'
CASES += [
    dict(id='c14-stream-level-rejects-last', prop='C14', file=SL, expect='R12',
         old="(ll > LogLevel::fullDebug))", new="(ll >= LogLevel::fullDebug))"),
    dict(id='c14-eq-stream-level-positive-form', prop='C14', file=SL, expect=None,
         old="         if ((ll <= LogLevel::undefined) || (ll > LogLevel::fullDebug))\n            so.mLogMsg.setLevel( LogLevel::undefined);\n         else\n            so.mLogMsg.setLevel( ll);",
         new="         if ((ll > LogLevel::undefined) && (ll <= LogLevel::fullDebug))\n            so.mLogMsg.setLevel( ll);\n         else\n            so.mLogMsg.setLevel( LogLevel::undefined);"),
]
