R = 'src/celma/common/read_buffer.hpp'
W = 'src/celma/common/write_buffer.hpp'
CASES = [
    dict(id='c19-get-no-size-limit', prop='C19', file=R, expect='O1',
         old="   if (len > N)\n      throw std::runtime_error( \"length requested from get() exceeds buffer length\");\n", new=""),
    dict(id='c19-refill-overask', prop='C19', file=R, expect='O1',
         old="readData( &mpBuffer[ mDataEnd], N - mDataEnd);", new="readData( &mpBuffer[ mDataEnd], N - mDataStart);"),
    dict(id='c19-enough-data-wrong-test', prop='C19', file=R, expect='O1',
         old="   if (len <= (mDataEnd - mDataStart))", new="   if (len <= mDataEnd)"),
    dict(id='c19-compaction-no-rebase', prop='C19', file=R, expect='O4',
         old="      mDataEnd -= mDataStart;\n      mDataStart = 0;", new="      mDataStart = 0;"),
    dict(id='c19-compaction-condition', prop='C19', file=R, expect='O1',
         old="   } else if (N - mDataStart < min_length)", new="   } else if (N - mDataStart < min_length / 2)"),
    dict(id='c19-append-no-flush', prop='C19', file=W, expect='O4',
         old="      // data block fits in buffer, but there is not enough free space\n      flush();\n", new="      // data block fits in buffer, but there is not enough free space\n"),
    dict(id='c19-append-space-test', prop='C19', file=W, expect='O1',
         old="   } else if (N - mWritePos < len)", new="   } else if (N < len)"),
    dict(id='c19-flush-keeps-pos', prop='C19', file=W, expect='O4',
         old="      P::flushed( mWritePos);\n      mWritePos = 0;", new="      P::flushed( mWritePos);"),
    dict(id='c19-passthrough-no-flush', prop='C19', file=W, expect='O4',
         old="      // the data block is larger than the buffer\n      flush();\n", new="      // the data block is larger than the buffer\n"),
    dict(id='c19-eq-passthrough-strict', prop='C19', file=W, expect=None,
         old="   if (len >= N)\n   {", new="   if (len > N)\n   {"),
]

CASES += [
    dict(id='c19-stream-get-from-zero', prop='C19', file=R, expect='O4',
         old="   fillBuffer( len);\n   // only returns when the buffer holds enough data\n   ::memcpy( data, &mpBuffer[ mDataStart], len);",
         new="   fillBuffer( len);\n   // only returns when the buffer holds enough data\n   ::memcpy( data, &mpBuffer[ 0], len);"),
    dict(id='c19-stream-refill-at-start', prop='C19', file=R, expect='O4',
         old="      const size_t data_read = readData( &mpBuffer[ mDataEnd], N - mDataEnd);", new="      const size_t data_read = readData( &mpBuffer[ mDataStart], N - mDataEnd);"),
    dict(id='c19-stream-compaction-off-by-one', prop='C19', file=R, expect='O4',
         old="      ::memmove( &mpBuffer[ 0], &mpBuffer[ mDataStart], mDataEnd - mDataStart);", new="      ::memmove( &mpBuffer[ 0], &mpBuffer[ mDataStart + 1], mDataEnd - mDataStart - 1);"),
    dict(id='c19-stream-end-not-advanced', prop='C19', file=R, expect='O*',
         old="      mDataEnd += data_read;\n", new="      mDataEnd += data_read / 2;\n"),
    dict(id='c19-stream-reset-loses-data', prop='C19', file=R, expect='O4',
         old="   if (mDataStart == mDataEnd)\n   {\n      mDataStart = mDataEnd = 0;", new="   if (mDataStart + 1 >= mDataEnd)\n   {\n      mDataStart = mDataEnd = 0;"),
    dict(id='c19-stream-append-overwrites', prop='C19', file=W, expect='O4',
         old="      ::memcpy( &mpBuffer[ mWritePos], data, len);\n      mWritePos += len;", new="      ::memcpy( &mpBuffer[ 0], data, len);\n      mWritePos += len;"),
    dict(id='c19-stream-passthrough-before-flush', prop='C19', file=W, expect='O4',
         old="      flush();\n      writeData( reinterpret_cast< const unsigned char* const>( data), len);\n      P::flushed( len);",
         new="      writeData( reinterpret_cast< const unsigned char* const>( data), len);\n      flush();\n      P::flushed( len);"),
    dict(id='c19-stream-flush-short', prop='C19', file=W, expect='O4',
         old="      writeData( mpBuffer.get(), mWritePos);\n      P::flushed( mWritePos);", new="      writeData( mpBuffer.get(), mWritePos - 1);\n      P::flushed( mWritePos);"),
    dict(id='c19-stream-second-branch-pos', prop='C19', file=W, expect='O4',
         old="      ::memcpy( mpBuffer.get(), data, len);\n      mWritePos = len;", new="      ::memcpy( mpBuffer.get(), data, len);\n      mWritePos = len - 1;"),
    dict(id='c19-eq-stream-compaction-always', prop='C19', file=R, expect=None,
         old="   } else if (N - mDataStart < min_length)\n   {", new="   } else if (mDataStart > 0)\n   {"),
    # (was classified as behaviour preserving until C19-O6: it loses the buffered bytes when the sink throws)
    dict(id='c19-flush-resets-before-sink', prop='C19', file=W, expect='O6',
         old="      writeData( mpBuffer.get(), mWritePos);\n      P::flushed( mWritePos);\n      mWritePos = 0;",
         new="      const size_t  pending = mWritePos;\n      mWritePos = 0;\n      writeData( mpBuffer.get(), pending);\n      P::flushed( pending);"),
]

CASES += [
    dict(id='c19-get-refuses-exact-n', prop='C19', file='src/celma/common/read_buffer.hpp', expect='O5',
         old="   if (len > N)\n      throw std::runtime_error( \"length requested from get() exceeds buffer length\");",
         new="   if (len >= N)\n      throw std::runtime_error( \"length requested from get() exceeds buffer length\");"),
]

CASES += [
    dict(id='c19-write-buffer-one-byte-short', prop='C19', file='src/celma/common/write_buffer.hpp', expect='O7',
         old="   mpBuffer( new unsigned char[ N])", new="   mpBuffer( new unsigned char[ N - 1])"),
    dict(id='c19-eq-read-buffer-one-byte-more', prop='C19', file='src/celma/common/read_buffer.hpp', expect=None,
         old="   mpBuffer( new unsigned char[ N])", new="   mpBuffer( new unsigned char[ N + 1])"),
]
