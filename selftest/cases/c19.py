R = 'src/celma/common/read_buffer.hpp'
W = 'src/celma/common/write_buffer.hpp'
CASES = [
    dict(id='c19-get-no-size-limit', prop='C19', file=R, expect='O1',
         old="   if (len > N)\n      throw std::runtime_error( \"length requested from get() exceeds buffer length\");\n", new=""),
    dict(id='c19-refill-overask', prop='C19', file=R, expect='O1',
         old="readData( &mpBuffer[ mDataEnd], N - mDataEnd);", new="readData( &mpBuffer[ mDataEnd], N - mDataStart);"),
    dict(id='c19-enough-data-wrong-test', prop='C19', file=R, expect='O1',
         old="   if (len <= (mDataEnd - mDataStart))", new="   if (len <= mDataEnd)"),
    dict(id='c19-compaction-no-rebase', prop='C19', file=R, expect='R3',
         old="      mDataEnd -= mDataStart;\n      mDataStart = 0;", new="      mDataStart = 0;"),
    dict(id='c19-compaction-condition', prop='C19', file=R, expect='O1',
         old="   } else if (N - mDataStart < min_length)", new="   } else if (N - mDataStart < min_length / 2)"),
    dict(id='c19-append-no-flush', prop='C19', file=W, expect='R2',
         old="      // data block fits in buffer, but there is not enough free space\n      flush();\n", new="      // data block fits in buffer, but there is not enough free space\n"),
    dict(id='c19-append-space-test', prop='C19', file=W, expect='O1',
         old="   } else if (N - mWritePos < len)", new="   } else if (N < len)"),
    dict(id='c19-flush-keeps-pos', prop='C19', file=W, expect='R2',
         old="      P::flushed( mWritePos);\n      mWritePos = 0;", new="      P::flushed( mWritePos);"),
    dict(id='c19-passthrough-no-flush', prop='C19', file=W, expect='R2',
         old="      // the data block is larger than the buffer\n      flush();\n", new="      // the data block is larger than the buffer\n"),
    dict(id='c19-eq-passthrough-strict', prop='C19', file=W, expect=None,
         old="   if (len >= N)\n   {", new="   if (len > N)\n   {"),
]
