H = 'src/library/prog_args/handler.cpp'
TA = 'src/celma/prog_args/detail/typed_arg.hpp'
CASES = [
    dict(id='c02-drop-checkRequired', prop='C02', file=H, expect='R1',
         old="      mConstraints.checkRequired();\n", new=""),
    dict(id='c02-drop-global-end', prop='C02', file=H, expect='R1',
         old="      // and check for global constraints not met\n      checkGlobalConstraints();\n", new=""),
    dict(id='c02-subgroup-mandatory', prop='C02', file=H, expect='R1',
         old="      mArguments.checkMandatoryCardinality();\n      mSubGroupArgs.checkMandatoryCardinality();\n\n      // check for missing required",
         new="      mArguments.checkMandatoryCardinality();\n\n      // check for missing required"),
    dict(id='c02-raw-key', prop='C02', file=H, expect='R3',
         old="mConstraints.argumentIdentified( hdl->key());", new="mConstraints.argumentIdentified( mPosKey);"),
    dict(id='c02-assign-before-notify', prop='C02', file=H, expect='R2',
         old="   mConstraints.argumentIdentified( hdl->key());\n   executeGlobalConstraints( hdl->key());\n",
         new="   mConstraints.argumentIdentified( hdl->key());\n   if (mVerbose)\n      executeGlobalConstraints( hdl->key());\n"),
    dict(id='c02-container-check-first-only', prop='C02', file=TA, expect='R4', where='ContainerAdapter',
         old="      auto  list_val( *it);\n\n      check( list_val);\n\n      if (!mFormats.empty())\n      {\n         format( list_val);\n         // we use the position",
         new="      auto  list_val( *it);\n\n      if (it == tok.begin())\n         check( list_val);\n\n      if (!mFormats.empty())\n      {\n         format( list_val);\n         // we use the position"),
    dict(id='c02-optional-check-only-unformatted', prop='C02', file=TA, expect='R4', where='optional',
         old="   void TypedArg< std::optional< T>>::assign( const std::string& value, bool)\n{\n   check( value);\n   if (!mFormats.empty())\n   {",
         new="   void TypedArg< std::optional< T>>::assign( const std::string& value, bool)\n{\n   if (!mFormats.empty())\n   {"),
    dict(id='c02-unknown-value-continue', prop='C02', file=H, expect='R5', where='iterateArguments',
         old="         if (ai->mElementType == detail::ArgListElement::Type::value)\n            throw invalid_argument( \"Unknown argument '\" + ai->mValue + \"'\");\n         if ((ai->mElementType == detail::ArgListElement::Type::singleCharArg)",
         new="         if (ai->mElementType == detail::ArgListElement::Type::value)\n            continue;\n         if ((ai->mElementType == detail::ArgListElement::Type::singleCharArg)"),
    dict(id='c02-missing-value-accepted', prop='C02', file=H, expect='R5', where='processArg',
         old="      if (p_arg_hdl->valueMode() == ValueMode::optional)\n         handleIdentifiedArg( p_arg_hdl, key);\n      else\n         throw argument_error(",
         new="      if (p_arg_hdl->valueMode() != ValueMode::none)\n         handleIdentifiedArg( p_arg_hdl, key);\n      else\n         throw argument_error("),
    dict(id='c02-cardinality-inverted-guard', prop='C02', file='src/library/prog_args/detail/typed_arg_base.cpp', expect='R6',
         old="   if (!ignore_cardinality && mpCardinality)\n      mpCardinality->gotValue();",
         new="   if (!ignore_cardinality && mpCardinality && !inverted)\n      mpCardinality->gotValue();"),
    dict(id='c02-upper-inclusive', prop='C02', file='src/celma/prog_args/detail/check_upper.hpp', expect='R7',
         old="   if (native >= mCheckValue)", new="   if (native > mCheckValue)"),
    dict(id='c02-range-lower-exclusive', prop='C02', file='src/celma/prog_args/detail/check_range.hpp', expect='R7',
         old="   if (native < mLower)", new="   if (native <= mLower)"),
    dict(id='c02-cardinality-off-by-one', prop='C02', file='src/library/prog_args/detail/cardinality_exact.cpp', expect='R7',
         old="   if (++mNumValues > mNumExpectedValues)", new="   if (mNumValues++ > mNumExpectedValues)"),
    # equivalents
    dict(id='c02-eq-helper-end-checks', prop='C02', file=H, expect=None,
         old="      mArguments.checkMandatoryCardinality();\n      mSubGroupArgs.checkMandatoryCardinality();\n\n      // check for missing required",
         new="      checkMissingMandatoryCardinality();\n\n      // check for missing required"),
    dict(id='c02-eq-key-via-local', prop='C02', file=H, expect=None,
         old="   mConstraints.argumentIdentified( hdl->key());\n   executeGlobalConstraints( hdl->key());\n",
         new="   const detail::ArgumentKey&  full_key = hdl->key();\n   mConstraints.argumentIdentified( full_key);\n   executeGlobalConstraints( full_key);\n"),
    dict(id='c02-eq-lower-rewritten', prop='C02', file='src/celma/prog_args/detail/check_lower.hpp', expect=None,
         old="   if (native < mCheckValue)", new="   if (!(native >= mCheckValue))"),
]

CASES += [
    dict(id='c02-ignore-card-bit-test', prop='C02', file='src/library/prog_args/handler.cpp', expect='R11',
         old="         mpLastArg->assignValue( mReadMode != ReadMode::commandLine, ai->mValue,\n            mInverted);",
         new="         mpLastArg->assignValue( (mReadMode & ReadMode::commandLine) == 0,\n            ai->mValue, mInverted);"),
    dict(id='c02-eq-ignore-card-not-eq', prop='C02', file='src/library/prog_args/handler.cpp', expect=None,
         old="         mpLastArg->assignValue( mReadMode != ReadMode::commandLine, ai->mValue,\n            mInverted);",
         new="         mpLastArg->assignValue( !(mReadMode == ReadMode::commandLine), ai->mValue,\n            mInverted);"),
]

CASES += [
    dict(id='c02-optional-takes-glued-rest', prop='C02', file=H, expect='R12',
         old="   if (p_arg_hdl->valueMode() == ValueMode::required)\n      ait2.remArgStrAsVal();", new="   if (p_arg_hdl->valueMode() != ValueMode::none)\n      ait2.remArgStrAsVal();"),
    dict(id='c02-value-not-consumed', prop='C02', file=H, expect='R12',
         old="      handleIdentifiedArg( p_arg_hdl, key, ait2->mValue);\n      ai = ait2;", new="      handleIdentifiedArg( p_arg_hdl, key, ait2->mValue);"),
    dict(id='c02-optional-without-value-throws', prop='C02', file=H, expect='R12',
         old="      if (p_arg_hdl->valueMode() == ValueMode::optional)\n         handleIdentifiedArg( p_arg_hdl, key);\n      else",
         new="      if (p_arg_hdl->valueMode() != ValueMode::optional)\n         handleIdentifiedArg( p_arg_hdl, key);\n      else"),
    dict(id='c02-command-result-consumed', prop='C02', file=H, expect='R12',
         old="      handleIdentifiedArg( p_arg_hdl, key, ai.argsAsString( false));\n      return ArgResult::last;", new="      handleIdentifiedArg( p_arg_hdl, key, ai.argsAsString( false));\n      return ArgResult::consumed;"),
    dict(id='c02-eq-value-mode-local', prop='C02', file=H, expect=None,
         old="   if (p_arg_hdl->valueMode() == ValueMode::required)\n      ait2.remArgStrAsVal();", new="   const bool  needs_value = p_arg_hdl->valueMode() == ValueMode::required;\n   if (needs_value)\n      ait2.remArgStrAsVal();"),
]

TA = 'src/celma/prog_args/detail/typed_arg.hpp'
CASES += [
    dict(id='c02-level-counter-checks-old-level', prop='C02', file=TA, expect='R14',
         old="         const int          new_level = mDestVar.value() + 1;", new="         const int          new_level = mDestVar.value();"),
    dict(id='c02-eq-level-counter-sum-order', prop='C02', file=TA, expect=None,
         old="         const int          new_level = mDestVar.value() + 1;", new="         const int          new_level = 1 + mDestVar.value();"),
]

CC2 = 'src/library/prog_args/detail/constraint_container.cpp'
CASES += [
    dict(id='c02-constraint-stored-as-required', prop='C02', file=CC2, expect='R*',
         old="         mConstraints.addArgument( Data( constraint_type, created_by), search);", new="         mConstraints.addArgument( Data( Constraint::required, created_by), search);"),
    dict(id='c02-identified-kinds-swapped', prop='C02', file=CC2, expect='R*',
         old="      if (it->data().mConstraint == Constraint::required)\n      {\n         it = mConstraints.erase( it);\n      } else if (it->data().mConstraint == Constraint::excluded)",
         new="      if (it->data().mConstraint == Constraint::excluded)\n      {\n         it = mConstraints.erase( it);\n      } else if (it->data().mConstraint == Constraint::required)"),
    dict(id='c02-check-required-tests-excluded', prop='C02', file=CC2, expect='R*',
         old="      if (current_constraint.data().mConstraint == Constraint::required)\n      {\n         \n         throw", new="      if (current_constraint.data().mConstraint == Constraint::excluded)\n      {\n         \n         throw"),
    dict(id='c02-identified-searches-from-begin-once', prop='C02', file=CC2, expect='R*',
         old="   while ((it = std::find( it, mConstraints.cend(), key)) != mConstraints.cend())", new="   if ((it = std::find( it, mConstraints.cend(), key)) != mConstraints.cend())"),
]

CASES += [
    dict(id='c02-constraint-stored-before-validated', prop='C02', file=H, expect='R15',
         old="   ihc->validated();\n\n   mGlobalConstraints.push_back( ihc);", new="   mGlobalConstraints.push_back( ihc);\n\n   if (!ihc->isValueConstraint())\n      ihc->validated();"),
]

HI = 'src/celma/common/has_intersection.hpp'
CASES += [
    dict(id='c02-orig-disjoint-by-merge-walk-of-unsorted-data', prop='C02', file=HI, expect='R17',
         old="   if (std::is_sorted( cont1.cbegin(), cont1.cend())\n       && std::is_sorted( cont2.cbegin(), cont2.cend()))\n      return hasIntersection(",
         new="   if (!cont1.empty())\n      return hasIntersection("),
    dict(id='c02-eq-disjoint-always-by-search', prop='C02', file=HI, expect=None,
         old="   if (std::is_sorted( cont1.cbegin(), cont1.cend())\n       && std::is_sorted( cont2.cbegin(), cont2.cend()))\n      return hasIntersection( cont1.cbegin(), cont1.cend(), cont2.cbegin(),\n         cont2.cend());\n", new=""),
]

CASES += [
    dict(id='c02-end-check-skips-unused', prop='C02', file='src/library/prog_args/detail/argument_container.cpp', expect='R1',
         old="      argi.data()->checkCardinality();\n   } // end for\n\n} // ArgumentContainer::checkMandatoryCardinality",
         new="      if (!argi.data()->hasValue())\n         continue;\n      argi.data()->checkCardinality();\n   } // end for\n\n} // ArgumentContainer::checkMandatoryCardinality"),
    dict(id='c02-eq-end-check-nested-mandatory', prop='C02', file='src/library/prog_args/detail/argument_container.cpp', expect=None,
         old="      if (argi.data()->isMandatory() && !argi.data()->hasValue())\n         throw runtime_error( \"Mandatory argument '\"",
         new="      if (!argi.data()->hasValue())\n       if (argi.data()->isMandatory())\n         throw runtime_error( \"Mandatory argument '\""),
]
