A = 'src/library/appl/arg_string_2_array.cpp'
H = 'src/library/prog_args/handler.cpp'
CASES = [
    dict(id='c07-backslash-in-quote-literal', prop='C07', file=A, expect='R2',
         old="      } else if (next_char == '\\\\')\n      {\n         gotBackslash = true;\n      } else if (inQuote)",
         new="      } else if ((next_char == '\\\\') && !inQuote)\n      {\n         gotBackslash = true;\n      } else if (inQuote)"),
    dict(id='c07-escaped-quote-opens-quote', prop='C07', file=A, expect='R2',
         old="      if (gotBackslash)\n      {\n         currWord.append( 1, next_char);\n         gotBackslash = false;",
         new="      if (gotBackslash && (next_char != '\"'))\n      {\n         currWord.append( 1, next_char);\n         gotBackslash = false;"),
    dict(id='c07-backslash-flag-sticky', prop='C07', file=A, expect='R2',
         old="         currWord.append( 1, next_char);\n         gotBackslash = false;", new="         currWord.append( 1, next_char);"),
    dict(id='c07-empty-word-emitted', prop='C07', file=A, expect='R2',
         old="         if (!currWord.empty())\n         {\n            arguments.push_back( currWord);\n            currWord.clear();\n         } // end if",
         new="         arguments.push_back( currWord);\n         currWord.clear();"),
    dict(id='c07-last-word-lost', prop='C07', file=A, expect='R2',
         old="   if (currWord.length() > 0)\n      arguments.push_back( currWord);\n", new=""),
    dict(id='c07-comment-lines-evaluated', prop='C07', file=H, expect='R1',
         old="      if (line.empty() || (line[ 0] == '#'))\n         continue;   // while", new="      if (line.empty())\n         continue;   // while"),
    dict(id='c07-env-progname-not-null', prop='C07', file=H, expect='R1',
         old="   auto const                          as2a = appl::make_arg_array( arg_env,\n      nullptr);", new="   auto const                          as2a = appl::make_arg_array( arg_env,\n      arg0);"),
    dict(id='c07-file-mode-not-flagged', prop='C07', file=H, expect='R3',
         old="   const common::ScopedFlag< uint8_t>  sf( mReadMode, ReadMode::file);\n", new=""),
    dict(id='c07-eq-switch-scanner', prop='C07', file=A, expect=None,
         old="      } else if (next_char == ' ')\n      {\n         if (!currWord.empty())\n         {\n            arguments.push_back( currWord);\n            currWord.clear();\n         } // end if\n      } else",
         new="      } else if ((next_char == ' ') && currWord.empty())\n      {\n         // skip multiple blanks\n      } else if (next_char == ' ')\n      {\n         arguments.push_back( currWord);\n         currWord.clear();\n      } else"),
]

CASES += [
    dict(id='c07-prevchar-escapes-twice', prop='C07', file=A, expect='R2',
         edits=[(A, "   bool         gotBackslash = false;\n", "   char         prevChar = '-';\n"),
                (A, "      if (gotBackslash)\n      {\n         currWord.append( 1, next_char);\n         gotBackslash = false;\n      } else if (next_char == '\\\\')\n      {\n         gotBackslash = true;\n      } else if (inQuote)",
                    "      if (prevChar == '\\\\')\n      {\n         currWord.append( 1, next_char);\n      } else if (next_char == '\\\\')\n      {\n      } else if (inQuote)"),
                (A, "         currWord.append( 1, next_char);\n      } // end if\n   } // end for\n", "         currWord.append( 1, next_char);\n      } // end if\n      prevChar = next_char;\n   } // end for\n")]),
    dict(id='c07-eq-prevchar-correct', prop='C07', file=A, expect=None,
         edits=[(A, "   bool         gotBackslash = false;\n", "   char         prevChar = '-';\n"),
                (A, "      if (gotBackslash)\n      {\n         currWord.append( 1, next_char);\n         gotBackslash = false;\n      } else if (next_char == '\\\\')\n      {\n         gotBackslash = true;\n      } else if (inQuote)",
                    "      if (prevChar == '\\\\')\n      {\n         currWord.append( 1, next_char);\n         prevChar = '-';\n         continue;\n      } else if (next_char == '\\\\')\n      {\n      } else if (inQuote)"),
                (A, "         currWord.append( 1, next_char);\n      } // end if\n   } // end for\n", "         currWord.append( 1, next_char);\n      } // end if\n      prevChar = next_char;\n   } // end for\n")]),
    dict(id='c07-eq-renamed-flag', prop='C07', file=A, expect=None, count=4,
         old="gotBackslash", new="escapePending"),
]

CASES += [
    dict(id='c07-value-list-closed-per-line', prop='C07', file='src/library/prog_args/handler.cpp', expect='R4',
         old="      iterateArguments( alp);\n   } // end while", new="      iterateArguments( alp);\n      mpLastArg = nullptr;\n   } // end while"),
    dict(id='c07-value-list-closed-after-env', prop='C07', file='src/library/prog_args/handler.cpp', expect='R4',
         old="   iterateArguments( alp);\n\n} // Handler::checkReadEnvVarArgs", new="   iterateArguments( alp);\n   endValueList();\n\n} // Handler::checkReadEnvVarArgs"),
]

CASES += [
    dict(id='c07-orig-last-line-dropped', prop='C07', file='src/library/prog_args/handler.cpp', expect='R5',
         old="   while (std::getline( progArgs, line))", new="   while (!std::getline( progArgs, line).eof())"),
    dict(id='c07-last-line-dropped-good', prop='C07', file='src/library/prog_args/handler.cpp', expect='R5',
         old="   while (std::getline( progArgs, line))", new="   while (std::getline( progArgs, line).good())"),
]

CASES += [
    dict(id='c07-orig-subgroup-read-mode', prop='C07', file='src/library/prog_args/handler.cpp', expect='R6',
         old="      subArgHandler->mReadMode = mReadMode;\n", new=""),
]

CASES += [
    dict(id='c07-ctor-drops-last-word', prop='C07', file=A, expect='R2',
         old="   splitString( arguments, cmdLine);\n", new="   splitString( arguments, cmdLine);\n   if (arguments.size() > 1)\n      arguments.pop_back();\n"),
    dict(id='c07-eq-ctor-size-in-local', prop='C07', file=A, expect=None,
         old="   mpArgV = new char*[ arguments.size() + 1];", new="   auto const  num_words = arguments.size();\n   mpArgV = new char*[ num_words + 1];"),
]
