I = 'src/celma/prog_args/detail/arg_list_iterator.hpp'
CASES = [
    dict(id='c04-cursor-ctor-stale-length', prop='C04', file=I, expect='R6',
         old="      mArgIndex         = 1;\n      mArgCharPos       = 1;\n      mCurrArgStringLen = ::strlen( mpArgV[ mArgIndex]);\n\n      if (mpArgV[ mArgIndex][ 0] == '-')\n      {\n         if (mCurrArgStringLen == 1)\n            throw argument_error( \"single dash in argument list\");\n\n         determineNextArg();",
         new="      mArgIndex         = 1;\n      mArgCharPos       = 1;\n\n      if (mpArgV[ mArgIndex][ 0] == '-')\n      {\n         if (mCurrArgStringLen == 1)\n            throw argument_error( \"single dash in argument list\");\n\n         mCurrArgStringLen = ::strlen( mpArgV[ mArgIndex]);\n         determineNextArg();"),
    dict(id='c04-cursor-step-no-single-dash-check', prop='C04', file=I, expect='R6',
         old="         if (mCurrArgStringLen == 1)\n            throw argument_error( \"single dash in argument list\");\n         mArgCharPos = 1;",
         new="         mArgCharPos = 1;"),
    dict(id='c04-cursor-last-char-test', prop='C04', file=I, expect='R6',
         old="   } else if (mCurrArgStringLen == mArgCharPos + 1)\n   {\n      // one dash -> next is argument character",
         new="   } else if (mCurrArgStringLen == mArgCharPos)\n   {\n      // one dash -> next is argument character"),
    dict(id='c04-cursor-equal-sign-skip', prop='C04', file=I, expect='R6',
         old="         mArgCharPos += equalPos + 2;", new="         mArgCharPos += equalPos + 3;"),
    dict(id='c04-cursor-end-reads-terminator', prop='C04', file=I, expect='R6',
         old="      mArgCharPos = ::strlen( mpArgV[ mArgC - 1]) + 1;", new="      mArgCharPos = ::strlen( mpArgV[ mArgC]) + 1;"),
    dict(id='c04-cursor-end-test', prop='C04', file=I, expect='R6',
         old="   if (mArgIndex >= mArgC)\n   {\n      // reached the end", new="   if (mArgIndex > mArgC)\n   {\n      // reached the end"),
    dict(id='c04-cursor-single-arg-index', prop='C04', file=I, expect='R6',
         old="      && (mpArgV[ mCurrElement.mArgIndex][ 2] == '\\0');", new="      && (mpArgV[ mCurrElement.mArgIndex][ 3] == '\\0');"),
    dict(id='c04-cursor-args-as-string-bound', prop='C04', file=I, expect='R6',
         old="   for (; argi < mArgC; ++argi)", new="   for (; argi <= mArgC; ++argi)"),
    dict(id='c04-cursor-double-dash-no-advance', prop='C04', file=I, expect='R6',
         old="         mAcceptDashedValue = true;\n         ++mArgIndex;\n         mArgCharPos = 0;\n         operator ++();",
         new="         mAcceptDashedValue = true;\n         ++mArgIndex;\n         operator ++();"),
    # memory-safe (the word has at least two more characters there): only the name changes - not a C04 matter
    dict(id='c04-cursor-eq-long-name-offset', prop='C04', file=I, expect=None,
         old="      std::string  argName( &mpArgV[ mArgIndex][ mArgCharPos + 1]);", new="      std::string  argName( &mpArgV[ mArgIndex][ mArgCharPos + 2]);"),
    # equivalents
    dict(id='c04-cursor-eq-end-test-form', prop='C04', file=I, expect=None,
         old="   if (mArgIndex >= mArgC)\n   {\n      // reached the end", new="   if (!(mArgIndex < mArgC))\n   {\n      // reached the end"),
    dict(id='c04-cursor-eq-ctor-order', prop='C04', file=I, expect=None,
         old="      mArgIndex         = 1;\n      mArgCharPos       = 1;\n      mCurrArgStringLen = ::strlen( mpArgV[ mArgIndex]);",
         new="      mArgIndex         = 1;\n      mCurrArgStringLen = ::strlen( mpArgV[ 1]);\n      mArgCharPos       = 1;"),
    dict(id='c04-cursor-eq-last-char-form', prop='C04', file=I, expect=None,
         old="   } else if (mCurrArgStringLen == mArgCharPos + 1)\n   {\n      // one dash -> next is argument character",
         new="   } else if (mpArgV[ mArgIndex][ mArgCharPos + 1] == '\\0')\n   {\n      // one dash -> next is argument character"),
]

CASES += [
    dict(id='c04-cursor-no-progress-in-group', prop='C04', file='src/celma/prog_args/detail/arg_list_iterator.hpp', expect='R*',
         old="                               mpArgV[ mArgIndex][ mArgCharPos]);\n      ++mArgCharPos;\n   } // end if", new="                               mpArgV[ mArgIndex][ mArgCharPos]);\n   } // end if"),
]
