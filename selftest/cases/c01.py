T = 'src/celma/prog_args/detail/typed_arg.hpp'
CASES = [
    dict(id='c01-format-after-convert', prop='C01', file=T, expect='R2', where='optional',
         old="      std::string  valCopy( value);\n      format( valCopy);\n      mDestVar = boost::lexical_cast< T>( valCopy);\n   } else\n   {\n      mDestVar = boost::lexical_cast< T>( value);\n   } // end if\n} // TypedArg< std::optional< T>>::assign",
         new="      std::string  valCopy( value);\n      mDestVar = boost::lexical_cast< T>( valCopy);\n      format( valCopy);\n   } else\n   {\n      mDestVar = boost::lexical_cast< T>( value);\n   } // end if\n} // TypedArg< std::optional< T>>::assign"),
    dict(id='c01-unformatted-value-stored', prop='C01', file=T, expect='R2',
         old="      std::string  valCopy( value);\n      format( valCopy);\n      mDestVar = boost::lexical_cast< T>( valCopy);\n   } else\n   {\n      mDestVar = boost::lexical_cast< T>( value);\n   } // end if\n   mHasValueSet = true;",
         new="      std::string  valCopy( value);\n      format( valCopy);\n      mDestVar = boost::lexical_cast< T>( value);\n   } else\n   {\n      mDestVar = boost::lexical_cast< T>( value);\n   } // end if\n   mHasValueSet = true;"),
    dict(id='c01-ctor-resets-destination', prop='C01', file=T, expect='R1',
         old="template< typename T>\n   TypedArg< T>::TypedArg( T& dest, const std::string& vname):\n      TypedArgBase( vname, ValueMode::required, true),\n      mDestVar( dest)\n{\n",
         new="template< typename T>\n   TypedArg< T>::TypedArg( T& dest, const std::string& vname):\n      TypedArgBase( vname, ValueMode::required, true),\n      mDestVar( dest)\n{\n   mDestVar = T();\n"),
    dict(id='c01-skip-store-when-formatted', prop='C01', file=T, expect='R2',
         old="      std::string  valCopy( value);\n      format( valCopy);\n      mDestVar = boost::lexical_cast< T>( valCopy);\n   } else\n   {\n      mDestVar = boost::lexical_cast< T>( value);\n   } // end if\n   mHasValueSet = true;",
         new="      std::string  valCopy( value);\n      format( valCopy);\n      mDestVar = mDestVar;\n   } else\n   {\n      mDestVar = boost::lexical_cast< T>( value);\n   } // end if\n   mHasValueSet = true;"),
    dict(id='c01-eq-single-convert', prop='C01', file=T, expect=None,
         old="   check( value);\n   if (!mFormats.empty())\n   {\n      std::string  valCopy( value);\n      format( valCopy);\n      mDestVar = boost::lexical_cast< T>( valCopy);\n   } else\n   {\n      mDestVar = boost::lexical_cast< T>( value);\n   } // end if\n   mHasValueSet = true;",
         new="   check( value);\n   std::string  valCopy( value);\n   if (!mFormats.empty())\n      format( valCopy);\n   mDestVar = boost::lexical_cast< T>( valCopy);\n   mHasValueSet = true;"),
]

CASES += [
    dict(id='c01-split-last-equal', prop='C01', file='src/celma/prog_args/detail/arg_list_iterator.hpp', expect='R6',
         old="argName.find_first_of( '=');", new="argName.rfind( '=');"),
    dict(id='c01-eq-split-find', prop='C01', file='src/celma/prog_args/detail/arg_list_iterator.hpp', expect=None,
         old="argName.find_first_of( '=');", new="argName.find( '=');"),
]

I = 'src/celma/prog_args/detail/arg_list_iterator.hpp'
CASES += [
    dict(id='c01-value-includes-equal', prop='C01', file=I, expect='R7',
         old="         mArgCharPos += equalPos + 2;", new="         mArgCharPos += equalPos + 1;"),
    dict(id='c01-value-drops-first-char', prop='C01', file=I, expect='R7',
         old="         mArgCharPos += equalPos + 2;", new="         mArgCharPos += equalPos + 3;"),
    dict(id='c01-key-includes-equal', prop='C01', file=I, expect='R7',
         old="         argName.erase( equalPos);", new="         argName.erase( equalPos + 1);"),
    dict(id='c01-eq-split-assign-form', prop='C01', file=I, expect=None,
         old="         mArgCharPos += equalPos + 2;", new="         mArgCharPos = mArgCharPos + 2 + equalPos;"),
    dict(id='c01-eq-key-substr', prop='C01', file=I, expect=None,
         old="         argName.erase( equalPos);\n         mCurrElement.setArgString( mArgIndex, argName);", new="         mCurrElement.setArgString( mArgIndex, argName.substr( 0, equalPos));"),
]

CASES += [
    dict(id='c01-requested-value-swallows-word', prop='C01', file=I, expect='R9',
         old="              || (mRemainingArgumentStringAsValue && (mArgCharPos > 0)))", new="              || mRemainingArgumentStringAsValue)"),
    dict(id='c01-eq-value-decision-reordered', prop='C01', file=I, expect=None,
         old="   } else if (mNextIsValue\n              || (mRemainingArgumentStringAsValue && (mArgCharPos > 0)))", new="   } else if ((mRemainingArgumentStringAsValue && (mArgCharPos != 0))\n              || mNextIsValue)"),
]

ALI9 = 'src/celma/prog_args/detail/arg_list_iterator.hpp'
CASES += [
    dict(id='c01-control-word-any-length', prop='C01', file=ALI9, expect='R11',
         old="         if ((mCurrArgStringLen == 1) && isCtrlChar( mpArgV[ mArgIndex][ 0]))", new="         if ((mCurrArgStringLen >= 1) && isCtrlChar( mpArgV[ mArgIndex][ 0]))"),
    dict(id='c01-eq-control-word-test-reordered', prop='C01', file=ALI9, expect=None,
         old="         if ((mCurrArgStringLen == 1) && isCtrlChar( mpArgV[ mArgIndex][ 0]))", new="         if (isCtrlChar( mpArgV[ mArgIndex][ 0]) && (mCurrArgStringLen == 1))"),
    dict(id='c01-control-chars-include-dash', prop='C01', file=ALI9, expect='R11',
         old="   return (argChar == '(') || (argChar == ')') || (argChar == '!');", new="   return (argChar == '(') || (argChar == ')') || (argChar == '!') || (argChar == '-');"),
]
