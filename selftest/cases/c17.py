T = 'src/library/format/text_block.cpp'
CASES = [
    dict(id='c17-wrap-drops-word', prop='C17', file=T, expect='R1',
         old="         if (lineStartsWithDash)\n            os << \"  \";\n         os << tiWord;\n", new="         if (lineStartsWithDash)\n            os << \"  \";\n         else\n            os << tiWord;\n"),
    dict(id='c17-nn-written', prop='C17', file=T, expect='R1',
         old="            os << \" \";\n            ++currLength;\n         } // end if\n      } else if (currLength", new="            os << \" \" << tiWord;\n            ++currLength;\n         } // end if\n      } else if (currLength"),
    dict(id='c17-word-twice', prop='C17', file=T, expect='R1',
         old="            lineStartsWithDash = true;\n         } // end if", new="            lineStartsWithDash = true;\n            os << tiWord;\n         } // end if"),
    dict(id='c17-break-without-indent', prop='C17', file=T, expect='R2',
         old="         os << std::endl << mIndentSpaces;\n         if (lineStartsWithDash)\n            os << \"  \";", new="         os << std::endl;\n         if (lineStartsWithDash)\n            os << \"  \";"),
    dict(id='c17-first-always-indented', prop='C17', file=T, expect='R2',
         old="         if (mIndentFirst)\n            os << mIndentSpaces;", new="         os << mIndentSpaces;"),
    dict(id='c17-stop-at-long-word', prop='C17', file=T, expect='R1',
         old="         os << tiWord;\n         currLength = mIndentSpaces.length() + tiWord.length();", new="         os << tiWord;\n         if (tiWord.length() > mLength)\n            break;\n         currLength = mIndentSpaces.length() + tiWord.length();"),
    dict(id='c17-eq-reordered-branches', prop='C17', file=T, expect=None,
         old="         os << tiWord;\n         currLength += tiWord.length();\n      } // end if", new="         currLength += tiWord.length();\n         os << tiWord;\n      } // end if"),
]

TBH = 'src/celma/format/text_block.hpp'
CASES += [
    dict(id='c17-indent-fill-dot', prop='C17', file=T, expect='R2',
         old="   mIndentSpaces( mIndent, ' ')", new="   mIndentSpaces( mIndent, '.')"),
    dict(id='c17-eq-indent-helper', prop='C17', expect=None,
         edits=[(TBH, "   void formatLine( std::ostream& os, const std::string& line);",
                 "   void formatLine( std::ostream& os, const std::string& line);\n   void writeIndent( std::ostream& os) const { os << mIndentSpaces; }"),
                (T, "         os << std::endl << mIndentSpaces;\n      } // end if\n\n      formatLine( os, tiNL);",
                 "         os << std::endl;\n         writeIndent( os);\n      } // end if\n\n      formatLine( os, tiNL);")]),
    dict(id='c17-helper-forgets-indent-on-a-path', prop='C17', expect='R2',
         edits=[(TBH, "   void formatLine( std::ostream& os, const std::string& line);",
                 "   void formatLine( std::ostream& os, const std::string& line);\n   void writeIndent( std::ostream& os) const { if (mIndent > 1) os << mIndentSpaces; }"),
                (T, "         os << std::endl << mIndentSpaces;\n      } // end if\n\n      formatLine( os, tiNL);",
                 "         os << std::endl;\n         writeIndent( os);\n      } // end if\n\n      formatLine( os, tiNL);")]),
]

CASES += [
    dict(id='c17-nn-test-by-rfind-prefix', prop='C17', file=T, expect='R1',
         old="      if (tiWord == \"nn\")", new="      if (tiWord.rfind( \"nn\", 0) == 0)"),
    dict(id='c17-eq-nn-test-by-compare', prop='C17', file=T, expect=None,
         old="      if (tiWord == \"nn\")", new="      if (tiWord.compare( \"nn\") == 0)"),
]
