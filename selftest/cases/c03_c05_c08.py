AC = 'src/library/prog_args/detail/argument_container.cpp'
H = 'src/library/prog_args/handler.cpp'
ST = 'src/celma/prog_args/detail/storage.hpp'
AK = 'src/library/prog_args/detail/argument_key.cpp'
G = 'src/library/prog_args/groups.cpp'
ORIG_FINDARG_OLD = """         if (part_match == nullptr)
            part_match = argi.data().get();
         else
            ambiguous = true;"""
ORIG_FINDARG_NEW = """         if (part_match == nullptr)
            part_match = argi.data().get();
         else
            throw runtime_error( "Long argument abbreviation '"
                                 + format::toString( key)
                                 + "' matches more than one argument");"""
TWO_LOOPS_OLD = """   for (auto const& argi : mArguments)
   {
      // an exact match always wins, independent of the order in which the
      // arguments were defined
      if (argi == key)
         return argi.data().get();

      if (mAbbrAllowed && argi.key().startsWith( key))"""
TWO_LOOPS_NEW = """   for (auto const& argi : mArguments)
   {
      if (argi == key)
         return argi.data().get();
   }

   for (auto const& argi : mArguments)
   {
      if (mAbbrAllowed && argi.key().startsWith( key))"""
CASES = [
    dict(id='c03-findarg-original-defect', prop='C03', file=AC, expect='R1', old=ORIG_FINDARG_OLD, new=ORIG_FINDARG_NEW),
    dict(id='c05-findarg-original-defect', prop='C05', file=AC, expect='R2', old=ORIG_FINDARG_OLD, new=ORIG_FINDARG_NEW),
    dict(id='c05-eq-two-loops', prop='C05', file=AC, expect=None, old=TWO_LOOPS_OLD, new=TWO_LOOPS_NEW),
    dict(id='c03-eq-two-loops', prop='C03', file=AC, expect=None, old=TWO_LOOPS_OLD, new=TWO_LOOPS_NEW),
    dict(id='c05-abbr-always', prop='C05', file=AC, expect='R2',
         old="      if (mAbbrAllowed && argi.key().startsWith( key))", new="      if (argi.key().startsWith( key))"),
    dict(id='c05-ambiguity-first-wins', prop='C05', file=AC, expect='R2',
         old="         else\n            ambiguous = true;", new=""),
    dict(id='c05-drop-mismatch', prop='C05', file=ST, expect='R1',
         old="""         if (entry.mismatch( key))
            throw E( "argument with key '" + format::toString( key)
                     + "' conflicts with stored entry '"
                     + format::toString( entry.key()));
""", new=""),
    dict(id='c05-dup-check-last-only', prop='C05', file=ST, expect='R1',
         old="      for (const auto& entry : mArgs)\n      {\n         if (entry == key)",
         new="      for (const auto& entry : mArgs)\n      {\n         if (&entry != &mArgs.back())\n            continue;\n         if (entry == key)"),
    dict(id='c05-eq-key-word-first', prop='C05', file=AK, expect=None,   # refusal (== or mismatch) and single-form lookups unchanged
         old="   if ((mChar != '\\0') && (other.mChar != '\\0'))\n      return mChar == other.mChar;\n\n   if (!mWord.empty() && !other.mWord.empty())\n      return mWord == other.mWord;",
         new="   if (!mWord.empty() && !other.mWord.empty())\n      return mWord == other.mWord;\n\n   if ((mChar != '\\0') && (other.mChar != '\\0'))\n      return mChar == other.mChar;"),
    dict(id='c05-mismatch-and', prop='C05', file=AK, expect='R3',
         old="      return (mChar == other.mChar) != (mWord == other.mWord);",
         new="      return (mChar == other.mChar) && (mWord != other.mWord);"),
    dict(id='c03-file-counts-cardinality', prop='C03', file=H, expect='R3',
         old="   hdl->assignValue( mReadMode != 0, value, mInverted);",
         new="   hdl->assignValue( mReadMode == ReadMode::envVar, value, mInverted);"),
    dict(id='c03-envvar-flag-scope', prop='C03', file=H, expect='R3',
         old="   const common::ScopedFlag< uint8_t>  sf( mReadMode, ReadMode::envVar);\n   auto const                          as2a",
         new="   { const common::ScopedFlag< uint8_t>  sf( mReadMode, ReadMode::envVar); }\n   auto const                          as2a"),
    dict(id='c03-lower-exclusive', prop='C03', file='src/celma/prog_args/detail/check_lower.hpp', expect='R2',
         old="   if (native < mCheckValue)", new="   if (native <= mCheckValue)"),
    dict(id='c08-orig-no-constraint-checks', prop='C08', file=G, expect='R1',
         old="         stored_group.mpArgHandler->mConstraints.checkRequired();\n         stored_group.mpArgHandler->checkGlobalConstraints();\n", new=""),
    dict(id='c08-subgroup-no-crosscheck', prop='C08', file=H, expect='R3',
         old="   // the key of a sub-group argument must not collide with an argument of\n   // another handler of the same argument group either\n   if (mUsedByGroup)\n      Groups::instance().crossCheckArguments( this);\n", new=""),
    dict(id='c08-first-member-only', prop='C08', file=G, expect='R2',
         old="         if (result != Handler::ArgResult::unknown)\n         {\n            usage_printed |= stored_group.mpArgHandler->usagePrinted();\n            break;   // for\n         } // end if",
         new="         usage_printed |= stored_group.mpArgHandler->usagePrinted();\n         break;   // for"),
    dict(id='c08-checkmix-skip-subargs', prop='C08', file=H, expect='R3',
         old="   mSubGroupArgs.checkArgMix( ownName, otherName, otherAH.mArguments);\n", new=""),
    dict(id='c08-eq-handler-method', prop='C08', expect=None, edits=[
        (G, "         stored_group.mpArgHandler->checkMissingMandatoryCardinality();\n         // same final checks as in Handler::evalArguments(): arguments\n         // required through constraints, and the handler's global constraints\n         stored_group.mpArgHandler->mConstraints.checkRequired();\n         stored_group.mpArgHandler->checkGlobalConstraints();\n",
            "         stored_group.mpArgHandler->checkMissingMandatoryCardinality();\n"),
        (H, "   mArguments.checkMandatoryCardinality();\n   mSubGroupArgs.checkMandatoryCardinality();\n\n} // Handler::checkMissingMandatoryCardinality",
            "   mArguments.checkMandatoryCardinality();\n   mSubGroupArgs.checkMandatoryCardinality();\n   const_cast< Handler*>( this)->mConstraints.checkRequired();\n   checkGlobalConstraints();\n\n} // Handler::checkMissingMandatoryCardinality"),
    ]),
]

K = 'src/library/prog_args/detail/argument_key.cpp'
_SW = "          && (mWord.compare( 0, other.mWord.length(), other.mWord) == 0);"
CASES += [
    dict(id='c05-startswith-rfind-no-pos', prop='C05', file=K, expect='R4', old=_SW, new="          && (mWord.rfind( other.mWord) == 0);"),
    dict(id='c05-startswith-equal', prop='C05', file=K, expect='R4', old=_SW, new="          && (mWord.compare( 0, mWord.length(), other.mWord) == 0);"),
    dict(id='c05-startswith-reversed', prop='C05', file=K, expect='R4', old=_SW, new="          && (other.mWord.compare( 0, mWord.length(), mWord) == 0);"),
    dict(id='c05-startswith-shorter', prop='C05', file=K, expect='R4', old=_SW,
         new="          && (mWord.compare( 0, std::min( mWord.length(), other.mWord.length()), other.mWord, 0, std::min( mWord.length(), other.mWord.length())) == 0);"),
    dict(id='c05-startswith-from-one', prop='C05', file=K, expect='R4', old=_SW, new="          && (mWord.compare( 1, other.mWord.length(), other.mWord) == 0);"),
    dict(id='c05-eq-startswith-rfind0', prop='C05', file=K, expect=None, old=_SW, new="          && (mWord.rfind( other.mWord, 0) == 0);"),
    dict(id='c05-eq-startswith-find', prop='C05', file=K, expect=None, old=_SW, new="          && (mWord.find( other.mWord) == 0);"),
]

HC = 'src/library/prog_args/handler.cpp'
CASES += [
    dict(id='c05-keyspace-subgroup-add', prop='C05', file=HC, expect='R5',
         old="   // normal and sub-group arguments of a handler share one key space\n   mArguments.checkArgMix( \"arguments\", \"sub-group arguments\", mSubGroupArgs);\n", new=""),
    dict(id='c05-keyspace-normal-add', prop='C05', file=HC, expect='R5',
         old="   // normal and sub-group arguments of a handler share one key space\n   mSubGroupArgs.checkArgMix( \"sub-group arguments\", \"arguments\", mArguments);\n", new=""),
    dict(id='c05-keyspace-lookup-no-exact-test', prop='C05', file=HC, expect='R5',
         old="   if ((p_arg_hdl != nullptr) && !(p_arg_hdl->key() == key))\n   {", new="   if (false)\n   {"),
    dict(id='c05-keyspace-lookup-no-other-container', prop='C05', file=HC, expect='R5',
         old="      if (auto const other = mArguments.findArg( key))\n      {\n         if (!(other->key() == key))",
         new="      if (auto const other = p_arg_hdl)\n      {\n         if (!(other->key() == key))"),
    dict(id='c05-eq-keyspace-check-before-desc', prop='C05', file=HC, expect=None,
         old="   mSubGroupArgs.addArgument( arg_hdl, key);\n   mDescription.addArgument( desc, arg_hdl);\n\n   // normal and sub-group arguments of a handler share one key space\n   mArguments.checkArgMix( \"arguments\", \"sub-group arguments\", mSubGroupArgs);\n",
         new="   mSubGroupArgs.addArgument( arg_hdl, key);\n   mArguments.checkArgMix( \"arguments\", \"sub-group arguments\", mSubGroupArgs);\n   mDescription.addArgument( desc, arg_hdl);\n"),
]

GC = 'src/library/prog_args/groups.cpp'
CASES += [
    dict(id='c08-flag-mask-clears-membership', prop='C08', file=GC, expect='R4',
         old="      mHandlerFlags -= Handler::hfListArgGroups;", new="      mHandlerFlags &= Groups2HandlerFlags & ~Handler::hfListArgGroups;"),
    dict(id='c08-flag-ctor-no-membership', prop='C08', file=GC, expect='R4',
         old="   mHandlerFlags( (flag_set & Groups2HandlerFlags) | Handler::hfInGroup),", new="   mHandlerFlags( flag_set & Groups2HandlerFlags),"),
    dict(id='c08-flag-not-passed', prop='C08', file=GC, expect='R4',
         old="                                            mHandlerFlags | this_handler_flags,", new="                                            this_handler_flags,"),
    dict(id='c08-eq-flag-and-not', prop='C08', file=GC, expect=None,
         old="      mHandlerFlags -= Handler::hfListArgGroups;", new="      mHandlerFlags &= ~Handler::hfListArgGroups;"),
]

TA = 'src/celma/prog_args/detail/typed_arg.hpp'
TB = 'src/library/prog_args/detail/typed_arg_base.cpp'
CASES += [
    dict(id='c03-list-count-unguarded', prop='C03', file=TA, expect='R5',
         old="      if ((it.currentNum() > 0) && !mIgnoreCardinality\n          && (mpCardinality.get() != nullptr))", new="      if ((it.currentNum() > 0)\n          && (mpCardinality.get() != nullptr))"),
    dict(id='c03-list-count-inverted', prop='C03', file=TA, expect='R5', count=3,
         old="if (mpCardinality && !mIgnoreCardinality && (it != tok.begin()))", new="if (mpCardinality && mIgnoreCardinality && (it != tok.begin()))"),
    dict(id='c03-carrier-not-set', prop='C03', file=TB, expect='R5',
         old="   mIgnoreCardinality = ignore_cardinality;\n", new=""),
    dict(id='c03-eq-carrier-if-form', prop='C03', file=TA, expect=None,
         old="      if ((it.currentNum() > 0) && !mIgnoreCardinality\n          && (mpCardinality.get() != nullptr))\n         mpCardinality->gotValue();",
         new="      if (!mIgnoreCardinality)\n      {\n         if ((it.currentNum() > 0) && (mpCardinality.get() != nullptr))\n            mpCardinality->gotValue();\n      } // end if"),
]

VD = 'src/celma/prog_args/detail/value_constraint_differ.hpp'
CASES += [
    dict(id='c02-differ-scan-returns', prop='C02', file=VD, expect='R10',
         old="      if (!arg1->hasValue())\n         continue;", new="      if (!arg1->hasValue())\n         return;"),
    dict(id='c02-differ-inner-break', prop='C02', file=VD, expect='R10',
         old="      for (auto const& arg2 : mArgHandlers)\n      {\n         if ((arg1 != arg2) && arg2->hasValue()",
         new="      for (auto const& arg2 : mArgHandlers)\n      {\n         if (!arg2->hasValue())\n            break;\n         if ((arg1 != arg2) && arg2->hasValue()"),
    dict(id='c06-clear-flag-only-when-filled', prop='C06', file=TA, expect='R5', count=2,
         old="   if (mClearB4Assign)\n   {\n      mDestVar.clear();\n      // clear only once\n      mClearB4Assign = false;\n   } // end if\n\n   common::Tokenizer  tok( value, mListSep);\n   for (auto it = tok.begin(); it != tok.end(); ++it)\n   {\n      if ((it != tok.begin()) && !mIgnoreCardinality\n          && (mpCardinality.get() != nullptr))\n         mpCardinality->gotValue();\n\n      auto  list_val( *it);",
         new="   if (mClearB4Assign && !mDestVar.empty())\n   {\n      mDestVar.clear();\n      // clear only once\n      mClearB4Assign = false;\n   } // end if\n\n   common::Tokenizer  tok( value, mListSep);\n   for (auto it = tok.begin(); it != tok.end(); ++it)\n   {\n      if ((it != tok.begin()) && !mIgnoreCardinality\n          && (mpCardinality.get() != nullptr))\n         mpCardinality->gotValue();\n\n      auto  list_val( *it);"),
    dict(id='c04-tuple-null-cardinality', prop='C04', file=TA, expect='R7',
         old="      if ((it.currentNum() > 0) && !mIgnoreCardinality\n          && (mpCardinality.get() != nullptr))", new="      if ((it.currentNum() > 0) && !mIgnoreCardinality)"),
    dict(id='c04-eq-null-test-first', prop='C04', file=TA, expect=None,
         old="      if ((it.currentNum() > 0) && !mIgnoreCardinality\n          && (mpCardinality.get() != nullptr))", new="      if (mpCardinality && (it.currentNum() > 0) && !mIgnoreCardinality)"),
]

CASES += [
    dict(id='c05-keyparse-independent-dashes', prop='C05', file=K, expect='R6',
         old="      const int  ignore_leading_dashes = (arg_spec[ 0] != StartChar) ? 0\n         : 1 + static_cast< int>( arg_spec[ 1] == StartChar);",
         new="      const int  ignore_leading_dashes =\n         static_cast< int>( arg_spec[ 0] == StartChar)\n         + static_cast< int>( arg_spec[ 1] == StartChar);"),
    dict(id='c05-keyparse-one-dash-only', prop='C05', file=K, expect='R6',
         old="      const int  ignore_leading_dashes = (arg_spec[ 0] != StartChar) ? 0\n         : 1 + static_cast< int>( arg_spec[ 1] == StartChar);",
         new="      const int  ignore_leading_dashes = (arg_spec[ 0] != StartChar) ? 0 : 1;"),
    dict(id='c05-eq-keyparse-if-form', prop='C05', file=K, expect=None,
         old="      const int  ignore_leading_dashes = (arg_spec[ 0] != StartChar) ? 0\n         : 1 + static_cast< int>( arg_spec[ 1] == StartChar);",
         new="      int  ignore_leading_dashes = 0;\n      if (arg_spec[ 0] == StartChar)\n      {\n         ignore_leading_dashes = 1;\n         if (arg_spec[ 1] == StartChar)\n            ignore_leading_dashes = 2;\n      } // end if"),
]

CASES += [
    dict(id='c05-orig-subgroup-ambiguity-preempts-exact', prop='C05', file=H, expect='R5',
         old="   auto  p_arg_hdl = (mArguments.findExactArg( key) != nullptr) ? nullptr\n      : mSubGroupArgs.findArg( key);",
         new="   auto  p_arg_hdl = mSubGroupArgs.findArg( key);"),
    dict(id='c05-eq-exact-first-if-form', prop='C05', file=H, expect=None,
         old="   auto  p_arg_hdl = (mArguments.findExactArg( key) != nullptr) ? nullptr\n      : mSubGroupArgs.findArg( key);",
         new="   detail::TypedArgBase*  p_arg_hdl = nullptr;\n   if (mArguments.findExactArg( key) == nullptr)\n      p_arg_hdl = mSubGroupArgs.findArg( key);"),
    dict(id='c05-cross-abbreviation-not-ambiguous', prop='C05', file=H, expect='R5',
         old="         if (!(other->key() == key))\n            throw runtime_error( \"Long argument abbreviation '\"\n                                 + format::toString( key)\n                                 + \"' matches more than one argument\");\n         p_arg_hdl = nullptr;",
         new="         p_arg_hdl = nullptr;"),
]

G = 'src/library/prog_args/groups.cpp'
CASES += [
    dict(id='c08-orig-creation-order-dispatch', prop='C08', file=G, expect='R5',
         old="         if ((key_owner != nullptr)\n             && (stored_group.mpArgHandler.get() != key_owner))\n            continue;   // for\n", new=""),
    dict(id='c08-orig-value-offered-in-definition-order', prop='C08', file=G, expect='R5',
         old="         if ((list_owner != nullptr)\n             && (stored_group.mpArgHandler.get() != list_owner))\n            continue;   // for\n", new=""),
    dict(id='c08-orig-value-lists-stay-open', prop='C08', file=G, expect='R5',
         old="            stored_group.mpArgHandler->endValueList();\n         } // end for\n      }\n      ArgHandlerCont&  mGroups;", new="         } // end for\n      }\n      ArgHandlerCont&  mGroups;"),
    dict(id='c08-eq-value-lists-also-closed-by-loop-at-end', prop='C08', file=G, expect=None,
         old="   if (!mContinueAfterUsage || !usage_printed)\n   {\n      for (auto const& stored_group : mArgGroups)\n      {\n         stored_group.mpArgHandler->checkMissingMandatoryCardinality();",
         new="   for (auto & stored_group : mArgGroups)\n   {\n      stored_group.mpArgHandler->endValueList();\n   } // end for\n\n   if (!mContinueAfterUsage || !usage_printed)\n   {\n      for (auto const& stored_group : mArgGroups)\n      {\n         stored_group.mpArgHandler->checkMissingMandatoryCardinality();"),
    dict(id='c08-owner-first-abbreviation', prop='C08', file=G, expect='R5',
         old="         if (abbr_owner != nullptr)\n            throw runtime_error( \"Long argument abbreviation '--\" + arg_string\n                                 + \"' matches more than one argument\");\n         abbr_owner = handler;",
         new="         if (abbr_owner == nullptr)\n            abbr_owner = handler;"),
    dict(id='c08-owner-exact-not-first', prop='C08', file=G, expect='R5',
         old="      if ((handler->mArguments.findExactArg( key) != nullptr)\n          || (handler->mSubGroupArgs.findExactArg( key) != nullptr))\n         return handler;",
         new="      if ((handler->mArguments.findArg( key) != nullptr)\n          || (handler->mSubGroupArgs.findExactArg( key) != nullptr))\n         return handler;"),
    dict(id='c08-eq-owner-skip-positive-form', prop='C08', file=G, expect=None,
         old="         if ((key_owner != nullptr)\n             && (stored_group.mpArgHandler.get() != key_owner))\n            continue;   // for\n",
         new="         if (!((key_owner == nullptr)\n               || (stored_group.mpArgHandler.get() == key_owner)))\n            continue;   // for\n"),
]

CASES += [
    dict(id='c08-crosscheck-stops-at-self', prop='C08', file=G, expect='R3',
         old="      if (stored_group.mpArgHandler.get() == mod_handler)\n         continue; // for", new="      if (stored_group.mpArgHandler.get() == mod_handler)\n         break;   // for"),
]

CASES += [
    dict(id='c05-subgroup-container-args-swapped', prop='C05', file=H, expect='R2',
         old="   mSubGroupArgs( (flag_set & hfNoAbbr) == 0, true),", new="   mSubGroupArgs( true, (flag_set & hfNoAbbr) == 0),"),
]

CASES += [
    dict(id='c08-orig-key-leaves-lists-open', prop='C08', file=G, expect='R5',
         old="         for (auto & stored_group : mArgGroups)\n         {\n            stored_group.mpArgHandler->endValueList();\n         } // end for", new=""),
    dict(id='c08-orig-last-does-not-stop', prop='C08', file=G, expect='R5',
         old="      if (result == Handler::ArgResult::last)\n         break;   // for\n   } // end for", new="   } // end for"),
    dict(id='c08-eq-end-lists-index-loop', prop='C08', file=G, expect=None,
         old="         for (auto & stored_group : mArgGroups)\n         {\n            stored_group.mpArgHandler->endValueList();\n         } // end for",
         new="         for (auto & member : mArgGroups)\n            member.mpArgHandler->endValueList();"),
]

KV = 'src/celma/prog_args/detail/key_value_container_adapter.hpp'
CASES += [
    dict(id='c05-two-part-spec-long-from-one-char-part', prop='C05', file=AK, expect='R7',
         old="         mChar = sub_end[ 0];\n         mWord = sub_begin;", new="         mChar = sub_end[ 0];\n         mWord = sub_end;"),
    dict(id='c05-eq-two-part-spec-branches-swapped', prop='C05', file=AK, expect=None,
         old="      if (sub_begin.length() == 1)\n      {\n         mChar = sub_begin[ 0];\n         mWord = sub_end;\n      } else if (sub_end.length() == 1)\n      {\n         mChar = sub_end[ 0];\n         mWord = sub_begin;\n      } else",
         new="      if (sub_end.length() == 1)\n      {\n         mChar = sub_end[ 0];\n         mWord = sub_begin;\n      } else if (sub_begin.length() == 1)\n      {\n         mChar = sub_begin[ 0];\n         mWord = sub_end;\n      } else"),
    dict(id='c08-argmix-equal-compares-with-itself', prop='C08', file=AC, expect='R3',
         old="         if (argi.key() == other_argi.key())", new="         if (other_argi.key() == other_argi.key())"),
    dict(id='c08-eq-argmix-operands-swapped', prop='C08', file=AC, expect=None,
         old="         if (argi.key() == other_argi.key())", new="         if (other_argi.key() == argi.key())"),
]

CASES += [
    dict(id='c05-storage-mismatch-of-key-with-itself', prop='C05', file=ST, expect='R*',
         old="         if (entry.mismatch( key))", new="         if (key.mismatch( key))"),
    dict(id='c05-storage-equal-of-entry-with-itself', prop='C05', file=ST, expect='R*',
         old="         if (entry == key)\n            throw E( \"argument with key '\" + format::toString( key)\n                     + \"' stored already\");",
         new="         if (entry == entry.key())\n            throw E( \"argument with key '\" + format::toString( key)\n                     + \"' stored already\");"),
    dict(id='c05-data-mismatch-compares-own-key', prop='C05', file=ST, expect='R*',
         old="      return mKey.mismatch( other);", new="      return mKey.mismatch( mKey);"),
]

CASES += [
    dict(id='c05-findarg-exact-compares-entry-with-itself', prop='C05', file=AC, expect='R*',
         old="      if (argi == key)\n         return argi.data().get();\n\n      if (mAbbrAllowed", new="      if (argi == argi.key())\n         return argi.data().get();\n\n      if (mAbbrAllowed"),
    dict(id='c05-findarg-prefix-of-itself', prop='C05', file=AC, expect='R*',
         old="      if (mAbbrAllowed && argi.key().startsWith( key))", new="      if (mAbbrAllowed && argi.key().startsWith( argi.key()))"),
    dict(id='c05-findarg-prefix-reversed', prop='C05', file=AC, expect='R*',
         old="      if (mAbbrAllowed && argi.key().startsWith( key))", new="      if (mAbbrAllowed && key.startsWith( argi.key()))"),
    dict(id='c05-findexact-compares-entry-with-itself', prop='C05', file=AC, expect='R*',
         old="      if (argi == key)\n         return argi.data().get();\n   } // end for\n\n   return nullptr;", new="      if (argi == argi.key())\n         return argi.data().get();\n   } // end for\n\n   return nullptr;"),
    dict(id='c05-findarg-returns-other-entry', prop='C05', file=AC, expect='R*',
         old="      if (argi == key)\n         return argi.data().get();\n\n      if (mAbbrAllowed", new="      if (argi == key)\n         return mArguments.begin()->data().get();\n\n      if (mAbbrAllowed"),
]

CASES += [
    dict(id='c03-list-arg-vars-at-most-once', prop='C03', file=H, expect='R10',
         old="   arg_hdl->setCardinality();\n\n   return internAddArgument( arg_hdl, key, desc);\n} // Handler::addArgumentListArgVars",
         new="   return internAddArgument( arg_hdl, key, desc);\n} // Handler::addArgumentListArgVars"),
]

CASES += [
    dict(id='c08-crosscheck-own-containers-only', prop='C08', file=H, expect='R*',
         old="   mArguments.checkArgMix(    ownName, otherName, otherAH.mSubGroupArgs);", new="   mArguments.checkArgMix(    ownName, otherName, mSubGroupArgs);"),
    dict(id='c08-crosscheck-skips-all-but-self', prop='C08', file=G, expect='R*',
         old="      // don't have the handler compare against itself\n      if (stored_group.mpArgHandler.get() == mod_handler)\n         continue; // for",
         new="      // don't have the handler compare against itself\n      if (stored_group.mpArgHandler.get() != mod_handler)\n         continue; // for"),
    dict(id='c08-crosscheck-passes-itself', prop='C08', file=G, expect='R*',
         old="      mod_handler->crossCheckArguments( own_name, stored_group.mName,\n                                        *stored_group.mpArgHandler);",
         new="      mod_handler->crossCheckArguments( own_name, stored_group.mName,\n                                        *mod_handler);"),
    dict(id='c08-keyowner-asks-first-handler-only', prop='C08', file=G, expect='R*',
         old="      auto const  handler = stored_group.mpArgHandler.get();\n\n      if ((handler->mArguments.findExactArg( key) != nullptr)",
         new="      auto const  handler = mArgGroups.front().mpArgHandler.get();\n\n      if ((handler->mArguments.findExactArg( key) != nullptr)"),
]

CASES += [
    dict(id='c03-orig-subgroup-cursor-advanced-early', prop='C03', file=H, expect='R12',
         old="      auto  subAI( ai);\n      ++subAI;\n", new="      ++ai;\n      auto  subAI( ai);\n"),
    dict(id='c03-eq-subgroup-cursor-next-form', prop='C03', file=H, expect=None,
         old="      auto  subAI( ai);\n      ++subAI;\n", new="      auto  subAI( ai);\n      subAI++;\n"),
]

HC = 'src/library/prog_args/handler.cpp'
CASES += [
    dict(id='c08-value-list-open-by-value-mode', prop='C08', file=HC, expect='R6',
         old="   return (mpLastArg != nullptr) && mpLastArg->takesMultiValue();", new="   return (mpLastArg != nullptr) && (mpLastArg->valueMode() != ValueMode::none);"),
    dict(id='c08-eq-value-list-open-local', prop='C08', file=HC, expect=None,
         old="   return (mpLastArg != nullptr) && mpLastArg->takesMultiValue();", new="   const bool  open = (mpLastArg != nullptr) && mpLastArg->takesMultiValue();\n   return open;"),
    dict(id='c05-eq-subgroup-key-by-ctor-only', prop='C05', file=HC, expect=None,
         old="   arg_hdl->setKey( key);\n", new=""),
    dict(id='c05-eq-subgroup-key-by-handler-only', prop='C05', file='src/library/prog_args/detail/typed_arg_sub_group.cpp', expect=None,
         old="   setKey( key);\n", new=""),
    dict(id='c05-subgroup-key-never-set', prop='C05', expect='R8',
         edits=[(HC, "   arg_hdl->setKey( key);\n", ""),
                ('src/library/prog_args/detail/typed_arg_sub_group.cpp', "   setKey( key);\n", "")]),
    dict(id='c03-continuation-through-funnel', prop='C03', file=HC, expect='R15',
         old="         mpLastArg->assignValue( mReadMode != ReadMode::commandLine, ai->mValue,\n            mInverted);", new="         handleIdentifiedArg( mpLastArg, mpLastArg->key(), ai->mValue);"),
]

CASES += [
    dict(id='c08-cross-check-guarded-by-other-flag', prop='C08', file=HC, expect='R3',
         old="   // another handler of the same argument group either\n   if (mUsedByGroup)", new="   // another handler of the same argument group either\n   if (subGroup.mUsedByGroup)"),
]
