CASES = []
CASES += [
    dict(id='c03-differ-arg1-unused', prop='C03', file='src/celma/prog_args/detail/value_constraint_differ.hpp', expect='R6',
         old="      if (!arg1->hasValue())\n         continue;\n", new=""),
    dict(id='c03-differ-arg2-unused', prop='C03', file='src/celma/prog_args/detail/value_constraint_differ.hpp', expect='R6',
         old="         if ((arg1 != arg2) && arg2->hasValue()\n", new="         if ((arg1 != arg2)\n"),
    dict(id='c03-eq-differ-nested-if', prop='C03', file='src/celma/prog_args/detail/value_constraint_differ.hpp', expect=None,
         old="         if ((arg1 != arg2) && arg2->hasValue()\n             && (arg1->compareValue( arg2) == 0))",
         new="         if (!arg2->hasValue() || (arg1 == arg2))\n            continue;\n         if (arg1->compareValue( arg2) == 0)"),
]

CASES += [
    dict(id='c03-format-branch-no-hasvalue', prop='C03', file='src/celma/prog_args/detail/typed_arg.hpp', expect='R7',
         old="      mDestVar = boost::lexical_cast< T>( valCopy);\n   } else\n   {\n      mDestVar = boost::lexical_cast< T>( value);\n   } // end if\n   mHasValueSet = true;\n} // TypedArg< T>::assign",
         new="      mDestVar = boost::lexical_cast< T>( valCopy);\n      return;\n   } // end if\n\n   mDestVar     = boost::lexical_cast< T>( value);\n   mHasValueSet = true;\n} // TypedArg< T>::assign"),
]
