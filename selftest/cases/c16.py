F = 'src/library/log/formatting/format.cpp'
C = 'src/library/log/formatting/creator.cpp'
CASES = [
    dict(id='c16-orig-strftime-unchecked', prop='C16', file=F, expect='R4',
         old="   if (::strftime( timestamp_str, sizeof( timestamp_str) - 1, use_format_str,\n                   ::localtime( &timestamp)) == 0)\n      timestamp_str[ 0] = '\\0';",
         new="   ::strftime( timestamp_str, sizeof( timestamp_str) - 1, use_format_str,\n               ::localtime( &timestamp));"),
    dict(id='c16-wrong-getter', prop='C16', file=F, expect='R1', where='functionName',
         old="         append( dest, field_def, msg.getFunctionName());", new="         append( dest, field_def, msg.getFileName());"),
    dict(id='c16-time-default-format', prop='C16', file=F, expect='R1',
         old='         formatDateTime( dest, field_def, "%T", msg.getTimestamp());', new='         formatDateTime( dest, field_def, "%F", msg.getTimestamp());'),
    dict(id='c16-missing-break-fallthrough', prop='C16', file=F, expect='R1',
         old="      case FieldTypes::errorNbr:\n         append( dest, field_def, std::to_string( msg.getErrorNbr()));\n         break;",
         new="      case FieldTypes::errorNbr:\n         append( dest, field_def, std::to_string( msg.getErrorNbr()));"),
    dict(id='c16-custom-format-ignored', prop='C16', file=F, expect='R1',
         old="   auto const  use_format_str = field_def.mConstant.empty() ? format_str :\n                                field_def.mConstant.c_str();",
         new="   auto const  use_format_str = !field_def.mConstant.empty() ? format_str :\n                                field_def.mConstant.c_str();"),
    dict(id='c16-width-sticky', prop='C16', file=C, expect='R2',
         old="   mFormatString.clear();\n   mFixedWidth = 0;\n   mAlignLeft  = false;", new="   mFormatString.clear();\n   mAlignLeft  = false;"),
    dict(id='c16-leading-separator', prop='C16', file=C, expect='R2',
         old="   if (!mAutoSep.empty() && !mDefs.mFields.empty())", new="   if (!mAutoSep.empty())"),
    dict(id='c16-attribute-unaligned', prop='C16', file=C, expect='R2',
         old="   attribute_field.mAlignLeft  = mAlignLeft;\n", new="   attribute_field.mAlignLeft  = false;\n"),
    dict(id='c16-global-attr-first', prop='C16', file=F, expect='R3',
         old="            auto  attr_value( msg.getAttributeValue( field_def.mConstant));\n            if (attr_value.empty())\n               attr_value = Logging::instance().getAttribute( field_def.mConstant);",
         new="            auto  attr_value( Logging::instance().getAttribute( field_def.mConstant));\n            if (attr_value.empty())\n               attr_value = msg.getAttributeValue( field_def.mConstant);"),
    dict(id='c16-oldest-attribute-wins', prop='C16', file='src/library/log/detail/log_attributes_container.cpp', expect='R3',
         old="   for (auto attr_rev_iter = mAttributes.rbegin();\n        attr_rev_iter != mAttributes.rend(); ++attr_rev_iter)",
         new="   for (auto attr_rev_iter = mAttributes.begin();\n        attr_rev_iter != mAttributes.end(); ++attr_rev_iter)"),
    dict(id='c16-setw-always', prop='C16', file=F, expect='R1',
         old="   if (def.mFixedWidth > 0)\n      dest << std::setw( def.mFixedWidth);", new="   dest << std::setw( def.mFixedWidth + 1);"),
    dict(id='c16-eq-pid-via-local', prop='C16', file=F, expect=None,
         old="         append( dest, field_def, std::to_string( msg.getProcessId()));",
         new="         {\n            const auto  pid_str = std::to_string( msg.getProcessId());\n            append( dest, field_def, pid_str);\n         }"),
]

LAC = 'src/library/log/detail/log_attributes_container.cpp'
CASES += [
    dict(id='c16-add-overwrites-last', prop='C16', file=LAC, expect='R3',
         old="   mAttributes.push_back( attr_pair_t( attr_name, attr_value));\n",
         new="   if (!mAttributes.empty() && (std::get< 0>( mAttributes.back()) == attr_name))\n   {\n      std::get< 1>( mAttributes.back()) = attr_value;\n      return;\n   } // end if\n   mAttributes.push_back( attr_pair_t( attr_name, attr_value));\n"),
    dict(id='c16-add-twice', prop='C16', file=LAC, expect='R3',
         old="   mAttributes.push_back( attr_pair_t( attr_name, attr_value));\n",
         new="   mAttributes.push_back( attr_pair_t( attr_name, attr_value));\n   if (attr_value.empty())\n      mAttributes.push_back( attr_pair_t( attr_name, attr_name));\n"),
    dict(id='c16-eq-add-emplace', prop='C16', file=LAC, expect=None,
         old="   mAttributes.push_back( attr_pair_t( attr_name, attr_value));\n", new="   mAttributes.emplace_back( attr_name, attr_value);\n"),
]

CASES += [
    dict(id='c16-parent-asked-first', prop='C16', file='src/library/log/log_attributes.cpp', expect='R3',
         old="   if (my_attr.empty() && (mpOuter != nullptr))\n      return mpOuter->getAttribute( attr_name);", new="   if (mpOuter != nullptr)\n      return mpOuter->getAttribute( attr_name);"),
]

CASES += [
    dict(id='c16-remove-drops-name', prop='C16', file='src/library/log/logging.cpp', expect='R3',
         old="   mAttributes.removeAttribute( attr_name);", new="   mAttributes.removeAttribute();"),
]

LM = 'src/celma/log/detail/log_msg.hpp'
CASES += [
    dict(id='c16-getter-line-returns-errnbr', prop='C16', file=LM, expect='R5',
         old="   return mLineNbr;", new="   return mErrNbr;"),
    dict(id='c16-getter-file-returns-function', prop='C16', file=LM, expect='R5',
         old="   return mFileName;", new="   return mFunctionName;"),
    dict(id='c16-millis-rounded', prop='C16', file=LM, expect='R5',
         old="   return std::chrono::duration_cast< std::chrono::milliseconds>( duration).\n      count() % 1000;",
         new="   return std::chrono::round< std::chrono::milliseconds>( duration).\n      count() % 1000;"),
    dict(id='c16-set-level-writes-nothing-of-level', prop='C16', file=LM, expect='R5',
         old="   mErrNbr = error_nbr;", new="   mLineNbr = error_nbr;"),
    dict(id='c16-eq-timestamp-explicit-floor', prop='C16', file=LM, expect=None,
         old="   return std::chrono::system_clock::to_time_t( mTimestamp);",
         new="   return std::chrono::system_clock::to_time_t(\n      std::chrono::time_point_cast< std::chrono::seconds>( mTimestamp));"),
    dict(id='c16-eq-millis-no-local', prop='C16', file=LM, expect=None,
         old="   auto  duration = mTimestamp.time_since_epoch();\n   return std::chrono::duration_cast< std::chrono::milliseconds>( duration).",
         new="   return std::chrono::duration_cast< std::chrono::milliseconds>( mTimestamp.time_since_epoch())."),
]

CASES += [
    dict(id='c16-level-text-memoised', prop='C16', file=F, expect='R6',
         old="         formatDateTime( dest, field_def, \"%F\", msg.getTimestamp());",
         new="         {\n            static const time_t  first_stamp = msg.getTimestamp();\n            formatDateTime( dest, field_def, \"%F\", first_stamp);\n         }"),
    dict(id='c16-eq-static-constant-text', prop='C16', file=F, expect=None,
         old="         formatDateTime( dest, field_def, \"%F\", msg.getTimestamp());",
         new="         {\n            static const char* const  date_format = \"%F\";\n            formatDateTime( dest, field_def, date_format, msg.getTimestamp());\n         }"),
]

DEF = 'src/celma/log/formatting/definition.hpp'
CRH = 'src/celma/log/formatting/creator.hpp'
CASES += [
    dict(id='c16-creator-width-short', prop='C16', file=CRH, expect='R7',
         old="   int          mFixedWidth = 0;", new="   short        mFixedWidth = 0;"),
    dict(id='c16-eq-field-width-long', prop='C16', file=DEF, expect=None,
         old="      int          mFixedWidth;", new="      long         mFixedWidth;"),
]
