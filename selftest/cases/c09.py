CASES = [
    dict(id='c09-static-memo-of-first-call', prop='C09', file='src/library/prog_args/handler.cpp', expect='R4',
         old="   string  absPath( homeDir);\n   absPath.append( \"/.progargs/\").append( progNameOnly).append( \".pa\");",
         new="   static const string  absPath( string( homeDir).append( \"/.progargs/\")\n      .append( progNameOnly).append( \".pa\"));"),
    dict(id='c09-eq-static-constant-text', prop='C09', file='src/library/prog_args/handler.cpp', expect=None,
         old="   absPath.append( \"/.progargs/\").append( progNameOnly).append( \".pa\");",
         new="   static const string  sub_dir( \"/.progargs/\");\n   absPath.append( sub_dir).append( progNameOnly).append( \".pa\");"),
]

CASES += [
    dict(id='c09-subgroup-add-always-cross-checks', prop='C09', file='src/library/prog_args/handler.cpp', expect='R5',
         old="   // another handler of the same argument group either\n   if (mUsedByGroup)\n      Groups::instance().crossCheckArguments( this);",
         new="   // another handler of the same argument group either\n   Groups::instance().crossCheckArguments( this);"),
    dict(id='c09-eq-cross-check-guard-else-form', prop='C09', file='src/library/prog_args/handler.cpp', expect=None,
         old="   // another handler of the same argument group either\n   if (mUsedByGroup)\n      Groups::instance().crossCheckArguments( this);",
         new="   // another handler of the same argument group either\n   if (!mUsedByGroup)\n   {\n   } else\n   {\n      Groups::instance().crossCheckArguments( this);\n   } // end if"),
]
