CASES = [
    dict(id='c09-static-memo-of-first-call', prop='C09', file='src/library/prog_args/handler.cpp', expect='R4',
         old="   string  absPath( homeDir);\n   absPath.append( \"/.progargs/\").append( progNameOnly).append( \".pa\");",
         new="   static const string  absPath( string( homeDir).append( \"/.progargs/\")\n      .append( progNameOnly).append( \".pa\"));"),
    dict(id='c09-eq-static-constant-text', prop='C09', file='src/library/prog_args/handler.cpp', expect=None,
         old="   absPath.append( \"/.progargs/\").append( progNameOnly).append( \".pa\");",
         new="   static const string  sub_dir( \"/.progargs/\");\n   absPath.append( sub_dir).append( progNameOnly).append( \".pa\");"),
]
