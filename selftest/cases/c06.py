T = 'src/celma/prog_args/detail/typed_arg.hpp'
C = 'src/celma/prog_args/detail/container_adapter.hpp'
H = 'src/library/prog_args/handler.cpp'
CASES = [
    dict(id='c06-orig-unique-whole-array', prop='C06', file=T, expect='R3',
         old="         if (common::contains( mDestVar, mIndex, dest_value))", new="         if (common::contains( mDestVar, dest_value))"),
    dict(id='c06-clear-every-use', prop='C06', file=T, expect='R1', where='ContainerAdapter',
         old="   void TypedArg< ContainerAdapter< T>>::assign( const std::string& value, bool)\n{\n   if (mClearB4Assign)\n   {\n      mDestVar.clear();\n      // clear only once\n      mClearB4Assign = false;\n   } // end if",
         new="   void TypedArg< ContainerAdapter< T>>::assign( const std::string& value, bool)\n{\n   if (mClearB4Assign)\n   {\n      mDestVar.clear();\n   } // end if"),
    dict(id='c06-sort-inside-loop', prop='C06', file=T, expect='R1', where='ContainerAdapter',
         old="      mDestVar.addValue( dest_value);\n   } // end for\n\n   if (mSortData)\n      mDestVar.sort();", new="      mDestVar.addValue( dest_value);\n      if (mSortData)\n         mDestVar.sort();\n   } // end for\n"),
    dict(id='c06-format-after-convert', prop='C06', file=T, expect='R1', where='KeyValue',
         old="      if (!mFormats.empty())\n      {\n         format( key_value.first, 0);\n         format( key_value.second, 1);\n      } // end if\n\n      auto const  dest_key   =\n         boost::lexical_cast< typename dest_type_t::key_type_t>(\n            key_value.first);\n",
         new="      auto const  dest_key   =\n         boost::lexical_cast< typename dest_type_t::key_type_t>(\n            key_value.first);\n\n      if (!mFormats.empty())\n      {\n         format( key_value.first, 0);\n         format( key_value.second, 1);\n      } // end if\n"),
    dict(id='c06-duplicate-added-anyway', prop='C06', file=T, expect='R1', where='KeyValue',
         old="         if (mTreatDuplicatesAsErrors)\n            throw std::runtime_error( \"refuse to store duplicate values in\"\n               \" variable '\" + mVarName + \"'\");\n         continue; // for\n      } // end if\n\n      auto const  dest_value =\n         boost::lexical_cast< typename dest_type_t::value_type_t>(",
         new="         if (mTreatDuplicatesAsErrors)\n            throw std::runtime_error( \"refuse to store duplicate values in\"\n               \" variable '\" + mVarName + \"'\");\n      } // end if\n\n      auto const  dest_value =\n         boost::lexical_cast< typename dest_type_t::value_type_t>("),
    dict(id='c06-fixed-separator', prop='C06', file=T, expect='R1', where='bitset',
         old="   common::Tokenizer  tok( value, mListSep);\n   for (auto it = tok.begin(); it != tok.end(); ++it)\n   {\n      if (mpCardinality && !mIgnoreCardinality && (it != tok.begin()))\n         mpCardinality->gotValue();\n\n      auto const&  list_val( *it);",
         new="   common::Tokenizer  tok( value, ',');\n   for (auto it = tok.begin(); it != tok.end(); ++it)\n   {\n      if (mpCardinality && !mIgnoreCardinality && (it != tok.begin()))\n         mpCardinality->gotValue();\n\n      auto const&  list_val( *it);"),
    dict(id='c06-deque-sort-throws', prop='C06', file=C, expect='R2', where='deque',
         old="      std::sort( mDestCont.begin(), mDestCont.end());\n   } // ContainerAdapter< std::deque< T>>::sort",
         new="      throw std::logic_error( \"sort() not supported\");\n   } // ContainerAdapter< std::deque< T>>::sort"),
    dict(id='c06-free-value-any-arg', prop='C06', file=H, expect='R4',
         old="      if ((mpLastArg != nullptr) && mpLastArg->takesMultiValue())", new="      if (mpLastArg != nullptr)"),
    dict(id='c06-eq-check-hoisted', prop='C06', file=T, expect=None,
         old="      auto  list_val( *it);\n\n      check( list_val);\n\n      if (!mFormats.empty())\n      {\n         format( list_val);\n         // we use the position",
         new="      auto  list_val( *it);\n      check( list_val);\n      if (!mFormats.empty())\n      {\n         format( list_val);\n         // we use the position"),
]

CA = 'src/celma/prog_args/detail/container_adapter.hpp'
CASES += [
    dict(id='c06-multiset-contains-inverted', prop='C06', file=CA, expect='R2',
         old="      return mDestCont.find( value) != mDestCont.end();\n   } // ContainerAdapter< std::multiset< T>>::contains",
         new="      return mDestCont.find( value) == mDestCont.end();\n   } // ContainerAdapter< std::multiset< T>>::contains"),
    dict(id='c06-deque-sort-descending', prop='C06', file=CA, expect='R2',
         old="      std::sort( mDestCont.begin(), mDestCont.end());\n   } // ContainerAdapter< std::deque< T>>::sort",
         new="      std::sort( mDestCont.begin(), mDestCont.end(), std::greater< T>());\n   } // ContainerAdapter< std::deque< T>>::sort"),
    dict(id='c06-deque-sort-partial', prop='C06', file=CA, expect='R2',
         old="      std::sort( mDestCont.begin(), mDestCont.end());\n   } // ContainerAdapter< std::deque< T>>::sort",
         new="      std::sort( mDestCont.begin() + 1, mDestCont.end());\n   } // ContainerAdapter< std::deque< T>>::sort"),
    dict(id='c06-eq-multiset-contains-count', prop='C06', file=CA, expect=None,
         old="      return mDestCont.find( value) != mDestCont.end();\n   } // ContainerAdapter< std::multiset< T>>::contains",
         new="      return mDestCont.count( value) != 0;\n   } // ContainerAdapter< std::multiset< T>>::contains"),
    dict(id='c06-eq-deque-stable-sort', prop='C06', file=CA, expect=None,
         old="      std::sort( mDestCont.begin(), mDestCont.end());\n   } // ContainerAdapter< std::deque< T>>::sort",
         new="      std::stable_sort( mDestCont.begin(), mDestCont.end());\n   } // ContainerAdapter< std::deque< T>>::sort"),
]

CASES += [
    dict(id='c06-tuple-end-off-by-one', prop='C06', file='src/celma/common/tuple_at_index.hpp', expect='R3',
         old="   if (index >= 0)\n      throw std::out_of_range", new="   if (index > 0)\n      throw std::out_of_range"),
    dict(id='c06-eq-tuple-end-negated', prop='C06', file='src/celma/common/tuple_at_index.hpp', expect=None,
         old="   if (index >= 0)\n      throw std::out_of_range", new="   if (!(index < 0))\n      throw std::out_of_range"),
]

KV = 'src/celma/prog_args/detail/key_value_container_adapter.hpp'
CASES += [
    dict(id='c06-keyvalue-add-overwrites', prop='C06', file=KV, expect='R2', count=4,
         old="      mDestCont.insert( { key, value});", new="      mDestCont.erase( key);\n      mDestCont.insert( { key, value});"),
    dict(id='c06-eq-keyvalue-add-emplace', prop='C06', file=KV, expect=None, count=4,
         old="      mDestCont.insert( { key, value});", new="      mDestCont.emplace( key, value);"),
]

CASES += [
    dict(id='c06-set-contains-compares-with-begin', prop='C06', file=CA, expect='R*',
         old="      return mDestCont.find( value) != mDestCont.end();\n   } // ContainerAdapter< std::set< T>>::contains",
         new="      return mDestCont.find( value) != mDestCont.begin();\n   } // ContainerAdapter< std::set< T>>::contains"),
    dict(id='c06-multiset-contains-looks-for-default-value', prop='C06', file=CA, expect='R*',
         old="      return mDestCont.find( value) != mDestCont.end();\n   } // ContainerAdapter< std::multiset< T>>::contains",
         new="      return mDestCont.find( T()) != mDestCont.end();\n   } // ContainerAdapter< std::multiset< T>>::contains"),
]

CASES += [
    dict(id='c06-std-array-sorts-whole-array', prop='C06', file=T, expect='R1',
         old="      std::sort( mDestVar.begin(), mDestVar.begin() + mIndex);", new="      std::sort( mDestVar.begin(), mDestVar.end());"),
    dict(id='c06-eq-std-array-sort-range-by-next', prop='C06', file=T, expect=None,
         old="      std::sort( mDestVar.begin(), mDestVar.begin() + mIndex);", new="      std::sort( mDestVar.begin(), std::next( mDestVar.begin(), mIndex));"),
]

CASES += [
    dict(id='c06-contains-sorts-destination', prop='C06', file=CA, expect='R2',
         old="      return mDestCont.find( value) != mDestCont.end();\n   } // ContainerAdapter< std::set< T>>::contains",
         new="      mDestCont.erase( mDestCont.begin(), mDestCont.begin());\n      return mDestCont.find( value) != mDestCont.end();\n   } // ContainerAdapter< std::set< T>>::contains"),
]

CASES += [
    dict(id='c06-unique-not-for-sorted', prop='C06', file='src/celma/prog_args/detail/typed_arg.hpp', expect='R6',
         old="     mUniqueData = true;\n     mTreatDuplicatesAsErrors = duplicates_are_errors;\n     return this;", new="     mUniqueData = !dest_type_t::IsSorted;\n     mTreatDuplicatesAsErrors = duplicates_are_errors;\n     return this;"),
    dict(id='c06-eq-unique-from-trait-in-guard', prop='C06', file='src/celma/prog_args/detail/typed_arg.hpp', expect=None,
         old="     mUniqueData = true;\n     mTreatDuplicatesAsErrors = duplicates_are_errors;\n     return this;", new="     mUniqueData = dest_type_t::HasIterators;\n     mTreatDuplicatesAsErrors = duplicates_are_errors;\n     return this;"),
]

CASES += [
    dict(id='c06-queue-tostring-moves-destination', prop='C06', file='src/celma/prog_args/detail/container_adapter.hpp', expect='R2',
         old="      return format::toString( mDestCont);", new="      return format::toString( std::move( mDestCont));", count=3),
]
