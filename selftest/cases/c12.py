D = 'src/library/container/dynamic_bitset.cpp'
I = 'src/celma/container/detail/dynamic_bitset_iterator.hpp'
CASES = [
    dict(id='c12-orig-reset-guard', prop='C12', file=D, expect='O1', where='reset',
         old="DynamicBitset& DynamicBitset::reset( size_t pos)\n{\n\n   if (pos >= mData.size())", new="DynamicBitset& DynamicBitset::reset( size_t pos)\n{\n\n   if (pos > mData.size())"),
    dict(id='c12-orig-index-guard', prop='C12', file=D, expect='O1', where='operator[]',
         old="   if (pos >= mData.size())\n      throw std::out_of_range( \"position is behind end of vector\");\n\n   return mData[ pos];\n} // DynamicBitset::operator []",
         new="   if (pos > mData.size())\n      throw std::out_of_range( \"position is behind end of vector\");\n\n   return mData[ pos];\n} // DynamicBitset::operator []"),
    dict(id='c12-orig-shift-wrap', prop='C12', file=D, expect='O3',
         old="   for (size_t idx = (pos < mData.size()) ? mData.size() - pos : 0;\n        idx < mData.size(); ++idx)", new="   for (size_t idx = mData.size() - pos; idx < mData.size(); ++idx)"),
    dict(id='c12-orig-begin-throws', prop='C12', file=I, expect='O2', where='begin',
         old="      if ((static_cast< size_t>( mCurrPos) >= mpDynBitset->size())\n          || !mpDynBitset->test( mCurrPos))", new="      if (!mpDynBitset->test( mCurrPos))"),
    dict(id='c12-orig-rbegin-throws', prop='C12', file=I, expect='O2', where='rbegin',
         old="      if ((mCurrPos < 0) || !mpDynBitset->test( mCurrPos))", new="      if (!mpDynBitset->test( mCurrPos))"),
    dict(id='c12-set-grow-too-small', prop='C12', file=D, expect='O1', where='set',
         old="   return (pos + 1) * 1.5;\n} // grownSize", new="   return pos * 1.5;\n} // grownSize"),
    dict(id='c12-orig-no-max-size-guard', prop='C12', file=D, expect='O1',
         old="   if (pos >= data.max_size())\n      throw std::length_error( \"position is too big for a dynamic bitset\");\n", new=""),
    dict(id='c12-and-loop-bound', prop='C12', file=D, expect='O1', where='operator&=',
         old="      for (size_t idx = 0; idx < mData.size(); ++idx)\n      {\n         mData[ idx] = mData[idx] & other.mData[ idx];",
         new="      for (size_t idx = 0; idx < other.mData.size(); ++idx)\n      {\n         mData[ idx] = mData[idx] & other.mData[ idx];"),
    dict(id='c12-shl-loop-underflow', prop='C12', file=D, expect='O3',
         old="   if ((pos == 0) || (mData.size() == 0))\n      return *this;\n\n   mData.resize( mData.size() + pos);", new="   if (mData.size() == 0)\n      return *this;\n\n   mData.resize( mData.size() + pos);"),
    dict(id='c12-forward-off-by-one', prop='C12', file=I, expect='O2',
         old="      while ((static_cast< size_t>( ++mCurrPos) < mpDynBitset->size())", new="      while ((static_cast< size_t>( ++mCurrPos) <= mpDynBitset->size())"),
    dict(id='c12-reverse-no-guard', prop='C12', file=I, expect='O2',
         old="      while ((--mCurrPos >= 0) && !mpDynBitset->test( mCurrPos))", new="      while ((--mCurrPos >= -1) && !mpDynBitset->test( mCurrPos))"),
    dict(id='c12-eq-test-form', prop='C12', file=D, expect=None,
         old="   if (pos >= mData.size())\n      throw std::out_of_range( \"position is behind end of vector\");\n\n   return mData[ pos];\n} // DynamicBitset::test",
         new="   if (!(pos < mData.size()))\n      throw std::out_of_range( \"position is behind end of vector\");\n\n   return mData[ pos];\n} // DynamicBitset::test"),
]

D = 'src/library/container/dynamic_bitset.cpp'
H = 'src/celma/container/dynamic_bitset.hpp'
CASES += [
    dict(id='c12-to-ulong-guard-63', prop='C12', file=D, expect='R4',
         old="         if (idx >= 64)\n            throw std::overflow_error(", new="         if (idx >= 63)\n            throw std::overflow_error("),
    dict(id='c12-to-ulong-guard-65', prop='C12', file=D, expect='R4',
         old="         if (idx >= 64)\n            throw std::overflow_error(", new="         if (idx > 64)\n            throw std::overflow_error("),
    dict(id='c12-to-ulong-skips-bit0', prop='C12', file=D, expect='R4',
         old="   for (size_t idx = 0; idx < mData.size(); ++idx)\n   {\n      if (mData[ idx])\n      {\n         if (idx >= 64)",
         new="   for (size_t idx = 1; idx < mData.size(); ++idx)\n   {\n      if (mData[ idx])\n      {\n         if (idx >= 64)"),
    dict(id='c12-all-polarity', prop='C12', file=D, expect='R4',
         old="   return std::find( mData.begin(), mData.end(), false) == mData.end();", new="   return std::find( mData.begin(), mData.end(), true) == mData.end();"),
    dict(id='c12-any-comparison', prop='C12', file=D, expect='R4',
         old="   return std::find( mData.begin(), mData.end(), true) != mData.end();", new="   return std::find( mData.begin(), mData.end(), true) == mData.end();"),
    dict(id='c12-count-false', prop='C12', file=D, expect='R4',
         old="   return std::count( mData.begin(), mData.end(), true);", new="   return std::count( mData.begin(), mData.end(), false);"),
    dict(id='c12-to-string-order', prop='C12', file=H, expect='R4',
         old="         result[ mData.size() - idx - 1] = one;", new="         result[ idx] = one;"),
    dict(id='c12-eq-none-by-negation', prop='C12', file=D, expect=None,
         old="   return std::find( mData.begin(), mData.end(), true) == mData.end();", new="   return !(std::find( mData.begin(), mData.end(), true) != mData.end());"),
    dict(id='c12-eq-to-ulong-or', prop='C12', file=D, expect=None,
         old="         result += 1L << idx;", new="         result |= 1UL << idx;"),
]

CASES += [
    dict(id='c12-and-tail-set', prop='C12', file=D, expect='R5',
         old="      for (size_t idx = other.mData.size(); idx < mData.size(); ++idx)\n      {\n         mData[ idx] = false;", new="      for (size_t idx = other.mData.size(); idx < mData.size(); ++idx)\n      {\n         mData[ idx] = true;"),
    dict(id='c12-or-is-and', prop='C12', file=D, expect='R5',
         old="      mData[ idx] = mData[idx] | other.mData[ idx];", new="      mData[ idx] = mData[idx] & other.mData[ idx];"),
    dict(id='c12-shl-wrong-direction', prop='C12', file=D, expect='R5',
         old="   for (size_t idx = mData.size() - 1; idx >= pos; --idx)\n   {\n      mData[ idx] = mData[ idx - pos];",
         new="   for (size_t idx = pos; idx < mData.size(); ++idx)\n   {\n      mData[ idx] = mData[ idx - pos];"),
    dict(id='c12-shl-clear-one-more', prop='C12', file=D, expect='R*',
         old="   for (size_t idx = 0; idx < pos; ++idx)\n   {\n      mData[ idx] = false;", new="   for (size_t idx = 0; idx <= pos; ++idx)\n   {\n      mData[ idx] = false;"),
    dict(id='c12-shr-off-by-one', prop='C12', file=D, expect='R5',
         old="   for (size_t idx = 0; idx + pos < mData.size(); ++idx)\n   {\n      mData[ idx] = mData[ idx + pos];", new="   for (size_t idx = 0; idx + pos < mData.size(); ++idx)\n   {\n      mData[ idx] = mData[ idx + pos - 1];"),
    dict(id='c12-shl-binary-no-shift', prop='C12', file=D, expect='R5',
         old="      dbs.mData[ idx + pos] = mData[ idx];", new="      dbs.mData[ idx] = mData[ idx];"),
    dict(id='c12-flip-pos-identity', prop='C12', file=D, expect='R5',
         old="   mData[ pos] = !mData[ pos];", new="   mData[ pos] = mData[ pos];"),
    dict(id='c12-set-ignores-value', prop='C12', file=D, expect='R5',
         old="   mData[ pos] = value;", new="   mData[ pos] = true;"),
    dict(id='c12-resize-ignores-init', prop='C12', file=D, expect='R5',
         old="   mData.resize( count, init_value);", new="   mData.resize( count);"),
    dict(id='c12-xor-own-size-only', prop='C12', file=D, expect='R5',
         old="DynamicBitset& DynamicBitset::operator ^=( const DynamicBitset& other) noexcept( true)\n{\n\n   if (mData.size() < other.mData.size())\n   {\n      mData.resize( other.mData.size());\n   } // end if",
         new="DynamicBitset& DynamicBitset::operator ^=( const DynamicBitset& other) noexcept( true)\n{\n"),
    dict(id='c12-eq-or-bound-other', prop='C12', file=D, expect=None,
         old="   for (size_t idx = 0; idx < std::min( mData.size(), other.mData.size()); ++idx)\n   {\n      mData[ idx] = mData[idx] | other.mData[ idx];",
         new="   for (size_t idx = 0; idx < other.mData.size(); ++idx)\n   {\n      mData[ idx] = mData[idx] | other.mData[ idx];"),
    dict(id='c12-eq-and-operands-swapped', prop='C12', file=D, expect=None,
         old="mData[ idx] & other.mData[ idx];", new="other.mData[ idx] & mData[ idx];"),
]

CASES += [
    dict(id='c12-forward-skips-set-bit', prop='C12', file=I, expect='R6',
         old="      while ((static_cast< size_t>( ++mCurrPos) < mpDynBitset->size())\n             && !mpDynBitset->test( mCurrPos))",
         new="      while ((static_cast< size_t>( ++mCurrPos) < mpDynBitset->size())\n             && mpDynBitset->test( mCurrPos))"),
    dict(id='c12-forward-step-two', prop='C12', file=I, expect='R*',
         old="      while ((static_cast< size_t>( ++mCurrPos) < mpDynBitset->size())\n             && !mpDynBitset->test( mCurrPos))\n      {\n      } // end while",
         new="      while ((static_cast< size_t>( ++mCurrPos) < mpDynBitset->size())\n             && !mpDynBitset->test( mCurrPos))\n      {\n         if (static_cast< size_t>( mCurrPos + 1) < mpDynBitset->size())\n            ++mCurrPos;\n      } // end while"),
    dict(id='c12-reverse-skips-set-bit', prop='C12', file=I, expect='R6',
         old="      while ((--mCurrPos >= 0) && !mpDynBitset->test( mCurrPos))", new="      while ((--mCurrPos >= 0) && mpDynBitset->test( mCurrPos))"),
    dict(id='c12-reverse-stops-at-one', prop='C12', file=I, expect='R6',
         old="      while ((--mCurrPos >= 0) && !mpDynBitset->test( mCurrPos))", new="      while ((--mCurrPos > 0) && !mpDynBitset->test( mCurrPos))"),
    dict(id='c12-riter-increment-forward', prop='C12', file=I, expect='R6',
         old="   DynamicBitsetReverseIterator& operator ++( std::prefix)\n   {\n      reverse();", new="   DynamicBitsetReverseIterator& operator ++( std::prefix)\n   {\n      forward();"),
]

CASES += [
    dict(id='c12-set-false-no-grow', prop='C12', file=D, expect='R5',
         old="DynamicBitset& DynamicBitset::set( size_t pos, bool value)\n{\n\n   if (pos >= mData.size())\n      mData.resize( grownSize( mData, pos));",
         new="DynamicBitset& DynamicBitset::set( size_t pos, bool value)\n{\n\n   if (pos >= mData.size())\n   {\n      if (!value)\n         return *this;\n      mData.resize( grownSize( mData, pos));\n   }"),
]

CASES += [
    dict(id='c12-set-all-clears', prop='C12', file=D, expect='R5',
         old="   for (auto flag : mData)\n   {\n      flag = true;", new="   for (auto flag : mData)\n   {\n      flag = false;"),
    dict(id='c12-set-all-toggles', prop='C12', file=D, expect='R5',
         old="   for (auto flag : mData)\n   {\n      flag = true;", new="   for (auto flag : mData)\n   {\n      flag = !flag;"),
    dict(id='c12-eq-set-all-index-loop', prop='C12', file=D, expect=None,
         old="   for (auto flag : mData)\n   {\n      flag = true;\n   } // end for", new="   for (size_t idx = 0; idx < mData.size(); ++idx)\n   {\n      mData[ idx] = true;\n   } // end for"),
    dict(id='c12-binary-or-uses-xor', prop='C12', file=D, expect='R5',
         old="   copy |= rhs;", new="   copy ^= rhs;"),
    dict(id='c12-binary-and-swapped-operands', prop='C12', file=D, expect='R5',
         old="   auto  copy( lhs);\n\n\n   copy &= rhs;", new="   auto  copy( rhs);\n\n\n   copy &= lhs;"),
    dict(id='c12-move-assign-swaps', prop='C12', file=D, expect='R5',
         old="   mData = std::move( other);\n\n   return *this;", new="   mData.swap( other);\n   mData.resize( other.size());\n\n   return *this;"),
    dict(id='c12-index-ref-shrinks', prop='C12', file=D, expect='R5',
         old="   if (pos >= mData.size())\n      mData.resize( grownSize( mData, pos));\n\n   return mData[ pos];", new="   if (pos + 1 != mData.size())\n      mData.resize( grownSize( mData, pos));\n\n   return mData[ pos];"),
]

CASES += [
    dict(id='c12-rbegin-const-skips-top', prop='C12', file=D, expect='R6',
         old="DynamicBitset::const_reverse_iterator DynamicBitset::rbegin() const\n{\n   return const_reverse_iterator( this, static_cast< ssize_t>( mData.size()) - 1);",
         new="DynamicBitset::const_reverse_iterator DynamicBitset::rbegin() const\n{\n   return const_reverse_iterator( this, static_cast< ssize_t>( mData.size()) - 2);"),
    dict(id='c12-begin-starts-at-one', prop='C12', file=D, expect='R*',
         old="   return iterator( this, 0);", new="   return iterator( this, 1);"),
    dict(id='c12-iter-ctor-always-forward', prop='C12', file=I, expect='R6',
         old="      if ((static_cast< size_t>( mCurrPos) >= mpDynBitset->size())\n          || !mpDynBitset->test( mCurrPos))\n         forward();", new="      forward();"),
]

CASES += [
    dict(id='c12-and-clear-loop-never-runs', prop='C12', file=D, expect='R5',
         old="      for (size_t idx = other.mData.size(); idx < mData.size(); ++idx)\n      {\n         mData[ idx] = false;", new="      for (size_t idx = other.mData.size(); idx < other.mData.size(); ++idx)\n      {\n         mData[ idx] = false;"),
]

CASES += [
    dict(id='c12-postfix-copy-after-step', prop='C12', file=I, expect='R6',
         old="      auto  copy( *this);\n      reverse();\n      return copy;",
         new="      reverse();\n      auto  copy( *this);\n      return copy;"),
    dict(id='c12-postfix-dec-returns-self', prop='C12', file=I, expect='R6',
         old="      if (mCurrPos < 0)\n         mCurrPos = mpDynBitset->size();\n      return copy;",
         new="      if (mCurrPos < 0)\n         mCurrPos = mpDynBitset->size();\n      return *this;"),
    dict(id='c12-eq-postfix-copy-assign-form', prop='C12', file=I, expect=None,
         old="      auto  copy( *this);\n      reverse();\n      return copy;",
         new="      DynamicBitsetReverseIterator  before = *this;\n      reverse();\n      return before;"),
]

BH = 'src/celma/container/dynamic_bitset.hpp'
CASES += [
    dict(id='c12-ctor-from-bitset-sets-only', prop='C12', file=BH, expect='R5',
         old="   mData( N, false)\n{\n   for (size_t idx = 0; idx < N; ++idx)\n   {\n      mData[ idx] = other[ idx];",
         new="   mData( N, false)\n{\n   for (size_t idx = 0; idx < N; ++idx)\n   {\n      if (other[ idx])\n         mData[ idx] = true;\n      else if (idx == N)\n         mData[ idx] = other[ idx];"),
    dict(id='c12-eq-assign-from-bitset-test-form', prop='C12', file=BH, expect=None,
         old="   mData.resize( N);\n   for (size_t idx = 0; idx < N; ++idx)\n   {\n      mData[ idx] = other[ idx];",
         new="   mData.resize( N);\n   for (size_t idx = 0; idx < N; ++idx)\n   {\n      mData[ idx] = other.test( idx);"),
]
