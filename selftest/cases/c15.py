P = 'src/library/log/files/policy_base.cpp'
CASES = [
    dict(id='c15-orig-truncating-open', prop='C15', file=P, expect='R1',
         old="         // try again\n         mFile.open( filename, std::ios_base::out | std::ios_base::app | std::ios_base::ate);",
         new="         // try again\n         mFile.open( filename, std::ios_base::out | std::ios_base::ate);"),
    dict(id='c15-orig-counter-never-reset', prop='C15', file='src/library/log/files/counted.cpp', expect='R2',
         old="   // a new, empty file: start counting the entries again\n   mNumberOfEntries = 0;\n", new=""),
    dict(id='c15-orig-newline-not-counted', prop='C15', file='src/library/log/files/max_size.cpp', expect='R3',
         old="   mCurrentFilesize += msg_text.length() + 1;", new="   mCurrentFilesize += msg_text.length();"),
    dict(id='c15-check-lets-overflow', prop='C15', file='src/library/log/files/max_size.cpp', expect='R3',
         old="   return mCurrentFilesize + msg_text.length() + 1 <= mMaxFileSize;", new="   return mCurrentFilesize + msg_text.length() <= mMaxFileSize;"),
    dict(id='c15-write-before-check', prop='C15', file=P, expect='R4',
         old="   if (!writeCheck( msg, msg_text))\n      reOpenFile();\n\n   mFile << msg_text << std::endl;\n",
         new="   mFile << msg_text << std::endl;\n\n   if (!writeCheck( msg, msg_text))\n      reOpenFile();\n"),
    dict(id='c15-roll-ascending', prop='C15', file='src/library/log/files/counted.cpp', expect='R4',
         old="   for (int file_nbr = mMaxGenerations - 1; file_nbr > 0; --file_nbr)", new="   for (int file_nbr = 1; file_nbr < mMaxGenerations; ++file_nbr)"),
    dict(id='c15-roll-swapped-names', prop='C15', file='src/library/log/files/max_size.cpp', expect='R4',
         old="      common::FileOperations::rename( dest_filename, src_filename);", new="      common::FileOperations::rename( src_filename, dest_filename);"),
    dict(id='c15-reopen-roll-after-open', prop='C15', file=P, expect='R4',
         old="   mFile.close();\n\n   rollFiles();\n\n   open( true);", new="   mFile.close();\n\n   open( true);\n\n   rollFiles();"),
    dict(id='c15-eq-in-out-mode', prop='C15', file=P, expect=None,
         old="   mFile.open( filename, std::ios_base::out | std::ios_base::app | std::ios_base::ate);\n\n   if (!mFile || !mFile.is_open())\n   {",
         new="   mFile.open( filename, std::ios_base::app);\n\n   if (!mFile || !mFile.is_open())\n   {"),
    dict(id='c15-eq-reset-in-roll', prop='C15', expect=None, edits=[
        ('src/library/log/files/counted.cpp', "   // a new, empty file: start counting the entries again\n   mNumberOfEntries = 0;\n", ""),
        ('src/library/log/files/counted.cpp', "void Counted::rollFiles()\n{\n", "void Counted::rollFiles()\n{\n   mNumberOfEntries = 0;\n"),
    ]),
]

CASES += [
    dict(id='c15-roll-range-from-state', prop='C15', file='src/library/log/files/counted.cpp', expect='R4',
         old="   for (int file_nbr = mMaxGenerations - 1; file_nbr > 0; --file_nbr)", new="   for (int file_nbr = static_cast< int>( mNumberOfEntries) - 1; file_nbr > 0; --file_nbr)"),
    dict(id='c15-roll-stops-at-two', prop='C15', file='src/library/log/files/counted.cpp', expect='R4',
         old="   for (int file_nbr = mMaxGenerations - 1; file_nbr > 0; --file_nbr)", new="   for (int file_nbr = mMaxGenerations - 1; file_nbr > 1; --file_nbr)"),
    dict(id='c15-eq-roll-ge-one', prop='C15', file='src/library/log/files/counted.cpp', expect=None,
         old="   for (int file_nbr = mMaxGenerations - 1; file_nbr > 0; --file_nbr)", new="   for (int file_nbr = mMaxGenerations - 1; file_nbr >= 1; --file_nbr)"),
]

CASES += [
    dict(id='c15-opencheck-no-size', prop='C15', file='src/library/log/files/max_size.cpp', expect='R2',
         old="   mCurrentFilesize = fileSize();\n   return mCurrentFilesize < mMaxFileSize;", new="   return fileSize() < mMaxFileSize;"),
]

CASES += [
    dict(id='c15-open-rolls-inline', prop='C15', file='src/library/log/files/policy_base.cpp', expect='R4',
         old="         throw std::runtime_error( \"open check failed for re-opened file\");\n\n      reOpenFile();",
         new="         throw std::runtime_error( \"open check failed for re-opened file\");\n\n      mFile.close();\n      rollFiles();\n      mFile.open( filename, std::ios_base::out | std::ios_base::app | std::ios_base::ate);"),
]

CASES += [
    dict(id='c15-lock-guard-temporary', prop='C15', file='src/celma/log/files/handler.hpp', expect='R5',
         old="   const std::lock_guard< L>  lock( mLockType);", new="   std::lock_guard< L>{ mLockType};"),
    dict(id='c15-eq-unique-lock', prop='C15', file='src/celma/log/files/handler.hpp', expect=None,
         old="   const std::lock_guard< L>  lock( mLockType);", new="   std::unique_lock< L>  guard( mLockType);"),
]

BU = 'src/library/log/filename/builder.cpp'
CASES += [
    dict(id='c15-filename-number-part-uses-pid', prop='C15', file=BU, expect='R6',
         old="         formatNumber( dest, part_def, logfile_nbr);", new="         formatNumber( dest, part_def, logfile_nbr % 10);"),
    dict(id='c15-eq-format-number-local-text', prop='C15', file=BU, expect=None,
         old="   dest.append( oss.str());\n\n} // Builder::formatNumber", new="   auto const  number_text = oss.str();\n\n   dest.append( number_text);\n\n} // Builder::formatNumber"),
]

FH = 'src/celma/log/files/handler.hpp'
CASES += [
    dict(id='c15-eq-message-stream-renamed', prop='C15', expect=None, count=1,
         edits=[(FH, "   std::ostringstream  msg_text;", "   std::ostringstream  formatted;"),
                (FH, "   mpFormatter->formatMsg( msg_text, msg);", "   mpFormatter->formatMsg( formatted, msg);"),
                (FH, "   mpFilePolicy->writeMessage( msg, msg_text.str());", "   mpFilePolicy->writeMessage( msg, formatted.str());")]),
]

CASES += [
    dict(id='c15-counted-books-lines', prop='C15', file='src/library/log/files/counted.cpp', expect='R3',
         edits=[('src/library/log/files/counted.cpp', "void Counted::written( const detail::LogMsg&, const std::string&)\n{\n\n   ++mNumberOfEntries;", "void Counted::written( const detail::LogMsg&, const std::string& msg_text)\n{\n\n   mNumberOfEntries += 1 + std::count( msg_text.begin(), msg_text.end(), '\\n');"),
                ('src/library/log/files/counted.cpp', "#include <stdexcept>", "#include <stdexcept>\n#include <algorithm>")]),
]
