CASES = [
    dict(id='c20-isactive-joinable', prop='C20', file='src/celma/common/managed_thread.hpp', expect='R2d',
         old="   return mActive.load( std::memory_order_acquire);", new="   return joinable() && mActive.load( std::memory_order_acquire);"),
    dict(id='c20-eq-isactive-local', prop='C20', file='src/celma/common/managed_thread.hpp', expect=None,
         old="   return mActive.load( std::memory_order_acquire);", new="   const bool  active = mActive.load( std::memory_order_acquire);\n   return active;"),
]
