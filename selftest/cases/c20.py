CASES = [
    dict(id='c20-isactive-joinable', prop='C20', file='src/celma/common/managed_thread.hpp', expect='R2d',
         old="   return mActive.load( std::memory_order_acquire);", new="   return joinable() && mActive.load( std::memory_order_acquire);"),
    dict(id='c20-eq-isactive-local', prop='C20', file='src/celma/common/managed_thread.hpp', expect=None,
         old="   return mActive.load( std::memory_order_acquire);", new="   const bool  active = mActive.load( std::memory_order_acquire);\n   return active;"),
]

MT = 'src/celma/common/managed_thread.hpp'
CASES += [
    dict(id='c20-dtor-joins-only-when-active', prop='C20', file=MT, expect='R2e',
         old="   if (joinable())\n      join();", new="   if (joinable() && isActive())\n      join();"),
    dict(id='c20-dtor-detaches', prop='C20', file=MT, expect='R2e',
         old="   if (joinable())\n      join();", new="   if (joinable())\n      detach();"),
    dict(id='c20-eq-dtor-early-return', prop='C20', file=MT, expect=None,
         old="   if (joinable())\n      join();", new="   if (!joinable())\n      return;\n   join();"),
]

CASES += [
    dict(id='c20-eq-flag-set-by-exchange', prop='C20', file=MT, expect=None,
         old="                     flag->store( true, std::memory_order_release);", new="                     (void) flag->exchange( true, std::memory_order_acq_rel);"),
    dict(id='c20-flag-set-inside-assert', prop='C20', file=MT, expect='R2c',
         edits=[(MT, "                     flag->store( true, std::memory_order_release);", "                     assert( !flag->exchange( true, std::memory_order_acq_rel));"),
                (MT, "#include <atomic>", "#include <atomic>\n#include <cassert>")]),
]

CASES += [
    dict(id='c20-clear-relaxed', prop='C20', file=MT, expect='R2f',
         old="                      flag->store( false, std::memory_order_release);", new="                      flag->store( false, std::memory_order_relaxed);"),
    dict(id='c20-load-relaxed', prop='C20', file=MT, expect='R2f',
         old="   return mActive.load( std::memory_order_acquire);", new="   return mActive.load( std::memory_order_relaxed);"),
    dict(id='c20-eq-seq-cst-store', prop='C20', file=MT, expect=None,
         old="                      flag->store( false, std::memory_order_release);", new="                      flag->store( false);"),
]
