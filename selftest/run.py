#!/usr/bin/env python3
"""Tests the checkers both ways on scratch copies of /repo/src (never on /repo):

  mutants     one-instance-broken variants: the named check must exit 1 and the
              report must name the expected rule (and function substring)
  equivalents behaviour-preserving rewrites: the check must stay silent (exit 0)

usage: selftest/run.py [-k substring] [--keep]
Each case: dict(id, prop, file, old, new, expect='R4'|None (equivalent), where='substring')
Scratch copies live under /tmp/celma-mut.<pid> and are removed afterwards."""
import argparse
import json
import os
import shutil
import subprocess
import sys
import tempfile

VERIF = os.path.dirname(os.path.dirname(os.path.abspath(__file__)))
sys.path.insert(0, os.path.dirname(os.path.abspath(__file__)))


def load_cases():
    cases = []
    d = os.path.join(VERIF, 'selftest', 'cases')
    for fn in sorted(os.listdir(d)):
        if fn.endswith('.py'):
            ns = {}
            with open(os.path.join(d, fn)) as fh:
                exec(compile(fh.read(), fn, 'exec'), ns)
            cases.extend(ns.get('CASES', []))
    return cases


def run_case(case, keep=False):
    tmp = tempfile.mkdtemp(prefix='celma-mut.')
    try:
        shutil.copytree('/repo/src', os.path.join(tmp, 'src'))
        edits = case.get('edits') or [(case['file'], case['old'], case['new'])]
        for ed in edits:
            file, old, new = ed[:3]
            want = ed[3] if len(ed) > 3 else case.get('count', 1)     # (file, old, new[, occurrences])
            p = os.path.join(tmp, file)
            with open(p) as fh:
                s = fh.read()
            if s.count(old) != want:
                return 'BROKEN-CASE', 'pattern occurs %d times in %s' % (s.count(old), file)
            with open(p, 'w') as fh:
                fh.write(s.replace(old, new))
        env = dict(os.environ)
        env['CELMA_REPO'] = tmp
        env['VERIF_EVIDENCE_DIR'] = os.path.join(tmp, 'evidence')
        env['VERIF_REPORT_DIR'] = os.path.join(tmp, 'reports')
        p = subprocess.run([os.path.join(VERIF, 'bin', 'check'), case['prop']], env=env,
                           stdout=subprocess.PIPE, stderr=subprocess.STDOUT, text=True)
        out = p.stdout
        if case.get('expect') is None:
            if p.returncode == 0:
                return 'ok', 'silent on equivalent'
            return 'FAIL', 'check fired on an equivalent rewrite (rc=%d):\n%s' % (p.returncode, out[-1500:])
        if p.returncode == 2:
            return 'FAIL', 'analysis broken on mutant:\n' + out[-800:]
        if p.returncode != 1:
            return 'FAIL', 'mutant not detected (rc=%d)' % p.returncode
        exp = case['expect']
        hits = [l for l in out.splitlines() if l.strip().startswith(
            'FAILED ' + (exp[:-1] if exp.endswith('*') else exp + ' '))]
        if case.get('where'):
            hits = [l for l in hits if case['where'] in l]
        if not hits:
            return 'FAIL', 'fired, but not with rule %s / %s:\n%s' % (case['expect'], case.get('where'), out[-1500:])
        return 'ok', hits[0].strip()[:160]
    finally:
        if not keep:
            shutil.rmtree(tmp, ignore_errors=True)


def main():
    ap = argparse.ArgumentParser()
    ap.add_argument('-k', default='')
    ap.add_argument('--keep', action='store_true')
    ap.add_argument('-j', type=int, default=8)
    args = ap.parse_args()
    import re as _re
    cases = [c for c in load_cases() if args.k in c['id'] or args.k == c['prop'] or (('|' in args.k) and _re.search(args.k, c['id']))]
    bad = 0
    from concurrent.futures import ThreadPoolExecutor
    with ThreadPoolExecutor(max_workers=max(1, args.j)) as ex:
        results = list(ex.map(lambda c: run_case(c, args.keep), cases))
    for c, (st, msg) in zip(cases, results):
        print('%-6s %-34s %s %s' % (st, c['id'], c['prop'], msg if st != 'ok' else '- ' + msg))
        if st != 'ok':
            bad += 1
    print('%d cases, %d not ok' % (len(cases), bad))
    return 1 if bad else 0


if __name__ == '__main__':
    sys.exit(main())
