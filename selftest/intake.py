#!/usr/bin/env python3
"""Intake of a seeded breaking change produced by an independent sub-agent.

usage: selftest/intake.py <seed-id> <property> <worktree> [check ...]

 1. copies <worktree>/_seed/{patch.diff,demo.cpp,build.sh,notes.md} to /verif/seeded/<seed-id>/
 2. confirms: the patch applies to /repo HEAD; the demonstration PASSes on a pristine export of
    /repo HEAD and FAILs with the patch; the pinned 42 tests pass in the worktree's build
 3. applies the patch to /repo, runs the listed checks (default: the property's own), restores /repo
 4. writes meta.json (what it breaks, what it needs, what was run, which checks caught it)
"""
import json
import os
import shutil
import subprocess
import sys
import tempfile

VERIF = os.path.dirname(os.path.dirname(os.path.abspath(__file__)))
TESTS = open(os.path.join(VERIF, 'bin', 'baseline')).read().split("TESTS='")[1].split("'")[0]


def sh(cmd, **kw):
    p = subprocess.run(cmd, shell=isinstance(cmd, str), stdout=subprocess.PIPE, stderr=subprocess.STDOUT,
                       text=True, **kw)
    return p.returncode, p.stdout


def main():
    sid, prop, wt = sys.argv[1:4]
    checks = sys.argv[4:] or [prop]
    dst = os.path.join(VERIF, 'seeded', sid)
    os.makedirs(dst, exist_ok=True)
    for f in ('patch.diff', 'demo.cpp', 'build.sh', 'notes.md'):
        src = os.path.join(wt, '_seed', f)
        if os.path.exists(src):
            shutil.copy(src, os.path.join(dst, f))
    for f in os.listdir(os.path.join(wt, '_seed')):
        if f.endswith(('.cpp', '.sh', '.hpp', '.py', '.txt')) and not os.path.exists(os.path.join(dst, f)):
            shutil.copy(os.path.join(wt, '_seed', f), os.path.join(dst, f))
    patch = os.path.join(dst, 'patch.diff')
    meta = {'seed': sid, 'property': prop, 'ran': []}
    rc, out = sh(['git', '-C', '/repo', 'apply', '--check', patch])
    meta['applies_to_repo_head'] = rc == 0
    if rc != 0:
        print('patch does not apply to /repo HEAD:\n' + out)
    # demonstration on pristine and patched exports
    tmp = tempfile.mkdtemp(prefix='celma-seed.')
    try:
        clean = os.path.join(tmp, 'clean')
        bad = os.path.join(tmp, 'patched')
        for d in (clean, bad):
            os.makedirs(d)
            shutil.copytree('/repo/src', os.path.join(d, 'src'))
        rc, out = sh(['git', 'apply', '--unsafe-paths', '--directory=' + bad, patch], cwd=bad)
        if rc != 0:
            rc, out = sh('patch -p1 -d %s < %s' % (bad, patch))
        meta['patched_copy_ok'] = rc == 0
        bs = os.path.join(dst, 'build.sh')
        r1, o1 = sh(['bash', bs, clean], timeout=1800)
        r2, o2 = sh(['bash', bs, bad], timeout=1800)
        meta['demo_on_unchanged_tree'] = {'exit': r1, 'tail': o1[-300:]}
        meta['demo_with_change'] = {'exit': r2, 'tail': o2[-300:]}
        meta['ran'].append('sh build.sh <pristine export of /repo HEAD>  -> exit %d' % r1)
        meta['ran'].append('sh build.sh <export with patch.diff applied> -> exit %d' % r2)
        print('demo: unchanged exit=%d, with change exit=%d' % (r1, r2))
    finally:
        shutil.rmtree(tmp, ignore_errors=True)
    # pinned suite, built by this script from a patched export of /repo HEAD (never the agent's build)
    tb = tempfile.mkdtemp(prefix='celma-seedtest.')
    try:
        sh('git -C /repo archive HEAD | tar -x -C %s' % tb)
        rc, out = sh(['git', 'apply', patch], cwd=tb)
        if rc != 0:
            rc, out = sh('patch -p1 < %s' % patch, cwd=tb)
        meta['patched_export_ok'] = rc == 0
        sh(['cmake', '-G', 'Ninja', '-S', tb, '-B', os.path.join(tb, '_b')])
        rc, out = sh(['cmake', '--build', os.path.join(tb, '_b'), '-j16', '--target'] + TESTS.split('|'), timeout=3600)
        meta['pinned_targets_build_rc'] = rc
        rc, out = sh(['ctest', '--test-dir', os.path.join(tb, '_b'), '-j8', '--timeout', '900', '-R',
                      '^(%s)$' % TESTS], timeout=3600)
        tail = [l for l in out.splitlines() if 'tests passed' in l or 'tests failed' in l]
        meta['pinned_suite_with_change'] = tail[-1] if tail else 'rc=%d' % rc
        meta['ran'].append('cmake+ninja build of the 42 pinned test targets from an export of /repo HEAD with the '
                           'patch applied; ctest -> ' + meta['pinned_suite_with_change'])
        print('pinned suite with change: build rc=%s, %s' % (meta['pinned_targets_build_rc'],
                                                             meta['pinned_suite_with_change']))
        # the library units must still compile with the change
        units = subprocess.check_output(
            "find %s/src/library -name '*.cpp' -not -path '*/test*' | grep -v print_version_info" % tb,
            shell=True, text=True).split()
        rc, out = sh('printf "%%s\n" %s | xargs -P16 -n4 g++ -std=gnu++17 -I%s/src -fsyntax-only -w' % (
            ' '.join(units), tb), timeout=3600)
        meta['library_units_compile'] = rc == 0
        print('library units compile with change:', rc == 0)
    finally:
        shutil.rmtree(tb, ignore_errors=True)
    # my checks against a scratch copy of /repo's sources with the patch applied (CELMA_REPO): the same analysis as
    # `git -C /repo apply`, without ever leaving /repo modified (other runs may be reading it at the same time)
    caught = {}
    scratch = tempfile.mkdtemp(prefix='celma-intake.')
    try:
        shutil.copytree('/repo/src', os.path.join(scratch, 'src'))
        rc, out = sh(['patch', '-p1', '-s', '-d', scratch, '-i', patch])
        if rc == 0:
            env = dict(os.environ)
            env['CELMA_REPO'] = scratch
            env['VERIF_EVIDENCE_DIR'] = os.path.join(scratch, 'evidence')
            env['VERIF_REPORT_DIR'] = os.path.join(scratch, 'reports')
            for c in checks:
                r, o = sh([os.path.join(VERIF, 'bin', 'check'), c], env=env)
                fails = [l.strip()[:220] for l in o.splitlines() if l.strip().startswith('FAILED ')]
                caught[c] = {'exit': r, 'failed': fails[:6]}
                print('check %s: exit %d %s' % (c, r, fails[:2]))
        else:
            print('patch does not apply to the scratch copy: ' + out[-300:])
    finally:
        shutil.rmtree(scratch, ignore_errors=True)
    meta['checks_against_change'] = caught
    meta['ran'].append('scratch copy of /repo/src + patch.diff; CELMA_REPO=<copy> bin/check %s' % ' '.join(checks))
    old = {}
    mp = os.path.join(dst, 'meta.json')
    if os.path.exists(mp):
        old = json.load(open(mp))
    for k in ('breaks', 'needs'):
        if k in old:
            meta[k] = old[k]
    with open(mp, 'w') as fh:
        json.dump(meta, fh, indent=1)
    return 0


if __name__ == '__main__':
    sys.exit(main())
