#!/usr/bin/env python3
"""Writes the task text for an independent seeding sub-agent: only the text of one property, a scratch
worktree and the build/test commands - nothing from /verif.

usage: selftest/seed_prompt.py <property> <worktree> [<out file>]
Already collected seeds of the property are mentioned in one line each (what they changed), so that a further
tester produces something different in kind and place."""
import json
import os
import sys

VERIF = os.path.dirname(os.path.dirname(os.path.abspath(__file__)))
TESTS = open(os.path.join(VERIF, 'bin', 'baseline')).read().split("TESTS='")[1].split("'")[0].replace('|', ' ').split()

HEAD = '''You are testing a C++17 library (Gemini67/Celma: typed command-line argument handler, logging, fixed strings, dynamic bitset, formatting helpers). You work ONLY inside your own scratch git worktree: {wt} (a worktree of the repository; never touch /repo or /verif, never read /verif).

Below is one semantic PROPERTY of the library that is supposed to hold. Your job: produce ONE realistic source change (a plausible bug a maintainer could introduce: an off-by-one, a dropped call on one path, a wrong condition, a reordered statement, a copy-paste slip between sibling implementations, two cooperating edits that each look fine alone ...) to the library sources under {wt}/src (NOT under any test/ directory) such that

 1. the library sources still compile, and the existing pinned test suite still passes (commands below);
 2. the property is BROKEN by the change; and
 3. the breakage needs something specific to manifest - a particular interleaving, a multi-step sequence of operations, an unusual input, a particular configuration or definition order, or two cooperating sites - NOT something ordinary use would expose at once.
{avoid}
Also write a DEMONSTRATION: a small stand-alone C++ program (or script) demo.cpp that exits non-zero / prints FAIL with your change applied and exits 0 / prints PASS on the unchanged tree. The shared library cannot be linked at this commit (a generated header is missing), so compile the needed library .cpp files directly into the demo, e.g.
   g++ -std=gnu++17 -I {wt}/src demo.cpp $(ls {wt}/src/library/prog_args/*.cpp {wt}/src/library/prog_args/detail/*.cpp {wt}/src/library/appl/*.cpp {wt}/src/library/common/*.cpp {wt}/src/library/common/detail/*.cpp {wt}/src/library/format/*.cpp {wt}/src/library/format/detail/*.cpp {wt}/src/library/container/*.cpp {wt}/src/library/container/detail/*.cpp | grep -v print_version_info) -lboost_filesystem -lboost_system -lpthread -o demo
(add the log units if you need them; headers-only components need no library units at all).

How to run the existing pinned test suite on your worktree (must still pass, 42 tests):
   cmake -G Ninja -S {wt} -B {wt}/_build >/dev/null 2>&1
   cmake --build {wt}/_build -j8 --target {targets} >/dev/null 2>&1   # build exactly the pinned test targets (the shared library itself cannot be built at this commit)
   # additionally make sure every library unit still compiles:  find {wt}/src/library -name '*.cpp' -not -path '*/test*' | grep -v print_version_info | xargs -P8 -n4 g++ -std=gnu++17 -I{wt}/src -fsyntax-only -w
   ctest --test-dir {wt}/_build -j8 --timeout 900 -R '^({regex})$'
(Do not edit any test.)

Deliverables - write them into the directory {wt}/_seed/ :
   patch.diff   output of `git -C {wt} diff -- src` (your change only; it must apply to the unchanged tree with `git apply`)
   demo.cpp     (plus build.sh: the exact commands to build and run the demo against a source tree given as $1, printing PASS or FAIL and exiting 0/1)
   notes.md     which clause of the property breaks, why ordinary use / the existing tests do not notice, what exactly is needed to manifest it, and the commands you ran with their results (test suite with the change: all 42 pass; demo without change: PASS; demo with change: FAIL)
Verify all of that yourself before you finish. Do NOT use 'git stash' (the stash is shared between all worktrees of the repository); to test the unchanged tree use 'git apply -R' or a 'git archive' export. Prefer a subtle change over a blunt one; do not just delete a whole feature. Make exactly one seeded change (it may touch two cooperating places). When done, reply with a 5-line summary.

PROPERTY
========
'''


def main():
    pid, wt = sys.argv[1], sys.argv[2]
    out = sys.argv[3] if len(sys.argv) > 3 else '/dev/stdout'
    props = {json.loads(l)['id']: json.loads(l) for l in open(os.path.join(VERIF, 'properties.jsonl'))}
    p = props[pid]
    a = p['anchors']
    body = 'Property %s: %s\n\nStatement: %s\n\nQuantified over: %s\n\nWhy tests cannot settle it: %s\n\nAnchors (files): %s\nMechanisms: %s\n' % (
        pid, p['title'], p['statement'], p['quantifier']['text'], p['why_tests_cant'], ', '.join(a['files']),
        '; '.join('%s @ %s' % (m['name'], m['where']) for m in a.get('mechanism', [])))
    known = []
    sd = os.path.join(VERIF, 'seeded')
    for d in sorted(os.listdir(sd)):
        if d.startswith(pid + '-'):
            try:
                known.append(json.load(open(os.path.join(sd, d, 'meta.json'))).get('breaks', ''))
            except (OSError, ValueError):
                pass
    avoid = ''
    if known:
        avoid = '\nOther testers already produced the following changes for this property; produce something DIFFERENT in kind and in place (another function, another clause of the property):\n' + \
            ''.join('   - %s\n' % k for k in known if k)
    with open(out, 'w') as fh:
        fh.write(HEAD.format(wt=wt, targets=' '.join(TESTS), regex='|'.join(TESTS), avoid=avoid) + body)


if __name__ == '__main__':
    main()
