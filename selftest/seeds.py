#!/usr/bin/env python3
"""Regression over the seeded breaking changes kept under /verif/seeded: every patch is applied to a scratch copy
of /repo/src (never to /repo itself) and the checks recorded as relevant for it are run against that copy; at
least one of them must report a violation (exit 1).

usage: selftest/seeds.py [-k substring] [-j N]
"""
import argparse
import glob
import json
import os
import shutil
import subprocess
import sys
import tempfile

VERIF = os.path.dirname(os.path.dirname(os.path.abspath(__file__)))
RECORD = False


def run_seed(sid):
    d = os.path.join(VERIF, 'seeded', sid)
    meta = json.load(open(os.path.join(d, 'meta.json')))
    props = list((meta.get('checks_against_change') or {}).keys()) or [meta.get('property') or sid.split('-')[0]]
    own = sid.split('-')[0]
    if own not in props:
        props.append(own)
    tmp = tempfile.mkdtemp(prefix='celma-seed.')
    try:
        shutil.copytree('/repo/src', os.path.join(tmp, 'src'))
        p = subprocess.run(['patch', '-p1', '-s', '-d', tmp, '-i', os.path.join(d, 'patch.diff')],
                           stdout=subprocess.PIPE, stderr=subprocess.STDOUT, text=True)
        if p.returncode != 0:
            return 'BROKEN', 'patch does not apply: ' + p.stdout[-300:]
        res = {}
        for prop in props:
            env = dict(os.environ)
            env['CELMA_REPO'] = tmp
            env['VERIF_EVIDENCE_DIR'] = os.path.join(tmp, 'evidence')
            env['VERIF_REPORT_DIR'] = os.path.join(tmp, 'reports')
            q = subprocess.run([os.path.join(VERIF, 'bin', 'check'), prop], env=env, stdout=subprocess.PIPE,
                               stderr=subprocess.STDOUT, text=True)
            fails = [l.strip()[:150] for l in q.stdout.splitlines() if l.strip().startswith('FAILED')]
            res[prop] = (q.returncode, fails[:1])
            if RECORD:
                full = [l.strip()[:260] for l in q.stdout.splitlines() if l.strip().startswith('FAILED')]
                meta.setdefault('checks_after_strengthening', {})[prop] = {'exit': q.returncode, 'failed': full[:6]}
        if RECORD:
            with open(os.path.join(d, 'meta.json'), 'w') as fh:
                json.dump(meta, fh, indent=1)
        if meta.get('accepted_exit') == 2 and all(rc == 2 for rc, _ in res.values()):
            # a documented limit of the analysis: the check refuses to decide (exit 2), it does not pass the change
            return 'ok', 'exit 2 (documented limit: %s)' % meta.get('limit', '')[:120]
        caught = [p_ for p_, (rc, _) in res.items() if rc == 1]
        broken = [p_ for p_, (rc, _) in res.items() if rc == 2]
        if caught:
            first = res[caught[0]][1]
            return 'ok', 'caught by %s%s - %s' % ('/'.join(caught), ' (exit 2: %s)' % broken if broken else '',
                                                  first[0] if first else '')
        return 'MISSED', 'exit codes %s' % {k: v[0] for k, v in res.items()}
    finally:
        shutil.rmtree(tmp, ignore_errors=True)


def main():
    ap = argparse.ArgumentParser()
    ap.add_argument('-k', default='')
    ap.add_argument('-j', type=int, default=6)
    ap.add_argument('--record', action='store_true', help='store the result in meta.json (checks_after_strengthening)')
    a = ap.parse_args()
    global RECORD
    RECORD = a.record
    sids = sorted(os.path.basename(os.path.dirname(p)) for p in glob.glob(os.path.join(VERIF, 'seeded', '*', 'meta.json')))
    sids = [s for s in sids if a.k in s]
    from concurrent.futures import ThreadPoolExecutor
    with ThreadPoolExecutor(max_workers=a.j) as ex:
        results = list(ex.map(run_seed, sids))
    bad = 0
    for s, (st, msg) in zip(sids, results):
        print('%-7s %-7s %s' % (st, s, msg))
        bad += st != 'ok'
    print('%d seeds, %d not caught' % (len(sids), bad))
    return 1 if bad else 0


if __name__ == '__main__':
    sys.exit(main())
