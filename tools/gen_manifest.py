#!/usr/bin/env python3
"""Regenerates /verif/MANIFEST.json from the table below (keeps it valid and
consistent: every property is either claimed or listed under not_applicable)."""
import json
import os

VERIF = os.path.dirname(os.path.dirname(os.path.abspath(__file__)))

ENGINES = [
    {"name": "celma-facts", "path": "tools/celma-facts.cc",
     "kind_free_text": "clang-14 libTooling extractor: typed mini-AST, clang::CFG, class/enum/static-storage facts, one JSON per unit"},
    {"name": "engine A (cfg.py)", "path": "cv/cfg.py",
     "kind_free_text": "path rules: must-pass-through, dominance, edge guards, call-graph closure through resolved callees"},
    {"name": "engine B (boolshape.py)", "path": "cv/boolshape.py",
     "kind_free_text": "truth tables of comparison/boolean predicates over all orderings of their atoms"},
    {"name": "engine C (lin.py, bounds.py)", "path": "cv/lin.py",
     "kind_free_text": "linear-inequality abstract interpretation (Fourier-Motzkin entailment) for buffer-bounds obligations"},
    {"name": "engine D (digits.py)", "path": "cv/digits.py",
     "kind_free_text": "interval partition + partial evaluation of the int2string decision trees and switches"},
    {"name": "engine E (effects.py)", "path": "cv/effects.py",
     "kind_free_text": "static-storage effect analysis: read/write classification, lockset by dominance"},
]

# property id -> dict(level, text, note, technique, engine, design)
CLAIMS = {
    "C01": dict(
        level="other", engine="engine A (cfg.py)",
        text="Store discipline every spelling funnels into, decided for every argument class instantiated by the "
             "driver (all destination kinds): effect facts show that only assign() (and helpers called only from it) "
             "writes through a destination reference, so unused arguments leave their variables alone; def-use of every "
             "store shows it is boost::lexical_cast<destination type> of the incoming value or of its formatted copy, "
             "formatters run before the conversion; who-may-call shows a single funnel into assign(); lookup structure "
             "shared with C05. Of the tokeniser two clauses are decided: the one-step 'rest of the word is the value' request "
             "is cleared on every exit of operator++, and '--key=value' is split at the FIRST '=' (family of the search "
             "in determineNextArg), the key handed on is exactly the text in front of that '=' and the value starts at the "
             "character right behind it (Engine C over operator++ from every case of the cursor invariant, for every "
             "word); the pairing of a key with the following word or the glued rest of its word is decided by an exhaustive "
             "table over value mode x what follows (Engine B, shared with C02-R12); the tokeniser's decision when the rest of "
             "a word is a value is evaluated for every combination of its inputs (after '--key=' always, a requested "
             "value only inside a word; a word is a control element only if it IS one of '(' ')' '!' (table over word length x first character) - whatever character the rest starts with, so that a glued negative value is a value, and whether or not '--' was seen); a stored value is also reported as given (hasValue); the stored value never depends on the previous content of the destination; the key algebra (operator== / mismatch truth tables, shared with C05-R3). The full equivalence of all command-line spellings (tokenisation by the "
             "ArgListIterator state machine) is a relation over an exponential input space and is NOT decided.",
        note="trusts clang AST/CFG, boost::lexical_cast; spelling equivalence not covered",
        technique="static analysis: who-may-write effect facts, def-use of stores, who-may-call"),
    "C02": dict(
        level="other", engine="engine A (cfg.py)",
        text="Every declared rule is shown to have an enforcing call on every CFG path to a successful return: "
             "must-pass-through of the four end checks in Handler::evalArguments, dominance of the constraint "
             "notifications over assignValue (with the argument's canonical key), check() on every path / in every "
             "tokenizer-loop iteration of all 45 value-taking assign() instantiations (closed under wrappers), "
             "unknown-element and missing-value paths end in throw, cardinality counted before every command-line "
             "assignment, the ignore_cardinality argument of every assignValue() call in the handler evaluates to false "
             "in read mode commandLine, the end checks of value constraints compare every argument of the constraint; the "
             "pairing of a key with its value is evaluated abstractly for every value mode x {nothing, value, key} "
             "following (required without value throws, optional never takes a glued rest, 'command' ends the "
             "evaluation). "
             "Requires/excludes entries carry the kind they were defined with (ConstraintRequires / ConstraintExcludes pass the kind they are named after); a handler constraint is registered only after validated(); a tuple value is converted to the type of the element it belongs to (element index = member counter of the values stored so far); the disjoint constraint is decided for values in any order (an adapter of an unsorted container never reaches a merge-shaped helper without an is_sorted() guard); argument and handler constraints are activated on every use of an argument; handler constraint lists hold the complete keys of the arguments they name; the pattern check matches the whole value (regex_match). Path rules quantify over all command lines because they quantify over all paths.",
        note="trusts clang AST/CFG and the extractor; exceptions are the only failure channel; value conversion "
             "itself (boost::lexical_cast) and regex/file-system check semantics are not decided",
        technique="static analysis: CFG must-pass-through / dominance / sibling agreement over resolved calls"),
    "C03": dict(
        level="other", engine="engine A (cfg.py)",
        text="Three structural necessary conditions of 'no false rejection', each for all inputs: exact-match-wins "
             "shape of ArgumentContainer::findArg (no exit from the search loop before every argument was compared "
             "exactly), accept-side truth tables of all bound checks/cardinalities over every ordering (Engine B), "
             "abstract evaluation of the ignore_cardinality argument for every read mode plus RAII read-mode flags "
             "alive around iterateArguments, every call of ICardinality::gotValue() in the library control-dependent "
             "on that information (the parameter in assignValue, a member set from it in the list loops of the "
             "multi-value destinations), canonical key for constraint matching, every successful assign() makes hasValue() "
             "true (mandatory check), value constraints relate only values that "
             "were given (compareValue() reachable only through hasValue()-true edges of both arguments); the complete key of a sub-group argument is not pre-empted by a normal argument it abbreviates (lookup table over both key containers, shared with C05-R5); the repeatable built-in arguments (end-of-values marker, listing arguments) are defined without upper cardinality; the cursor invariant of the tokeniser (every word is analysed from its first character, shared with C04-R6); after a sub-group argument the main handler continues with the first word the sub-group handler did not consume (table over words x consumed words); the value-list check compares with every listed value (no early exit) and refuses exactly the values that are not listed. The general statement is not "
             "decidable statically and is not claimed.",
        note="trusts clang AST/CFG; boost::lexical_cast converts every representable value; interaction of arbitrary "
             "checks/formats/constraints is not decided", also=("engine B (boolshape.py)",),
        technique="static analysis: CFG loop-exit shape rule + exhaustive truth tables over orderings"),
    "C04": dict(
        level="other", engine="engine C (lin.py, bounds.py)",
        text="Memory-safety clauses that are visible in the code shape, decided for all inputs: Engine C proves the "
             "capacity of every strcpy destination in the library (program-name copies, generated argv words), every "
             "index into the generated argv array (range-for with ghost iteration counter and lock-step argc) and "
             "every write into fixed-size destinations (T[N], std::array, std::bitset, vector<bool> incl. growth and "
             "max_size guard); AST rules decide new[]/delete[]/unique_ptr form agreement and that every pointer stored into "
             "the delete[]-released argv storage comes from new[]; a call-graph rule shows "
             "that only std::exception-derived types are thrown from the evaluation entry points, no re-throw "
             "outside a handler, no throw in noexcept functions (positive control analysed on every run); callables that outlive their creating function (handed to a "
             "new-expression, returned, stored in a member) capture no local or by-value parameter by reference. The cursor of "
             "detail::ArgListIterator is decided by an inductive four-case invariant relating word index and "
             "character position to argc and the symbolic per-word lengths (constructor establishes it, operator++ "
             "preserves it from every case, nested step by assume-guarantee), with a bounds obligation on every "
             "argv[ i] and word[ j] for all argument vectors. Termination is decided for the one kind of loop whose bound is "
             "outside the program: a loop driven by a stream read must end at the first failed read (end of file or "
             "error), and for the element loop over an argument vector: every step of the argument iterator is proved to move "
             "the cursor forward (word index, then character position; the nested step on a lone '--' by induction). "
             "Termination of the remaining loops is NOT decided. Downcast provenance: every pointer that a Handler member static_casts to the sub-group argument class comes, on every reaching definition, out of the container that only receives sub-group objects (or is null); container.erase( it) with the iterator of a search only over an edge on which it != end() is known; a noexcept repository function calls (outside try) no repository function from which an exception can escape; smart-pointer members of the argument handling are held by value (shared objects stay alive under their writers); the nesting of argument files is bounded (readArgumentFile() tests a member it updates before it evaluates a line, and throws); a moved-from object gives up the array it owned.",
        note="trusted base: clang front end, extractor, cv/lin.py + cv/bounds.py and its models of "
             "strlen/strcpy/new[]/std::vector/std::string; argc >= 1, argv words are C strings shorter than 2 GiB, "
             "argv[argc] is null",
        also=("engine A (cfg.py)",),
        technique="static analysis: relational abstract interpretation for buffer capacities + AST/call-graph rules"),
    "C05": dict(
        level="other", engine="engine A (cfg.py)",
        text="Add-time refusal and lookup structure decided on the CFG of every Storage<>::addArgument instantiation "
             "and of ArgumentContainer::findArg (per-iteration must-pass-through of == and mismatch(), positive "
             "comparison ends in throw, store unreachable without the loop, exact match wins regardless of order, "
             "prefix match only with abbreviations enabled, ambiguity throws) plus exhaustive truth tables of "
             "ArgumentKey::operator== / mismatch() over all combinations of empty/equal/different short and long keys; "
             "ArgumentKey::startsWith() is proved to be exactly the non-empty-prefix predicate for all key texts from "
             "the meaning of the std::string operation its result is based on (compare of the whole other word "
             "against the first n characters / find(...) == 0 / rfind( ..., 0) == 0; observation facts of Engine C). "
             "The key containers of a handler (normal and sub-group arguments) form one key space: every addition is "
             "checked against the other container, and the lookup in Handler::processArg is evaluated abstractly for "
             "EVERY combination of what the two containers hold for the key (nothing / the exact key / one / several "
             "abbreviation matches) against the contract of the container lookups: an exact key always selects its "
             "own argument, one abbreviation match in total selects it, none is unknown, more than one throws. Key parsing: the string constructor of ArgumentKey removes exactly the "
             "leading dashes (at most two) for every specification text (Engine C with symbolic characters); in the two-part form the short key is the character of the part that the guarding condition knows to be one character long and the long key is the other part; every comparison of the add-time check and of the lookups relates the stored entry with the given key (no self-comparison, prefix test in the right direction) and the lookups hand out the examined entry.",
        note="trusts clang AST/CFG and the documented meaning of std::string::compare/find/rfind/substr; the comma "
             "form of key specifications is not decided",
        also=("engine B (boolshape.py)", "engine C (lin.py, bounds.py)"),
        technique="static analysis: CFG path rules + exhaustive truth table of the key algebra"),
    "C06": dict(
        level="other", engine="engine A (cfg.py)",
        text="Sibling agreement over all list-splitting assign() instantiations (sequence, set, queue/stack, key-value, "
             "C array, std::array, tuple, bitset, vector<bool>, DynamicBitset): the order clear (once, flag reset) -> "
             "(check -> format -> convert -> duplicate test -> add)* -> sort (after the loop, if requested) is decided by "
             "reachability inside one iteration of the loop CFG; the trait constants of every ContainerAdapter "
             "specialisation are compared with the shape of its sort()/contains()/addValue()/clear(); the four key-value adapters insert the pair ( key, value) and touch the destination in no other way (earlier content stays, siblings agree); membership tests compare with the end marker and search the given value; the sort of a fixed-size destination covers exactly [0, fill counter); the observers of an adapter (contains / hasIntersection / toString) modify no destination; the tuple element is selected by the number of values stored so far; capacity and growth "
             "of fixed-size destinations by Engine C; duplicate test over the filled prefix; routing of free values by "
             "guards. Equality of the final container with the fold over all cuts is not decided.",
        note="trusts clang AST/CFG; standard containers and boost::tokenizer behave as documented",
        also=("engine C (lin.py, bounds.py)",),
        technique="static analysis: sibling agreement on per-iteration CFG order, trait/method agreement, relational bounds"),
    "C07": dict(
        level="other", engine="engine B (boolshape.py)",
        text="Same-path rules (must-pass-through, who-may-call, dominance) show that file, environment and string "
             "sources are split by make_arg_array() and evaluated by the one iterateArguments()/evalSingleArgument() "
             "evaluator under a scoped read-mode flag; the scanner loop of splitString() is interpreted as a finite-state "
             "transducer over the character classes {backslash, ', \", blank, other} (whatever local scalars it keeps, "
             "no names assumed) and explored in lock-step with a reference splitter from the initial state: every "
             "reachable pair of states must produce the same output events for every class - a bisimulation that is "
             "valid for all strings and from which split(join(escape(ws))) == ws follows for backslash escaping; a "
             "difference is reported with the shortest character-class sequence leading to it; argv capacity by Engine C; "
             "a who-may-write rule shows that the pairing state of the handler (the argument whose value list is open) "
             "is written by no function that runs once per chunk of words, so a value list continues across file "
             "lines / environment / argv exactly as across argv words; the line loop of the argument file runs for every "
             "line the read delivers (incl. an unterminated last line); the sub-group handler a word is dispatched to "
             "evaluates it in the read mode of the dispatching handler; both constructors of ArgString2Array hand the word list of the splitter to the argv array unmodified (no word removed, added or rewritten); the value stored into a scalar destination never depends on its previous content (a flag stores the configured value: a flag from a file given again on the command line stays set); the environment variable that is read is the one the application named (the name is derived / upper-cased only when none was set); the lines of an argument file reach the splitter unmodified. Other quoting disciplines and "
             "value equality between sources are not decided.",
        note="trusts clang AST/CFG; std::string append/clear semantics; round trip claimed for backslash escaping only",
        also=("engine A (cfg.py)", "engine C (lin.py, bounds.py)"),
        technique="static analysis: product-automaton exploration (bisimulation) of the scanner against a reference transducer + CFG path rules"),
    "C08": dict(
        level="other", engine="engine A (cfg.py)",
        text="Sibling agreement between group evaluation and stand-alone evaluation: per-member must-pass-through "
             "of the same four end checks in Groups::evalArguments, dispatch-loop shape (unknown -> next member -> "
             "exception), cross-handler key check on every path that adds an argument, all four container pairs "
             "compared with == and mismatch(); the flag word Groups hands to new member handlers contains hfInGroup "
             "from the constructor on and no update clears the bit (every write evaluated over all combinations of "
             "the flag bits it mentions), so every member runs the cross-handler key check. Per-word agreement with a "
             "single handler is decided by exhaustive tables: the whole word loop of Groups::evalArguments (helpers "
             "inlined, members replaced by the contract of Handler::evalSingleArgument) is evaluated abstractly for two "
             "members over scripted word sequences - T1 which member handles a long key for every combination of "
             "(nothing / the exact key / one / several abbreviation matches) per member (exact key wins, one "
             "abbreviation in total is used, none or several end in an exception), T2 a key ends the open value list "
             "of every member, T3 result 'last' ends the evaluation, T4 '!' inverts the next argument of whichever "
             "member owns it and nothing stays armed (T4 reports an open, recorded finding: the present behaviour is "
             "codified by an unpinned in-tree test, see known_findings.json), T5 a value word continues the open value list of whichever member before any positional argument is tried, T6 no value list stays open when the evaluation ends (scope guard or reset on every normal path). Both comparisons of checkArgMix() relate a key of the own container with a key of the other one.",
        note="trusts clang AST/CFG; per-member identification rules are those of C02; value equality between the "
             "two evaluation paths is not decided",
        technique="static analysis: sibling agreement + per-iteration must-pass-through on the CFG + exhaustive "
                  "abstract evaluation of the dispatch (engine B)", also=("engine B (boolshape.py)",)),
    "C09": dict(
        level="other", engine="engine E (effects.py)",
        text="Whole-library effect analysis: every function reachable from the argument-handler API (resolved call "
             "graph incl. virtual overriders and lambdas, all destination kinds instantiated by a driver) is shown to "
             "touch no written, mutable object with static storage duration unless a lock on a static mutex is held; "
             "no non-reentrant libc call; per-handler constraint container; no function-local static on those paths is "
             "initialised from a parameter, a local or the object (a process-wide memo of the first caller's data "
             "is not a race but breaks 'as if alone'); every call from a Handler member into the process-wide group registry is guarded by the membership flag (three frozen, reasoned exceptions); no function that sets process-wide state (locale, environment, working directory, handlers) on handler paths; no function-local static (smart) pointer to a non-const object is handed out; no written process-wide object on handler paths at all, lock-protected or not. Holds for every schedule because it is a "
             "statement about all paths of all reachable functions; it does not execute interleavings.",
        note="trusts clang AST/CFG, the extractor, thread-safety of boost/libstdc++ internals; std::function targets "
             "supplied by users are outside the claim",
        technique="static analysis: static-storage effect inventory + lockset by dominance over the call-graph closure"),
    "C12": dict(
        level="other", engine="engine C (lin.py, bounds.py)",
        text="Linear-inequality abstract interpretation of every member of DynamicBitset and of its four iterator "
             "instantiations (constructors and base constructors inlined): std::vector<bool> is modelled by its "
             "size; every mData[i] carries the obligation 0 <= i < size() under the path condition (guards, resize "
             "incl. the (pos+1)*1.5 growth, loop conditions, inductive counter bounds); unsigned subtraction is linear "
             "only if it provably does not wrap, wrapped values feeding loop variables are reported; the iterator "
             "position invariant -1 <= pos <= size and the search-loop invariants are proved inductively; "
             "begin()/rbegin()/++/-- must not reach a throw (so an empty or all-zero bitset is iterated without "
             "exception). Positions are covered over the full size_t range (beyond max_size(): std::length_error), shift "
             "distances below 2^62; << / <<= and >> / >>= are proved to yield the same size for every operand. The "
             "summarising observers are decided against the reference bit vector: polarity of the std::find/"
             "std::count definitions of all/any/none/count, visit-all proofs for to_ulong (start 0, step 1, ends only "
             "at size(), overflow exception only for a set position >= 64, shift distance < 64) and to_string "
             "(size() characters, a set bit i stores `one` at size()-1-i). The mutating operators (set, flip, reset, resize, "
             "set/reset/flip( pos), the growing operator[], operator= from a vector (copy and move), &=, |=, ^=, the "
             "binary &, |, ^ (same specification as their compound counterparts), ~, <<, <<=, >>, >>=) are decided bit by bit: "
             "a bit-level content model of std::vector<bool> (element reads are bit expressions, element writes / "
             "resize / flip / copies are log entries, element-wise loops are summarised into one entry after proving "
             "that no iteration reads what an earlier one wrote) lets the bit at a symbolic position of the result "
             "be resolved and compared with the reference bit vector for every operand, size and shift distance. "
             "Iteration order: forward()/reverse() of the iterator base are proved to move to the NEXT set position "
             "(each step tests exactly the neighbouring position, continues only over a clear bit inside the set, stops "
             "only at a set bit or the end marker) and operator++/-- of both iterator kinds step through them (prefix forms return the stepped iterator, postfix forms a copy of *this taken before the step on every path); the member templates taking a std::bitset copy every element in every iteration; every "
             "begin()/cbegin()/rbegin()/crbegin() overload is executed symbolically against that contract: the candidates "
             "examined start at position 0 resp. size() - 1 on every path.",
        note="trusted base: clang front end, extractor, cv/lin.py + cv/bounds.py, the size model of std::vector<bool>, "
             "std::find/std::count semantics; shift distances < 2^62 assumed",
        technique="static analysis: relational (linear inequality) abstract interpretation, inductive loop/iterator invariants"),
    "C13": dict(
        level="proof", engine="engine D (digits.py)",
        text="Proof over all values of all eight integer types by exhaustive abstract evaluation of the source: "
             "interval partition of the four digit-count decision trees over the complete unsigned range (P1), "
             "partial evaluation of all 32 conversion wrappers with the inlined fall-through switch for every "
             "possible digit count, the numeric value kept symbolic as a digit stream, yielding the exact cell "
             "layout, NUL index, returned length and absence of stray writes (P2), negation in the same-width "
             "unsigned type and dispatcher selection by sign and sizeof (P3). 542 obligations, all discharged; "
             "covers all 2^64 64-bit values, which no enumeration reaches. A division by 10 written as reciprocal multiplication and shift is decided exactly per digit-count class (exact for the class or refuted with a counter example); the conversion units hold no non-const function-local static and no state change inside assert().",
        text_extra=" The inverse conversion stringTo<T>() is decided by a table rule: every integral specialisation parses with a std::sto* function whose result range covers T.",
        note="trusted base: clang front end, the extractor and the symbolic interpreter cv/digits.py; -INT_MIN "
             "wrap-around as produced by the repository's compilers; the text-to-value direction (std::strto*) "
             "is not decided",
        technique="static analysis: interval partition + partial evaluation (symbolic digit stream) of the AST"),
    "C14": dict(
        level="other", engine="engine A (cfg.py)",
        text="Structural and truth-table rules over the log filter and routing code: capacity of containers indexed "
             "by a cast enumerator vs. the largest enumerator, exhaustive truth tables of the three level filters and "
             "of pass() vs. processLevel() (pre-check soundness), switch/enumerator agreement of the pre-check, loop "
             "shapes of Filters::pass (conjunction), Logging::log, Log::message, ILogDest::handleMessage "
             "(exactly-once delivery under the filters), completeness/distinctness of the class and level name "
             "tables, single-writer and no-reset rules for the duplicate policy; the class-list filter sets exactly the bit "
             "of every class it names and pass() returns exactly the bit of the message's class; a level filter whose verdict does not depend on the message level / the configured level is a violation; the macro pre-check (discard_by_level) asks Filters::processLevel of the log or a sound refinement (no discard from inside the loop over the destinations); removing a destination removes exactly the named one (single-element erase or erase-remove idiom); logs are looked up by the exact name (comparisons inside generic lambdas are not visible: analysis-broken); every filter setter reaches the duplicate policy (checkSetFilter) on every normal path.",
        note="trusts clang AST/CFG; the full (level x class x filter-history) table as executed is not decided",
        also=("engine B (boolshape.py)", "engine E (effects.py)"),
        technique="static analysis: enum-capacity facts, truth tables over orderings, CFG loop-shape rules"),
    "C15": dict(
        level="other", engine="engine A (cfg.py)",
        text="Necessary structural conditions of the rolling-file policies (not the history behaviour): the "
             "constant-folded open mode of every mFile.open() is non-truncating; every counter that written() updates "
             "and writeCheck() reads is reassigned on the open path; the byte accounting of written()/writeCheck(), "
             "evaluated abstractly, equals the operands writeMessage() streams (text + terminator); "
             "check -> write -> account and close -> roll -> open orderings by dominance; after every rollFiles() call "
             "openCheck() sees the new file before the function returns; roll loops shift "
             "generation n-1 to n with n descending; files::Handler<P, L>::message() holds a named lock guard on its lock "
             "member around writeMessage(); filename::Builder renders the generation number completely and unmodified (every generation has its own name); the OS file layer passes rename / remove to the C library unconditionally with the arguments in place; the text written for a message is formatted into a stream of its own. Breaking any of these breaks the property for some history; "
             "histories, restarts and crash points themselves are not decided.",
        note="trusts clang AST/CFG and constant folding; libstdc++ openmode bit values; std::endl writes one byte",
        also=("engine B (boolshape.py)",),
        technique="static analysis: constant-folded open modes, field effect facts, abstract evaluation of the accounting, CFG dominance"),
    "C16": dict(
        level="other", engine="engine A (cfg.py)",
        text="Structural rules over the renderer and the format builder (the rendered text itself is not decided): "
             "exhaustiveness of the field-kind switch against the enum, a frozen 16-row table field kind -> LogMsg "
             "getter and default date/time format, single funnel into append() with the field definition, width and "
             "alignment applied in one place, pending options consumed in addField() on every path, separator guard, "
             "attribute lookup order by dominance and guard (message attributes through the parent chain of the attribute "
             "object, own value before the parent's, before global ones), newest-first search, Logging's global add/remove "
             "forward all parameters to the container, add/remove pairing of scoped "
             "attributes, use of the strftime() result; the LogMsg getters the renderer reads return one stored member each, unchanged (and the member their setter writes), the three time getters are computed from the one stored time point by truncating conversions only (a rounding conversion makes seconds and sub-second fields describe different instants); no function-local static in the log units memoises data of the first message; width, alignment and format string travel from the builder to the field definition without implicit narrowing.",
        note="trusts clang AST/CFG; iostream manipulators and strftime behave as documented; the field-kind table is "
             "frozen in the checker (a new field kind fails the check until the table is extended)",
        technique="static analysis: switch/enum exhaustiveness, who-reads-what table, CFG must-pass-through and guards"),
    "C17": dict(
        level="other", engine="engine A (cfg.py)",
        text="Path counting over the CFG of one iteration of the word loop of TextBlock::formatLine: the set of "
             "emission counts of the current token over all paths is {1} ({0} on the forced-break path), the token is "
             "only streamed/compared/measured (no buffering or reordering), the loop has no early exit; stream-chain "
             "rule 'after every line break the next output on every path is the indentation' (a blank string member built as string( n, \' \'), or a helper that writes exactly that once on every path; padding of an empty string via setw() is reported unless the expression fixes the fill character to a blank), guard of the first-line indentation, "
             "tokenizer separators. Decides the no-loss/no-duplication/order and indentation clauses for all texts; "
             "the usage printer lays its key column out for exactly the arguments it prints (doPrint() arguments, shared with C18-R5); "
             "words are never merged (second ghost: the last output on the line was a word; every word is streamed with it at 0); "
             "the width clause is decided by Engine C with a ghost line-length counter and the inductive loop invariant ghost <= currLength (a line exceeds the width only if it holds the indentation and a single word); blank placement is not decided.",
        note="trusts clang AST/CFG and boost::tokenizer order",
        technique="static analysis: path counting on the loop-body CFG, use analysis, stream-chain shape rules"),
    "C18": dict(
        level="other", engine="engine B (boolshape.py)",
        text="Exhaustive truth table of the visibility predicate ArgDesc::doPrint over all combinations of its nine "
             "atoms against the specification table, with mutual exclusion of the two passes; path counting on "
             "ArgumentDesc::print/printArguments (each pass once, keys and description of every visible argument "
             "streamed exactly once, nothing for invisible ones, no early exit); description registered on every add "
             "path; branch rules of the single-argument help incl. canonical-key lookup; one settings object per handler "
             "family (a sub-group shares the UsageParams object of its main handler; replacing a handler's settings "
             "object must re-target its description printer - this last rule reports an open, recorded finding on "
             "Handler::setUsageParams, see known_findings.json); every call of the visibility predicate passes the current "
             "settings in their places (column-width pass == printing pass); default value, check, constraint and hidden "
             "mark each depend on their own property only; every display setting is switched by the argument / start flag named after it (UsageParams binders and setters touch the member their reader returns, shortOnly/longOnly values, Handler forwarders call the same-named UsageParams function, the hfUsage*/hfArg* start flags guard exactly their function); isMandatory/isHidden/isDeprecated report one stored flag that every setter of the property sets; the data behind the usage extras (checks, constraints, flags) is modified by the definition-time API only; each pass prints its own caption member and setCaption() sets them in the documented order; every argument class that switches print-default on provides defaultValue() (the base implementation throws); every description block is as wide as the configured line length; the key-specification parser (shared with C05-R7); the description text goes through the "
             "word loop of TextBlock, whose no-word-lost rule (C17-R1) is run here as well. Layout is not decided.",
        note="trusts clang AST/CFG; TypedArgBase property getters report the configured properties",
        also=("engine A (cfg.py)",),
        technique="static analysis: exhaustive truth table of the predicate + CFG path counting"),
    "C10": dict(
        level="proof", engine="engine C (lin.py, bounds.py)",
        text="Linear-inequality abstract interpretation (exact Fourier-Motzkin entailment, exact modular unsigned "
             "arithmetic by state splitting, no solver) of every public non-iterator member of FixedString<L> and "
             "of the free operators ==/!=, private helpers inlined, for the capacity grid 10 (quick) and "
             "1, 2, 10, 255, 256, 65535, 65536 (thorough), with arguments unconstrained over the whole size_t range "
             "(npos, values far beyond L), source strings of any length and other fixed strings of smaller, equal and "
             "larger capacity: every memcpy/memmove/memset/memcmp/vsnprintf/subscript/std::string( ptr, n) is proved "
             "inside mString[0..L], the source extents and the local scratch buffer; the class invariant "
             "mLength <= L (incl. narrowing into the length type) with a NUL known at mString[ mLength] is assumed at "
             "entry and proved at every exit (also for a string passed by non-const reference), which makes it hold "
             "after every sequence of operations. The four iterator classes are decided the same way with the "
             "invariant 'index is the end marker or < length()' from each of its cases. The strlen clause (no left-over "
             "byte below the length) is decided by the provenance rule shared with C11-R4 for the arguments of the "
             "documented domain (O5). Not decided: the one overload taking std::string iterators, "
             "operator[] outside its documented precondition. Overloads taking iterators of the string are analysed for "
             "every combination of end-marker / inside positions of valid iterators.",
        note="trusted base: clang front end, extractor, cv/lin.py + cv/bounds.py, models of mem*/vsnprintf/std::string; "
             "const char* arguments are C strings (and hold count characters where a count is passed); operator[] "
             "under its documented precondition",
        technique="static analysis: relational (linear inequality) abstract interpretation with inductive class invariant"),
    "C11": dict(
        level="other", engine="engine C (lin.py, bounds.py)",
        text="The part of 'equals std::string cut off at the capacity' that is visible in the code, for all contents "
             "and all in-domain argument values at once: every mutator of FixedString<L> (64 overloads: constructors, "
             "assign/operator=, insert, erase, push_back/pop_back, append/operator+=, replace, clear, swap; incl. seven "
             "overloads taking iterators of the string, for every combination of inside / end-marker positions) is executed "
             "symbolically on every path with an ordered log of its memmove/memcpy/memset/element writes; the new "
             "length is proved to be min( L, length of the std::string result) and a symbolic position below the new "
             "length is resolved backwards through the log and proved to hold exactly the byte std::string has there "
             "(old text at the right offset / the right byte of the right source / the fill character) against a "
             "per-family specification table; operator==/!= are decided by exhaustive truth tables (complementary, "
             "== means equal length and equal bytes). The searching observers (44 overloads of find, rfind, "
             "find_first/last_(not_)of, contains, starts_with, ends_with) are decided by a linear-search proof: no "
             "candidate position before the first tested one, every tested position is a candidate, a result is "
             "returned only at the tested position after its test (memcmp with the whole needle / element comparison / "
             "strchr, identified from observation facts) succeeded, the scan advances by exactly one position only "
             "after a failed test and ends only when no candidate is left - hence the result is the first/last matching "
             "candidate, as in std::string. compare() (15 overloads) is decided as sign of memcmp over the common length, "
             "else sign of the length difference. Simple observers (length/empty/c_str/data/str/at/[]/front/back/substr/copy) "
             "and iteration (begin/rbegin positions, exact stepping of ++/-- to the neighbouring index resp. the end marker, "
             "dereference at the index) are proved against exact post-conditions. The four ( const char*, pos, count) "
             "character-set overloads, whose membership test is an inner loop, are decided with the same proof applied "
             "to the inner loop. sprintf(): length == min( L, result of vsnprintf) (0 on error) and byte i is byte i of the "
             "formatter's output. Not decided: the overloads taking std::string iterators, initializer lists through "
             "iterators and iterator ranges of another string.",
        note="trusted base: clang front end, extractor, cv/lin.py + cv/bounds.py + cv/boolshape.py, the std::string "
             "specification table in cv/props/c11.py; sources do not alias the destination",
        also=("engine B (boolshape.py)",),
        technique="static analysis: symbolic execution with write-provenance log against a specification table; truth tables"),
    "C19": dict(
        level="proof", engine="engine C (lin.py, bounds.py)",
        text="Linear-inequality abstract interpretation (own exact Fourier-Motzkin entailment, no solver) of every "
             "public member of every ReadBuffer<N,P>/WriteBuffer<N,P> instantiation, private helpers inlined: the "
             "invariants mDataStart <= mDataEnd <= N and mWritePos <= N are assumed at entry and proved at every exit "
             "and inductively around the refill loop; every memcpy/memmove, buffer subscript and hand-off to the "
             "virtual source/sink carries bounds obligations against the N-byte buffer and the caller's len bytes; a "
             "progress obligation shows every refill can receive at least one byte (requests > N are refused first - and "
             "only those: get() ends in an exception exactly for len > N, for every buffer state). "
             "All obligations are discharged for all request sizes and all source chunkings. The byte-stream "
             "equality itself is proved as a refinement with ghost counters and content invariants over the write log: "
             "read side - fetched == consumed + window and buf[ start + k] == stream[ consumed + k] for every k of "
             "the window, assumed at entry, proved at every exit and inductively around the refill loop, and at the "
             "exit of get() exactly len bytes were delivered with data[ i] == stream[ consumed + i]; write side - "
             "(also at the exceptional exits of append()/flush() when the sink refuses the bytes: nothing buffered is "
             "lost) "
             "sunk == appended - buffered, buf[ k] == appended[ appended - buffered + k], and every writeData( p, n) "
             "hands over exactly appended[ sunk .. sunk + n). By induction over the calls this is in-order, "
             "exactly-once delivery for every sequence of requests and every chunking. Termination when the source "
             "returns 0 is not decided.",
        note="trusted base: clang front end, extractor, cv/lin.py + cv/bounds.py (write log, provenance resolution); "
             "contract assumed for the virtual source (delivers the next bytes of its stream, at most the requested "
             "length) and sink; caller supplies len bytes; source/sink do not alias the buffer",
        technique="static analysis: relational abstract interpretation with inductive class invariants incl. content "
                  "(provenance) invariants - a refinement proof against an abstract byte stream"),
    "C20": dict(
        level="other", engine="engine E (effects.py)",
        text="Static lockset/dominance and initialisation-order analysis of every Singleton<T>::instance/reset and "
             "ManagedThread constructor instantiation: decides the structural necessary conditions (every access to "
             "the shared pointer under the static mutex, one null-tested construction site, constant-initialised static members, no further static state in instance(), flag initialised before "
             "the thread starts, atomic flag set/cleared around the user function, isActive() reports that flag and consults "
             "nothing else - writing nothing and reading exactly one member -, the destructor joins on every path on which the handle is joinable - whatever the flag says - and never detaches) for all schedules at once; it does "
             "not execute any interleaving.",
        note="trusts clang's AST/CFG, the C++ rules for base/member initialisation order and the semantics of "
             "std::mutex/lock_guard/atomic",
        technique="static analysis: lockset by CFG dominance + ctor-initialiser order facts (libTooling)"),
}

# clauses added after seeding round 14 (kept apart from the long texts above)
ROUND14 = {
    "C02": "The end check asks every argument for its cardinality verdict in every iteration (no skip for arguments "
           "without a value).",
    "C03": "A further separate value of a multi-value argument is never handed to the identification funnel (it is "
           "not a new use for one_of/any_of).",
    "C05": "Every object stored in a key container carries the key it is stored under (setKey dominates the store or "
           "the constructor sets it).",
    "C06": "setUniqueData() stores the constant true in every instantiation that supports the option.",
    "C07": "The argument-file nesting level is restored by a guard set up before the increment (a depth, not a total).",
    "C08": "valueListOpen() asks the same questions of the last argument as the continuation branch of "
           "evalSingleArgument().",
    "C11": "copy() is proved to leave the destination behind the returned count untouched.",
    "C14": "The stream front end stores every named level unchanged in the message (evaluated per enumerator).",
    "C15": "The message text is streamed with its full length (a C-string view is a violation).",
    "C17": "The configuration members take the constructor arguments unchanged and are never re-assigned.",
    "C19": "The N-byte region the bounds proof relies on is established from the allocation in every constructor "
           "instantiation.",
    "C20": "Stores of the active flag release and the load in isActive() acquires (or seq_cst).",
}
ROUND15 = {
    "C01": "The list-splitting assign() of every container destination works through every element (pipeline "
           "obligations shared with C06-R1).",
    "C04": "strlen( s.c_str()) is modelled as a value in [0, s.length()] (embedded NUL bytes), std::string::copy() "
           "carries a write obligation.",
    "C06": "Observers of an adapter never hand the destination on as an rvalue.",
    "C08": "Only the handler's own group-membership flag excuses the cross-check on an add path.",
    "C11": "Iterator difference of the four iterator classes equals the distance in iteration order (all position "
           "pairs of lengths 0..4).",
    "C13": "Constant lookup tables are evaluated.",
    "C15": "writeCheck() and written() agree on whether the message text matters.",
    "C20": "The constructor's lambda is analysed for void and value-returning thread functions.",
}
for _pid, _t in ROUND15.items():
    ROUND14[_pid] = (ROUND14.get(_pid, "") + " " + _t).strip()
for _pid, _t in ROUND14.items():
    CLAIMS[_pid]["text"] = CLAIMS[_pid]["text"].rstrip() + " " + _t


NOT_YET = "check not yet implemented in this revision of /verif (planned, see DESIGN.md §4)"
NOT_APPLICABLE = {}


def main():
    checks = []
    for pid in sorted(CLAIMS):
        c = CLAIMS[pid]
        checks.append({
            "property_id": pid,
            "quick_cmd": "bin/check %s --tier quick" % pid,
            "thorough_cmd": "bin/check %s --tier thorough" % pid,
            "evidence_file": "evidence/%s.json" % pid,
            "replay_cmd_template": "bin/check %s --replay {path}" % pid,
            "engine": c["engine"],
            "level_claimed": {"category": c["level"], "text": c["text"] + c.get("text_extra", ""),
                              "design_ref": "DESIGN.md §4 " + pid},
            "level_note": c["note"],
            "technique": c["technique"],
        })
    na = []
    for i in range(1, 21):
        pid = "C%02d" % i
        if pid not in CLAIMS:
            na.append({"property_id": pid, "reason": NOT_APPLICABLE.get(pid, NOT_YET)})
    engines = []
    for e in ENGINES:
        e = dict(e)
        e["serves_properties"] = sorted(p for p, c in CLAIMS.items()
                                        if e["name"] == "celma-facts" or e["name"] == "engine A (cfg.py)"
                                        or c["engine"] == e["name"] or e["name"] in c.get("also", ()))
        engines.append(e)
    m = {
        "version": 1,
        "setup_cmd": "bin/setup",
        "hooks": {
            "guard": "CELMA_VERIF",
            "enable": "no hooks are needed: the analysers read /repo's sources as they are (the guard is never defined)",
            "baseline_off_cmd": "bin/baseline",
            "source_commits": [],
            "add_only": True,
        },
        "engines": engines,
        "checks": checks,
        "notes": "All checks are static analyses over /repo's current sources (clang libTooling facts + rule "
                 "engines in cv/); nothing of Celma is executed. See DESIGN.md.",
        "not_applicable": na,
    }
    with open(os.path.join(VERIF, "MANIFEST.json"), "w") as fh:
        json.dump(m, fh, indent=1)
        fh.write("\n")


if __name__ == "__main__":
    main()
