// celma-facts: clang-14 libTooling fact extractor for the Celma static checks.
//
// usage: celma-facts <out.json> <root-prefix>[:<root-prefix>...] -- <clang args> file.cpp
//
// For the translation unit it writes ONE json file with
//   functions : every function definition located in a file below one of the
//               root prefixes (non-template functions, members of class
//               template instantiations, function template instantiations,
//               lambdas' call operators): signature facts, a typed mini-AST
//               of the body, the ctor-initialiser list in evaluation order and
//               the clang::CFG (blocks, elements, edges, terminators)
//   classes   : bases / fields in declaration order, virtual methods + overrides
//   enums     : enumerators with values
//   vars      : objects with static storage duration
// Nothing is executed; this is a front-end pass only.

#include "clang/AST/ASTConsumer.h"
#include "clang/AST/ASTContext.h"
#include "clang/AST/Decl.h"
#include "clang/AST/DeclCXX.h"
#include "clang/AST/DeclTemplate.h"
#include "clang/AST/Expr.h"
#include "clang/AST/ExprCXX.h"
#include "clang/AST/RecursiveASTVisitor.h"
#include "clang/AST/Stmt.h"
#include "clang/AST/StmtCXX.h"
#include "clang/Analysis/CFG.h"
#include "clang/Basic/SourceManager.h"
#include "clang/Frontend/CompilerInstance.h"
#include "clang/Frontend/FrontendAction.h"
#include "clang/Tooling/CompilationDatabase.h"
#include "clang/Tooling/Tooling.h"
#include "llvm/Support/JSON.h"
#include "llvm/Support/raw_ostream.h"

#include <map>
#include <set>
#include <string>
#include <vector>

using namespace clang;
namespace json = llvm::json;

static std::vector<std::string> gRoots;
static std::string gOutFile;
static bool gHadError = false;

namespace {

class Extractor {
public:
  explicit Extractor(ASTContext &ctx)
      : mCtx(ctx), mSM(ctx.getSourceManager()), mPP(ctx.getPrintingPolicy()) {
    mPP.SuppressTagKeyword = true;
    mPP.Bool = true;
    mPP.SuppressUnwrittenScope = false;
    mPP.FullyQualifiedName = true;
    mPP.PrintCanonicalTypes = true;
  }

  // ---------------------------------------------------------------- helpers
  std::string fileOf(SourceLocation loc) const {
    if (loc.isInvalid()) return "";
    SourceLocation x = mSM.getExpansionLoc(loc);
    PresumedLoc p = mSM.getPresumedLoc(x);
    if (p.isInvalid()) return "";
    return p.getFilename();
  }
  unsigned lineOf(SourceLocation loc) const {
    if (loc.isInvalid()) return 0;
    return mSM.getExpansionLineNumber(loc);
  }
  unsigned colOf(SourceLocation loc) const {
    if (loc.isInvalid()) return 0;
    return mSM.getExpansionColumnNumber(loc);
  }
  bool inRoots(SourceLocation loc) const {
    std::string f = fileOf(loc);
    for (auto &r : gRoots)
      if (f.compare(0, r.size(), r) == 0) return true;
    return false;
  }
  std::string typeStr(QualType t) const {
    if (t.isNull()) return "";
    return t.getCanonicalType().getAsString(mPP);
  }
  std::string prettyType(QualType t) const {
    if (t.isNull()) return "";
    PrintingPolicy pp(mPP);
    pp.PrintCanonicalTypes = false;
    return t.getAsString(pp);
  }
  std::string qualName(const NamedDecl *d) const {
    std::string s;
    llvm::raw_string_ostream os(s);
    d->printQualifiedName(os, mPP);
    os.flush();
    return s;
  }
  // unique-ish key of a function: qualified name incl. template arguments of
  // enclosing classes and of the function itself, parameter types, cv/ref.
  std::string funcKey(const FunctionDecl *fd) const {
    std::string s;
    llvm::raw_string_ostream os(s);
    fd->getNameForDiagnostic(os, mPP, true);
    os << "(";
    bool first = true;
    for (const ParmVarDecl *p : fd->parameters()) {
      if (!first) os << ", ";
      first = false;
      os << typeStr(p->getType());
    }
    if (fd->isVariadic()) os << (first ? "..." : ", ...");
    os << ")";
    if (auto *md = dyn_cast<CXXMethodDecl>(fd)) {
      if (md->isConst()) os << " const";
      if (md->getRefQualifier() == RQ_RValue) os << " &&";
    }
    // functions with internal linkage (static / anonymous namespace) of different
    // units may share name and signature: make the key unit-specific
    if (!fd->isExternallyVisible() && !isa<CXXMethodDecl>(fd)) {
      std::string f = fileOf(fd->getLocation());
      size_t p = f.rfind('/');
      os << " @" << (p == std::string::npos ? f : f.substr(p + 1));
    }
    os.flush();
    return s;
  }
  std::string staticLocalName(const VarDecl *vd) const {
    const DeclContext *dc = vd->getParentFunctionOrMethod();
    if (auto *fd = dyn_cast_or_null<FunctionDecl>(dc)) return qualName(fd) + "()::" + vd->getNameAsString();
    return qualName(vd);
  }
  std::string recordName(const CXXRecordDecl *rd) const {
    return typeStr(mCtx.getRecordType(rd));
  }

  static bool derivesFromStdException(const CXXRecordDecl *rd, int depth = 0) {
    if (!rd || depth > 30) return false;
    rd = rd->getDefinition();
    if (!rd) return false;
    if (rd->getQualifiedNameAsString() == "std::exception") return true;
    for (const auto &b : rd->bases()) {
      const CXXRecordDecl *bd = b.getType()->getAsCXXRecordDecl();
      if (derivesFromStdException(bd, depth + 1)) return true;
    }
    return false;
  }

  // ------------------------------------------------------------- statements
  struct FnCtx {
    unsigned nextId = 0;
    std::map<const Stmt *, unsigned> ids;
    std::string file;
  };

  json::Value declRef(const ValueDecl *vd) {
    json::Object o;
    o["name"] = vd->getNameAsString();
    if (auto *v = dyn_cast<VarDecl>(vd)) {
      std::string sto;
      if (isa<ParmVarDecl>(v)) sto = "param";
      else if (v->isStaticLocal()) sto = "static_local";
      else if (v->isLocalVarDecl()) sto = "local";
      else if (v->isStaticDataMember()) sto = "static_member";
      else if (v->hasGlobalStorage()) sto = "global";
      else sto = "local";
      o["sto"] = sto;
      o["dk"] = "Var";
      if (sto == "static_local") o["q"] = staticLocalName(v);
      else if (sto != "local" && sto != "param") o["q"] = qualName(v);
      o["did"] = (int64_t)(uintptr_t)v->getCanonicalDecl() & 0xffffffff;
      o["dt"] = typeStr(v->getType());
    } else if (auto *f = dyn_cast<FunctionDecl>(vd)) {
      o["dk"] = "Function";
      o["q"] = qualName(f);
      o["ckey"] = funcKey(f);
    } else if (auto *e = dyn_cast<EnumConstantDecl>(vd)) {
      o["dk"] = "EnumConstant";
      o["q"] = qualName(e);
      o["val"] = e->getInitVal().getExtValue();
    } else if (isa<FieldDecl>(vd)) {
      o["dk"] = "Field";
      o["q"] = qualName(vd);
    } else if (isa<BindingDecl>(vd)) {
      o["dk"] = "Binding";
    } else {
      o["dk"] = vd->getDeclKindName();
    }
    return json::Value(std::move(o));
  }

  void addCallee(json::Object &o, const FunctionDecl *fd) {
    if (!fd) return;
    o["callee"] = qualName(fd);
    o["ckey"] = funcKey(fd);
    if (auto *md = dyn_cast<CXXMethodDecl>(fd)) {
      if (md->isVirtual()) o["cvirt"] = true;
      if (md->isConst()) o["cconst"] = true;
      if (md->isStatic()) o["cstatic"] = true;
      o["cclass"] = recordName(md->getParent());
    }
    if (fd->isNoReturn()) o["noreturn"] = true;
    // parameter kinds: which params are non-const references/pointers
    json::Array pk;
    for (const ParmVarDecl *p : fd->parameters()) {
      QualType t = p->getType();
      std::string k = "val";
      if (t->isLValueReferenceType())
        k = t->getPointeeType().isConstQualified() ? "cref" : "ref";
      else if (t->isRValueReferenceType()) k = "rref";
      else if (t->isPointerType())
        k = t->getPointeeType().isConstQualified() ? "cptr" : "ptr";
      pk.push_back(k);
    }
    o["pk"] = std::move(pk);
    const FunctionDecl *def = nullptr;
    if (fd->hasBody(def) && def && inRoots(def->getLocation())) o["cdef"] = true;
  }

  json::Value dumpStmt(const Stmt *s, FnCtx &fc) {
    if (!s) return json::Value(nullptr);
    // transparent wrappers: give them the id of what they wrap
    if (auto *e = dyn_cast<Expr>(s)) {
      const Expr *inner = nullptr;
      if (auto *p = dyn_cast<ParenExpr>(e)) inner = p->getSubExpr();
      else if (auto *c = dyn_cast<ExprWithCleanups>(e)) inner = c->getSubExpr();
      else if (auto *m = dyn_cast<MaterializeTemporaryExpr>(e)) inner = m->getSubExpr();
      else if (auto *b = dyn_cast<CXXBindTemporaryExpr>(e)) inner = b->getSubExpr();
      else if (auto *ce = dyn_cast<ConstantExpr>(e)) inner = ce->getSubExpr();
      else if (auto *d = dyn_cast<CXXDefaultArgExpr>(e)) {
        json::Value v = dumpStmt(d->getExpr(), fc);
        if (auto *o = v.getAsObject()) {
          (*o)["defarg"] = true;
          if (auto id = o->getInteger("id")) fc.ids[s] = (unsigned)*id;
        }
        return v;
      } else if (auto *di = dyn_cast<CXXDefaultInitExpr>(e)) {
        json::Value v = dumpStmt(di->getExpr(), fc);
        if (auto *o = v.getAsObject())
          if (auto id = o->getInteger("id")) fc.ids[s] = (unsigned)*id;
        return v;
      }
      if (inner) {
        json::Value v = dumpStmt(inner, fc);
        if (auto *o = v.getAsObject())
          if (auto id = o->getInteger("id")) fc.ids[s] = (unsigned)*id;
        return v;
      }
    }

    json::Object o;
    unsigned id = fc.nextId++;
    fc.ids[s] = id;
    o["id"] = id;
    o["k"] = s->getStmtClassName();
    SourceLocation loc = s->getBeginLoc();
    o["l"] = lineOf(loc);
    {
      std::string f = fileOf(loc);
      if (!f.empty() && f != fc.file) o["f"] = f;
    }
    json::Array kids;
    bool defaultKids = true;

    if (auto *e = dyn_cast<Expr>(s)) {
      o["t"] = typeStr(e->getType());
      if (e->isLValue()) o["lv"] = true;
      // integral constant value if cheaply available
      if (!e->isValueDependent() && !e->isTypeDependent() &&
          (isa<IntegerLiteral>(e) || isa<CharacterLiteral>(e) ||
           isa<CXXBoolLiteralExpr>(e) || isa<UnaryExprOrTypeTraitExpr>(e) ||
           isa<DeclRefExpr>(e) || isa<BinaryOperator>(e) ||
           isa<UnaryOperator>(e) || isa<ImplicitCastExpr>(e) ||
           isa<CStyleCastExpr>(e) || isa<CXXStaticCastExpr>(e) ||
           isa<CXXFunctionalCastExpr>(e) || isa<SubstNonTypeTemplateParmExpr>(e) ||
           isa<CallExpr>(e) || isa<MemberExpr>(e)) &&
          e->getType()->isIntegralOrEnumerationType()) {
        Expr::EvalResult r;
        if (e->EvaluateAsInt(r, mCtx, Expr::SE_NoSideEffects) && r.Val.isInt()) {
          llvm::APSInt v = r.Val.getInt();
          if (v.isSigned() ? v.isSignedIntN(64) : v.isIntN(63))
            o["cv"] = v.getExtValue();
          else
            o["cvs"] = llvm::toString(v, 10);
        }
      }
    }

    if (auto *il = dyn_cast<IntegerLiteral>(s)) {
      llvm::APInt v = il->getValue();
      if (v.isIntN(63)) o["val"] = (int64_t)v.getZExtValue();
      else o["vals"] = llvm::toString(v, 10, false);
    } else if (auto *cl = dyn_cast<CharacterLiteral>(s)) {
      o["val"] = (int64_t)cl->getValue();
    } else if (auto *bl = dyn_cast<CXXBoolLiteralExpr>(s)) {
      o["val"] = bl->getValue();
    } else if (auto *sl = dyn_cast<clang::StringLiteral>(s)) {
      if (sl->getCharByteWidth() == 1) o["val"] = sl->getString().str();
      o["len"] = sl->getLength();
    } else if (auto *fl = dyn_cast<FloatingLiteral>(s)) {
      o["val"] = fl->getValueAsApproximateDouble();
    } else if (auto *dr = dyn_cast<DeclRefExpr>(s)) {
      o["ref"] = declRef(dr->getDecl());
    } else if (auto *me = dyn_cast<MemberExpr>(s)) {
      o["ref"] = declRef(me->getMemberDecl());
      o["arrow"] = me->isArrow();
      if (auto *md = dyn_cast<CXXMethodDecl>(me->getMemberDecl())) {
        (void)md;
        if (me->hasQualifier()) o["qualified"] = true;
      }
    } else if (auto *bo = dyn_cast<BinaryOperator>(s)) {
      o["op"] = bo->getOpcodeStr().str();
    } else if (auto *uo = dyn_cast<UnaryOperator>(s)) {
      o["op"] = UnaryOperator::getOpcodeStr(uo->getOpcode()).str();
      o["postfix"] = uo->isPostfix();
    } else if (auto *ce = dyn_cast<CastExpr>(s)) {
      o["ck"] = ce->getCastKindName();
      if (auto *ece = dyn_cast<ExplicitCastExpr>(s))
        o["wt"] = typeStr(ece->getTypeAsWritten());
      if (ce->getCastKind() == CK_ConstructorConversion ||
          ce->getCastKind() == CK_UserDefinedConversion) {
        if (auto *cd = ce->getConversionFunction())
          if (auto *fd = dyn_cast<FunctionDecl>(cd)) addCallee(o, fd);
      }
    } else if (auto *ue = dyn_cast<UnaryExprOrTypeTraitExpr>(s)) {
      o["trait"] = (int)ue->getKind();
      if (ue->isArgumentType()) o["argt"] = typeStr(ue->getArgumentType());
    } else if (auto *te = dyn_cast<CXXThrowExpr>(s)) {
      if (const Expr *sub = te->getSubExpr()) {
        QualType tt = sub->getType();
        o["tt"] = typeStr(tt);
        const CXXRecordDecl *rd = tt->getAsCXXRecordDecl();
        o["stdexc"] = derivesFromStdException(rd);
      } else {
        o["rethrow"] = true;
      }
    } else if (auto *ne = dyn_cast<CXXNewExpr>(s)) {
      o["array"] = ne->isArray();
      o["at"] = typeStr(ne->getAllocatedType());
      defaultKids = false;
      if (ne->isArray() && ne->getArraySize() && *ne->getArraySize())
        kids.push_back(dumpStmt(*ne->getArraySize(), fc));
      else
        kids.push_back(json::Value(nullptr));
      for (unsigned i = 0; i < ne->getNumPlacementArgs(); ++i)
        kids.push_back(dumpStmt(ne->getPlacementArg(i), fc));
      if (ne->getInitializer()) {
        json::Value iv = dumpStmt(ne->getInitializer(), fc);
        o["init"] = std::move(iv);
      }
    } else if (auto *de = dyn_cast<CXXDeleteExpr>(s)) {
      o["array"] = de->isArrayForm();
    } else if (auto *le = dyn_cast<LambdaExpr>(s)) {
      defaultKids = false;
      if (auto *cop = le->getCallOperator()) {
        o["lambda"] = funcKey(cop);
        mPendingLambdas.push_back(cop);
      }
      json::Array caps;
      auto initIt = le->capture_init_begin();
      for (const LambdaCapture &c : le->captures()) {
        json::Object co;
        if (c.capturesThis()) co["name"] = "this";
        else if (c.capturesVariable()) co["name"] = c.getCapturedVar()->getNameAsString();
        co["byref"] = c.getCaptureKind() == LCK_ByRef;
        caps.push_back(std::move(co));
        if (initIt != le->capture_init_end()) {
          if (*initIt) kids.push_back(dumpStmt(*initIt, fc));
          ++initIt;
        }
      }
      o["captures"] = std::move(caps);
    } else if (auto *ds = dyn_cast<DeclStmt>(s)) {
      defaultKids = false;
      json::Array decls;
      for (const Decl *d : ds->decls()) {
        if (auto *vd = dyn_cast<VarDecl>(d)) {
          json::Object dv;
          dv["name"] = vd->getNameAsString();
          dv["t"] = typeStr(vd->getType());
          dv["pt"] = prettyType(vd->getType());
          dv["did"] = (int64_t)(uintptr_t)vd->getCanonicalDecl() & 0xffffffff;
          if (vd->isStaticLocal()) dv["static"] = true;
          if (vd->getType().isConstQualified()) dv["const"] = true;
          if (const ConstantArrayType *cat = mCtx.getAsConstantArrayType(vd->getType()))
            dv["arraysize"] = (int64_t)cat->getSize().getZExtValue();
          if (vd->hasInit()) dv["init"] = dumpStmt(vd->getInit(), fc);
          decls.push_back(std::move(dv));
        }
      }
      o["decls"] = std::move(decls);
    } else if (auto *cs = dyn_cast<CaseStmt>(s)) {
      defaultKids = false;
      if (const Expr *lhs = cs->getLHS()) {
        Expr::EvalResult r;
        if (!lhs->isValueDependent() && lhs->EvaluateAsInt(r, mCtx))
          o["val"] = r.Val.getInt().getExtValue();
        const Expr *st = lhs->IgnoreParenImpCasts();
        if (auto *ce2 = dyn_cast<ConstantExpr>(st)) st = ce2->getSubExpr()->IgnoreParenImpCasts();
        if (auto *dr = dyn_cast<DeclRefExpr>(st)) o["enumerator"] = qualName(dr->getDecl());
      }
      kids.push_back(dumpStmt(cs->getSubStmt(), fc));
    } else if (auto *fr = dyn_cast<CXXForRangeStmt>(s)) {
      defaultKids = false;
      // children: [range-init expr, loop var decl stmt, body]
      kids.push_back(dumpStmt(fr->getRangeInit(), fc));
      kids.push_back(dumpStmt(fr->getLoopVarStmt(), fc));
      kids.push_back(dumpStmt(fr->getBody(), fc));
      // make the hidden helper statements resolvable for the CFG mapping
      for (const Stmt *h : {(const Stmt *)fr->getRangeStmt(), (const Stmt *)fr->getBeginStmt(),
                            (const Stmt *)fr->getEndStmt(), (const Stmt *)fr->getCond(),
                            (const Stmt *)fr->getInc()})
        if (h) markHidden(h, fc, id);
    } else if (auto *ts = dyn_cast<CXXTryStmt>(s)) {
      (void)ts;
    } else if (auto *cat = dyn_cast<CXXCatchStmt>(s)) {
      o["ct"] = cat->getExceptionDecl() ? typeStr(cat->getCaughtType()) : "...";
      defaultKids = false;
      kids.push_back(dumpStmt(cat->getHandlerBlock(), fc));
    } else if (auto *sn = dyn_cast<SubstNonTypeTemplateParmExpr>(s)) {
      o["tparm"] = sn->getParameter()->getNameAsString();
    } else if (auto *ile = dyn_cast<InitListExpr>(s)) {
      (void)ile;
    }

    // calls (after the generic part so that kids are the natural children)
    if (auto *ce = dyn_cast<CallExpr>(s)) {
      const FunctionDecl *fd = ce->getDirectCallee();
      addCallee(o, fd);
      if (auto *mc = dyn_cast<CXXMemberCallExpr>(s)) {
        if (auto *me = dyn_cast<MemberExpr>(mc->getCallee()->IgnoreParens())) {
          bool virt = false;
          if (auto *md = dyn_cast_or_null<CXXMethodDecl>(fd))
            virt = md->isVirtual() && !me->hasQualifier();
          if (virt) o["virtcall"] = true;
        }
        if (const Expr *obj = mc->getImplicitObjectArgument())
          o["objt"] = typeStr(obj->getType());
      }
      if (auto *oc = dyn_cast<CXXOperatorCallExpr>(s))
        o["op"] = getOperatorSpelling(oc->getOperator());
      o["nargs"] = ce->getNumArgs();
    } else if (auto *cc = dyn_cast<CXXConstructExpr>(s)) {
      addCallee(o, cc->getConstructor());
      o["nargs"] = cc->getNumArgs();
      if (cc->isElidable()) o["elidable"] = true;
    } else if (auto *ul = dyn_cast<UnresolvedLookupExpr>(s)) {
      o["name"] = ul->getName().getAsString();
    } else if (auto *um = dyn_cast<UnresolvedMemberExpr>(s)) {
      o["name"] = um->getMemberName().getAsString();
    } else if (auto *dm = dyn_cast<CXXDependentScopeMemberExpr>(s)) {
      o["name"] = dm->getMember().getAsString();
    }

    if (defaultKids)
      for (const Stmt *c : s->children()) kids.push_back(dumpStmt(c, fc));
    if (!kids.empty()) o["c"] = std::move(kids);
    return json::Value(std::move(o));
  }

  void markHidden(const Stmt *s, FnCtx &fc, unsigned id) {
    if (!s) return;
    if (!fc.ids.count(s)) fc.ids[s] = id;
    for (const Stmt *c : s->children()) markHidden(c, fc, id);
  }

  // -------------------------------------------------------------------- CFG
  json::Value dumpCFG(const FunctionDecl *fd, FnCtx &fc) {
    CFG::BuildOptions bo;
    bo.setAllAlwaysAdd();
    bo.AddImplicitDtors = true;
    bo.AddTemporaryDtors = false;
    bo.AddInitializers = true;
    bo.AddEHEdges = false;
    bo.PruneTriviallyFalseEdges = false;
    std::unique_ptr<CFG> cfg =
        CFG::buildCFG(fd, fd->getBody(), &mCtx, bo);
    if (!cfg) return json::Value(nullptr);
    json::Object out;
    out["entry"] = cfg->getEntry().getBlockID();
    out["exit"] = cfg->getExit().getBlockID();
    json::Array blocks;
    for (const CFGBlock *b : *cfg) {
      json::Object jb;
      jb["id"] = b->getBlockID();
      json::Array elems;
      for (const CFGElement &el : *b) {
        if (auto cs = el.getAs<CFGStmt>()) {
          auto it = fc.ids.find(cs->getStmt());
          if (it != fc.ids.end()) {
            // drop consecutive duplicates (wrappers share their child's id)
            if (elems.empty() || elems.back().getAsInteger() != (int64_t)it->second)
              elems.push_back((int64_t)it->second);
          }
        } else if (auto ad = el.getAs<CFGAutomaticObjDtor>()) {
          json::Object d;
          d["dtor"] = ad->getVarDecl()->getNameAsString();
          d["did"] = (int64_t)(uintptr_t)ad->getVarDecl()->getCanonicalDecl() & 0xffffffff;
          d["t"] = typeStr(ad->getVarDecl()->getType());
          elems.push_back(std::move(d));
        } else if (auto in = el.getAs<CFGInitializer>()) {
          const CXXCtorInitializer *ci = in->getInitializer();
          json::Object d;
          if (ci->isAnyMemberInitializer())
            d["init"] = ci->getAnyMember()->getNameAsString();
          else if (ci->isBaseInitializer())
            d["initbase"] = typeStr(QualType(ci->getBaseClass(), 0));
          else
            d["init"] = "<delegating>";
          if (ci->getInit()) {
            auto it = fc.ids.find(ci->getInit());
            if (it != fc.ids.end()) d["expr"] = (int64_t)it->second;
          }
          elems.push_back(std::move(d));
        }
      }
      jb["e"] = std::move(elems);
      json::Array succs;
      for (auto si = b->succ_begin(); si != b->succ_end(); ++si) {
        const CFGBlock *sb = si->getReachableBlock();
        if (sb) succs.push_back((int64_t)sb->getBlockID());
        else if (const CFGBlock *ub = si->getPossiblyUnreachableBlock()) {
          json::Object u;
          u["unreachable"] = (int64_t)ub->getBlockID();
          succs.push_back(std::move(u));
        } else
          succs.push_back(json::Value(nullptr));
      }
      jb["s"] = std::move(succs);
      if (const Stmt *t = b->getTerminatorStmt()) {
        auto it = fc.ids.find(t);
        if (it != fc.ids.end()) jb["term"] = (int64_t)it->second;
        jb["termk"] = t->getStmtClassName();
      }
      if (const Stmt *c = b->getTerminatorCondition()) {
        auto it = fc.ids.find(c);
        if (it != fc.ids.end()) jb["cond"] = (int64_t)it->second;
      }
      if (const Stmt *lbl = b->getLabel()) {
        auto it = fc.ids.find(lbl);
        if (it != fc.ids.end()) jb["label"] = (int64_t)it->second;
      }
      if (b->hasNoReturnElement()) jb["noreturn"] = true;
      blocks.push_back(std::move(jb));
    }
    out["blocks"] = std::move(blocks);
    return json::Value(std::move(out));
  }

  // ---------------------------------------------------------------- functions
  void dumpFunction(const FunctionDecl *fd) {
    if (!fd->doesThisDeclarationHaveABody()) return;
    if (fd->isDependentContext()) return;
    if (!inRoots(fd->getLocation())) return;
    if (fd->isDefaulted() && !fd->getBody()) return;
    std::string key = funcKey(fd);
    std::string file = fileOf(fd->getLocation());
    std::string uniq = key + "@" + file + ":" + std::to_string(lineOf(fd->getLocation()));
    if (!mSeenFns.insert(uniq).second) return;

    json::Object o;
    o["key"] = key;
    o["name"] = qualName(fd);
    o["short"] = fd->getNameAsString();
    o["file"] = file;
    {
      // for instantiated members report the line of the (out-of-line) definition
      SourceLocation dl = fd->getLocation();
      if (const FunctionDecl *pat = fd->getTemplateInstantiationPattern())
        if (pat->getLocation().isValid() && fileOf(pat->getLocation()) == file) dl = pat->getLocation();
      o["line"] = lineOf(dl);
    }
    o["endline"] = lineOf(fd->getEndLoc());
    o["ret"] = typeStr(fd->getReturnType());
    if (fd->getTemplatedKind() != FunctionDecl::TK_NonTemplate) o["tk"] = (int)fd->getTemplatedKind();
    const auto *ept = fd->getType()->getAs<FunctionProtoType>();
    if (ept && ept->isNothrow()) o["noexcept"] = true;
    if (fd->isDefaulted()) o["defaulted"] = true;
    json::Array params;
    for (const ParmVarDecl *p : fd->parameters()) {
      json::Object po;
      po["name"] = p->getNameAsString();
      po["t"] = typeStr(p->getType());
      po["did"] = (int64_t)(uintptr_t)p->getCanonicalDecl() & 0xffffffff;
      if (p->hasDefaultArg() && !p->hasUninstantiatedDefaultArg() && !p->hasUnparsedDefaultArg()) {
        FnCtx tmp;
        tmp.file = file;
        po["default"] = dumpStmt(p->getDefaultArg(), tmp);
      }
      params.push_back(std::move(po));
    }
    o["params"] = std::move(params);
    if (auto *md = dyn_cast<CXXMethodDecl>(fd)) {
      o["class"] = recordName(md->getParent());
      o["classq"] = md->getParent()->getQualifiedNameAsString();
      if (md->isConst()) o["const"] = true;
      if (md->isVirtual()) o["virtual"] = true;
      if (md->isStatic()) o["static"] = true;
      o["access"] = (int)md->getAccess();
      json::Array ov;
      for (const CXXMethodDecl *om : md->overridden_methods()) ov.push_back(funcKey(om));
      if (!ov.empty()) o["overrides"] = std::move(ov);
      if (isa<CXXConstructorDecl>(md)) o["ctor"] = true;
      if (isa<CXXDestructorDecl>(md)) o["dtor"] = true;
      if (md->getParent()->isLambda()) o["islambda"] = true;
    }

    FnCtx fc;
    fc.file = file;
    if (auto *cd = dyn_cast<CXXConstructorDecl>(fd)) {
      json::Array inits;
      for (const CXXCtorInitializer *ci : cd->inits()) {
        json::Object io;
        if (ci->isBaseInitializer()) {
          io["kind"] = "base";
          io["name"] = typeStr(QualType(ci->getBaseClass(), 0));
        } else if (ci->isAnyMemberInitializer()) {
          io["kind"] = "member";
          io["name"] = ci->getAnyMember()->getNameAsString();
        } else {
          io["kind"] = "delegating";
        }
        io["written"] = ci->isWritten();
        if (ci->getInit()) io["init"] = dumpStmt(ci->getInit(), fc);
        inits.push_back(std::move(io));
      }
      o["inits"] = std::move(inits);
    }
    o["body"] = dumpStmt(fd->getBody(), fc);
    o["cfg"] = dumpCFG(fd, fc);
    mFunctions.push_back(std::move(o));
  }

  // ----------------------------------------------------------------- classes
  void dumpClass(const CXXRecordDecl *rd) {
    if (!rd->isCompleteDefinition()) return;
    if (rd->isDependentContext()) return;
    if (rd->isLambda()) return;
    if (!inRoots(rd->getLocation())) return;
    std::string name = recordName(rd);
    if (!mSeenClasses.insert(name).second) return;
    json::Object o;
    o["name"] = name;
    o["q"] = rd->getQualifiedNameAsString();
    o["file"] = fileOf(rd->getLocation());
    o["line"] = lineOf(rd->getLocation());
    json::Array bases;
    for (const auto &b : rd->bases()) {
      json::Object bo;
      bo["t"] = typeStr(b.getType());
      bo["virtual"] = b.isVirtual();
      bo["access"] = (int)b.getAccessSpecifier();
      bases.push_back(std::move(bo));
    }
    o["bases"] = std::move(bases);
    json::Array fields;
    for (const FieldDecl *f : rd->fields()) {
      json::Object fo;
      fo["name"] = f->getNameAsString();
      fo["t"] = typeStr(f->getType());
      fo["pt"] = prettyType(f->getType());
      if (f->isMutable()) fo["mutable"] = true;
      if (const ConstantArrayType *cat = mCtx.getAsConstantArrayType(f->getType()))
        fo["arraysize"] = (int64_t)cat->getSize().getZExtValue();
      fo["line"] = lineOf(f->getLocation());
      if (f->hasInClassInitializer() && f->getInClassInitializer()) {
        FnCtx tmp;
        tmp.file = fileOf(rd->getLocation());
        fo["init"] = dumpStmt(f->getInClassInitializer(), tmp);
      }
      fields.push_back(std::move(fo));
    }
    o["fields"] = std::move(fields);
    json::Array methods;
    for (const CXXMethodDecl *m : rd->methods()) {
      if (m->isImplicit()) continue;
      json::Object mo;
      mo["key"] = funcKey(m);
      mo["short"] = m->getNameAsString();
      if (m->isVirtual()) mo["virtual"] = true;
      if (m->isPure()) mo["pure"] = true;
      if (m->isConst()) mo["const"] = true;
      if (m->isStatic()) mo["static"] = true;
      if (m->isDeleted()) mo["deleted"] = true;
      mo["access"] = (int)m->getAccess();
      mo["line"] = lineOf(m->getLocation());
      json::Array ov;
      for (const CXXMethodDecl *om : m->overridden_methods()) ov.push_back(funcKey(om));
      if (!ov.empty()) mo["overrides"] = std::move(ov);
      methods.push_back(std::move(mo));
    }
    o["methods"] = std::move(methods);
    // template arguments of a specialisation
    if (auto *sp = dyn_cast<ClassTemplateSpecializationDecl>(rd)) {
      json::Array ta;
      for (const TemplateArgument &a : sp->getTemplateArgs().asArray()) {
        std::string s;
        llvm::raw_string_ostream os(s);
        a.print(mPP, os, true);
        os.flush();
        ta.push_back(s);
      }
      o["targs"] = std::move(ta);
      o["explicit_spec"] = sp->isExplicitSpecialization();
    }
    mClasses.push_back(std::move(o));
  }

  void dumpEnum(const EnumDecl *ed) {
    if (!ed->isCompleteDefinition()) return;
    if (!inRoots(ed->getLocation())) return;
    if (ed->isDependentContext()) return;
    std::string name = ed->getQualifiedNameAsString();
    if (!mSeenEnums.insert(name).second) return;
    json::Object o;
    o["name"] = name;
    o["file"] = fileOf(ed->getLocation());
    o["line"] = lineOf(ed->getLocation());
    o["scoped"] = ed->isScoped();
    json::Array en;
    for (const EnumConstantDecl *e : ed->enumerators()) {
      json::Object eo;
      eo["name"] = e->getNameAsString();
      eo["val"] = e->getInitVal().getExtValue();
      en.push_back(std::move(eo));
    }
    o["enumerators"] = std::move(en);
    mEnums.push_back(std::move(o));
  }

  void dumpVar(const VarDecl *vd) {
    if (!vd->hasGlobalStorage()) return;
    if (isa<ParmVarDecl>(vd)) return;
    if (!inRoots(vd->getLocation())) return;
    if (vd->getDeclContext()->isDependentContext()) return;
    if (isa<VarTemplatePartialSpecializationDecl>(vd)) return;
    if (vd->getType()->isDependentType()) return;
    std::string q = vd->isStaticLocal() ? staticLocalName(vd) : qualName(vd);
    std::string uniq = q + "@" + fileOf(vd->getLocation()) + ":" + std::to_string(lineOf(vd->getLocation()));
    const VarDecl *def = vd->getDefinition();
    bool isDef = vd->isThisDeclarationADefinition() != VarDecl::DeclarationOnly;
    if (!isDef && def) return;  // the definition will be visited
    if (!mSeenVars.insert(uniq).second) return;
    json::Object o;
    o["q"] = q;
    o["name"] = vd->getNameAsString();
    o["file"] = fileOf(vd->getLocation());
    o["line"] = lineOf(vd->getLocation());
    o["t"] = typeStr(vd->getType());
    o["isdef"] = isDef;
    QualType t = vd->getType();
    bool isConst = t.isConstQualified();
    if (const ArrayType *at = mCtx.getAsArrayType(t)) isConst = isConst || at->getElementType().isConstQualified();
    o["const"] = isConst;
    o["constexpr"] = vd->isConstexpr();
    o["kind"] = vd->isStaticLocal() ? "static_local" : vd->isStaticDataMember() ? "static_member" : "global";
    if (vd->getTLSKind() != VarDecl::TLS_None) o["tls"] = true;
    if (vd->isStaticLocal()) {
      if (auto *fd = dyn_cast<FunctionDecl>(vd->getDeclContext())) o["fn"] = funcKey(fd);
      else if (auto *pfd = dyn_cast_or_null<FunctionDecl>(vd->getParentFunctionOrMethod())) o["fn"] = funcKey(pfd);
    }
    bool hasMutable = false;
    if (const CXXRecordDecl *rd = t->getBaseElementTypeUnsafe()->getAsCXXRecordDecl())
      if (rd->hasDefinition()) hasMutable = rd->hasMutableFields();
    o["has_mutable_fields"] = hasMutable;
    if (vd->hasInit() && !vd->getInit()->isValueDependent()) {
      o["constinit"] = vd->hasConstantInitialization();
      if (vd->getType()->isIntegralOrEnumerationType()) {
        Expr::EvalResult r;
        if (vd->getInit()->EvaluateAsInt(r, mCtx) && r.Val.isInt() && r.Val.getInt().isSignedIntN(64))
          o["val"] = r.Val.getInt().getExtValue();
      }
    }
    o["did"] = (int64_t)(uintptr_t)vd->getCanonicalDecl() & 0xffffffff;
    mVars.push_back(std::move(o));
  }

  void flushLambdas() {
    while (!mPendingLambdas.empty()) {
      const FunctionDecl *fd = mPendingLambdas.back();
      mPendingLambdas.pop_back();
      dumpFunction(fd);
    }
  }

  json::Value result(const std::string &unit) {
    json::Object o;
    o["unit"] = unit;
    o["functions"] = std::move(mFunctions);
    o["classes"] = std::move(mClasses);
    o["enums"] = std::move(mEnums);
    o["vars"] = std::move(mVars);
    return json::Value(std::move(o));
  }

private:
  ASTContext &mCtx;
  SourceManager &mSM;
  PrintingPolicy mPP;
  json::Array mFunctions, mClasses, mEnums, mVars;
  std::set<std::string> mSeenFns, mSeenClasses, mSeenEnums, mSeenVars;
  std::vector<const FunctionDecl *> mPendingLambdas;
};

class Visitor : public RecursiveASTVisitor<Visitor> {
public:
  explicit Visitor(Extractor &ex) : mEx(ex) {}
  bool shouldVisitTemplateInstantiations() const { return true; }
  bool shouldVisitImplicitCode() const { return false; }
  bool shouldVisitLambdaBody() const { return true; }
  bool VisitFunctionDecl(FunctionDecl *fd) {
    mEx.dumpFunction(fd);
    mEx.flushLambdas();
    return true;
  }
  bool VisitCXXRecordDecl(CXXRecordDecl *rd) {
    mEx.dumpClass(rd);
    return true;
  }
  bool VisitEnumDecl(EnumDecl *ed) {
    mEx.dumpEnum(ed);
    return true;
  }
  bool VisitVarDecl(VarDecl *vd) {
    mEx.dumpVar(vd);
    return true;
  }

private:
  Extractor &mEx;
};

class Consumer : public ASTConsumer {
public:
  explicit Consumer(std::string unit) : mUnit(std::move(unit)) {}
  void HandleTranslationUnit(ASTContext &ctx) override {
    if (ctx.getDiagnostics().hasErrorOccurred()) {
      gHadError = true;
    }
    Extractor ex(ctx);
    Visitor v(ex);
    v.TraverseDecl(ctx.getTranslationUnitDecl());
    std::error_code ec;
    llvm::raw_fd_ostream os(gOutFile, ec);
    if (ec) {
      llvm::errs() << "cannot write " << gOutFile << ": " << ec.message() << "\n";
      gHadError = true;
      return;
    }
    os << ex.result(mUnit);
    os << "\n";
  }

private:
  std::string mUnit;
};

class Action : public ASTFrontendAction {
public:
  std::unique_ptr<ASTConsumer> CreateASTConsumer(CompilerInstance &, llvm::StringRef file) override {
    return std::make_unique<Consumer>(file.str());
  }
};

}  // namespace

int main(int argc, const char **argv) {
  if (argc < 5) {
    llvm::errs() << "usage: celma-facts <out.json> <roots> -- <clang args...> <file>\n";
    return 2;
  }
  gOutFile = argv[1];
  {
    std::string roots = argv[2];
    size_t p = 0;
    while (p <= roots.size()) {
      size_t q = roots.find(':', p);
      if (q == std::string::npos) q = roots.size();
      if (q > p) gRoots.push_back(roots.substr(p, q - p));
      p = q + 1;
    }
  }
  int i = 3;
  if (std::string(argv[i]) != "--") {
    llvm::errs() << "expected --\n";
    return 2;
  }
  std::vector<std::string> args;
  for (int j = i + 1; j < argc - 1; ++j) args.push_back(argv[j]);
  std::string file = argv[argc - 1];
  clang::tooling::FixedCompilationDatabase db(".", args);
  clang::tooling::ClangTool tool(db, {file});
  int rc = tool.run(clang::tooling::newFrontendActionFactory<Action>().get());
  if (rc != 0 || gHadError) return 1;
  return 0;
}
