// positive control for the exception-type rule (C04-R4): every construct below MUST be reported.
#include <stdexcept>
#include <string>

namespace verif_control {

struct NotAnException { int code; };

void throws_int( int v)
{
   if (v > 3)
      throw 42;                                   // R4: not derived from std::exception
}

void throws_struct( int v)
{
   if (v > 4)
      throw NotAnException{ v};                   // R4: not derived from std::exception
}

void rethrows_outside_handler()
{
   throw;                                         // R4: re-throw without an active handler
}

void fine( int v)
{
   if (v > 5)
      throw std::runtime_error( "fine");
   try
   {
      throws_int( v);
   } catch (...)
   {
      throw;                                      // fine: inside a handler
   }
}

void no_throw_promise( int v) noexcept
{
   if (v > 6)
      throw std::runtime_error( "terminates");    // R4: throw inside a noexcept function
}

void entry( int v)
{
   throws_int( v);
   throws_struct( v);
   rethrows_outside_handler();
   fine( v);
   no_throw_promise( v);
}

} // namespace verif_control
