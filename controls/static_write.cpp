// positive control for the static-storage effect rule (C09-R1/R2): every
// construct below MUST be reported by the rule on every run.
#include <cstring>
#include <ctime>
#include <mutex>

namespace verif_control {

static int         gCounter = 0;
static std::mutex  gMutex;

const char* unsync_static_buffer( char c)
{
   static char  buf[ 2] = { 0, 0 };
   buf[ 0] = c;                       // R1: write to function-local static
   return buf;
}

int unsync_global_increment()
{
   return ++gCounter;                 // R1: unsynchronised write
}

int synced_global_increment()
{
   const std::lock_guard< std::mutex>  lg( gMutex);
   return ++gCounter;                 // fine: lock held
}

int read_after_unlock()
{
   {
      const std::lock_guard< std::mutex>  lg( gMutex);
      ++gCounter;
   }
   return gCounter;                   // R1: read after the guard died
}

char* non_reentrant( char* s)
{
   return std::strtok( s, ",");       // R2
}

void entry()
{
   unsync_static_buffer( 'x');
   unsync_global_increment();
   synced_global_increment();
   read_after_unlock();
   char  b[ 4] = "a,b";
   non_reentrant( b);
}

} // namespace verif_control
