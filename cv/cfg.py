"""Engine A: path / dominance / reachability queries over clang's CFG as dumped
by the extractor.  Positions are (block id, element index); the pseudo position
(b, len(elems)) is the block's end (where the terminator is evaluated)."""
from collections import deque


class CFG:
    def __init__(self, func):
        self.func = func
        raw = func.cfg_raw
        self.entry = raw['entry']
        self.exit = raw['exit']
        self.blocks = {}
        for b in raw['blocks']:
            self.blocks[b['id']] = b
        self.succ = {}
        self.pred = {b: [] for b in self.blocks}
        for bid, b in self.blocks.items():
            ss = []
            for s in b['s']:
                if isinstance(s, int):
                    ss.append(s)
                else:
                    ss.append(None)   # unreachable / null edge
            self.succ[bid] = ss
            for s in ss:
                if s is not None:
                    self.pred[s].append(bid)
        # statement id -> position
        self.pos_of = {}
        for bid, b in self.blocks.items():
            for i, e in enumerate(b['e']):
                if isinstance(e, int):
                    self.pos_of.setdefault(e, (bid, i))
        # break / continue / goto are terminators, not elements: they sit at the end of their block
        for bid, b in self.blocks.items():
            if b.get('termk') in ('BreakStmt', 'ContinueStmt', 'GotoStmt') and 'term' in b:
                self.pos_of.setdefault(b['term'], (bid, len(b['e'])))

    # ---- basic
    def elems(self, bid):
        return self.blocks[bid]['e']

    def succs(self, bid):
        return [s for s in self.succ[bid] if s is not None]

    def position(self, node):
        """CFG position of an AST node (or of its nearest ancestor that is a
        CFG element)"""
        n = node
        while n is not None:
            p = self.pos_of.get(n['id'])
            if p is not None:
                return p
            n = self.func.parent(n)
        return None

    def exit_kind(self, bid):
        """for a predecessor block of the exit block: 'throw' | 'noreturn' | 'return'"""
        b = self.blocks[bid]
        if b.get('noreturn'):
            # a throw expression also marks the block noreturn
            for e in reversed(b['e']):
                if isinstance(e, int):
                    n = self.func.node(e)
                    if n and n['k'] == 'CXXThrowExpr':
                        return 'throw'
                    break
            return 'noreturn'
        for e in reversed(b['e']):
            if isinstance(e, int):
                n = self.func.node(e)
                if n and n['k'] == 'CXXThrowExpr':
                    return 'throw'
                break
        return 'return'

    def exit_blocks(self, kinds=('return',)):
        return [p for p in self.pred[self.exit] if self.exit_kind(p) in kinds]

    # ---- reachability at element granularity
    def reach(self, start, blocked=None, blocked_edges=(), stop_at=None):
        """set of positions reachable from position `start` (inclusive) without
        passing *through* a blocked element: `blocked(pos, elem)` -> True means
        execution may arrive at pos but not continue past it.
        blocked_edges: set of (from_block, to_block) edges that may not be taken.
        Returns the set of visited positions (incl. block-end pseudo positions)."""
        seen = set()
        dq = deque([start])
        while dq:
            pos = dq.popleft()
            if pos in seen:
                continue
            b, i = pos
            es = self.blocks[b]['e']
            if i >= len(es) and blocked is not None and blocked(pos, None):
                # a blocked block end is not 'passed' (and not recorded as visited)
                continue
            seen.add(pos)
            if i < len(es):
                if blocked is not None and blocked(pos, es[i]):
                    continue
                dq.append((b, i + 1))
            else:
                for s in self.succs(b):
                    if (b, s) in blocked_edges:
                        continue
                    if s == self.exit:
                        seen.add(('exit_from', b))
                    dq.append((s, 0))
        return seen

    def entry_pos(self):
        return (self.entry, 0)

    def can_reach_exit(self, start, blocked=None, kinds=('return',), blocked_edges=()):
        """is some exit of the given kinds reachable from start avoiding blocked
        elements?  returns the list of offending exit block ids"""
        seen = self.reach(start, blocked, blocked_edges)
        bad = []
        for p in self.pred[self.exit]:
            if self.exit_kind(p) in kinds and ('exit_from', p) in seen:
                bad.append(p)
        return bad

    def must_pass_through(self, is_target, kinds=('return',), start=None, blocked_edges=()):
        """every path from start (default entry) to an exit of `kinds` passes
        through an element satisfying is_target(node).  Returns list of
        offending exit block ids (empty = holds)."""
        def blocked(pos, e):
            if not isinstance(e, int):
                return False
            n = self.func.node(e)
            return n is not None and is_target(n)
        return self.can_reach_exit(start or self.entry_pos(), blocked, kinds, blocked_edges)

    def dominates(self, a_pos, b_pos):
        """every path entry -> b passes through a (a != b)"""
        if a_pos == b_pos:
            return True
        seen = self.reach(self.entry_pos(), lambda pos, e: pos == a_pos)
        return b_pos not in seen

    def node_dominates(self, a, b):
        pa, pb = self.position(a), self.position(b)
        if pa is None or pb is None:
            return False
        return self.dominates(pa, pb)

    def reachable_from(self, a_pos, b_pos, blocked=None):
        """b reachable from just after a"""
        b, i = a_pos
        seen = self.reach((b, i + 1), blocked)
        return b_pos in seen

    def edge_guard(self, cond_block, branch):
        """edge taken when the terminator condition of cond_block is true
        (branch=0) or false (branch=1)"""
        ss = self.succ[cond_block]
        if len(ss) < 2:
            return None
        return (cond_block, ss[branch])

    def guarded_by_edge(self, pos, cond_block, branch):
        """pos is only reachable through the given branch edge of cond_block:
        removing that edge makes pos unreachable from entry"""
        edge = self.edge_guard(cond_block, branch)
        if edge is None or edge[1] is None:
            return False
        seen = self.reach(self.entry_pos(), blocked_edges={edge})
        return pos not in seen

    def cond_blocks(self):
        """blocks with a two-way conditional terminator: yields (block, cond node)"""
        for bid, b in self.blocks.items():
            if 'cond' in b and len(b['s']) == 2:
                yield bid, self.effective_cond(bid)

    def effective_cond(self, bid):
        """the sub-expression whose value decides the branch of block bid: for the
        block that evaluates the right operand of `a || b` / `a && b` clang
        reports the whole logical expression; its value there is that of b"""
        b = self.blocks[bid]
        c = self.func.node(b['cond']) if 'cond' in b else None
        from .facts import children, strip_all_casts
        if c is not None and c.get('k') == 'CXXForRangeStmt':
            return None      # hidden `__begin != __end` of a range-for: no source-level condition
        if c is not None and c.get('k') == 'BinaryOperator' and c.get('op') in ('||', '&&') and \
                c.get('id') in [e for e in b.get('e', []) if isinstance(e, int)]:
            # a join block (clang builds one when an operand needs temporaries): the short-circuit edges of all
            # operands end here and the block branches on the value of the WHOLE expression
            return c
        first = True
        while c is not None and c.get('k') == 'BinaryOperator' and c.get('op') in ('||', '&&'):
            kids = children(c)
            if len(kids) != 2:
                return None
            if first and b.get('term') == c['id']:
                # the block ends in this short-circuit operator itself: its LEFT operand decides
                c = strip_all_casts(kids[0])
            else:
                # the operator was evaluated up to here: its value is that of its right operand
                c = strip_all_casts(kids[1])
            first = False
            while c is not None and c.get('k') == 'ParenExpr':
                c = strip_all_casts(children(c)[0])
        return c

    def loops(self):
        """natural loops: list of (header block, set of body blocks) via back edges"""
        dom = self.block_dominators()
        res = {}
        for b in self.blocks:
            for s in self.succs(b):
                if s in dom.get(b, ()):   # back edge b -> s
                    body = {s, b}
                    st = [b]
                    while st:
                        x = st.pop()
                        if x == s:
                            continue
                        for p in self.pred[x]:
                            if p not in body:
                                body.add(p)
                                st.append(p)
                    res.setdefault(s, set()).update(body)
        return res

    def block_dominators(self):
        blocks = list(self.blocks)
        reach = set()
        dq = [self.entry]
        while dq:
            x = dq.pop()
            if x in reach:
                continue
            reach.add(x)
            dq.extend(self.succs(x))
        dom = {b: set(reach) for b in reach}
        dom[self.entry] = {self.entry}
        changed = True
        while changed:
            changed = False
            for b in reach:
                if b == self.entry:
                    continue
                ps = [p for p in self.pred[b] if p in reach]
                if not ps:
                    continue
                new = set.intersection(*(dom[p] for p in ps)) | {b}
                if new != dom[b]:
                    dom[b] = new
                    changed = True
        return dom


def call_closure(prog, roots, max_depth=50):
    """functions (Func objects with bodies in the analysed units) reachable from
    root Func objects through resolved callees incl. all virtual overriders.
    returns dict key -> (Func, parent key) for path reconstruction"""
    seen = {}
    dq = deque()
    for r in roots:
        seen[r.key] = (r, None)
        dq.append(r)
    while dq:
        f = dq.popleft()
        for c in f.calls():
            for k in prog.call_targets(c):
                if k in seen:
                    continue
                for g in prog.by_key.get(k, ()):
                    seen[k] = (g, f.key)
                    dq.append(g)
                    break
        # lambdas defined in the body run on behalf of it
        for n in f.walk():
            if n.get('k') == 'LambdaExpr' and n.get('lambda'):
                k = n['lambda']
                if k not in seen:
                    for g in prog.by_key.get(k, ()):
                        seen[k] = (g, f.key)
                        dq.append(g)
                        break
    return seen


def call_path(closure, key):
    path = []
    while key is not None:
        path.append(key)
        key = closure[key][1]
    return list(reversed(path))
