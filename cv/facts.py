"""Fact extraction front end: runs the libTooling extractor over /repo's current
sources (one JSON per unit, 16-way parallel) and loads the result into a
small program model.  Nothing of Celma is executed."""
import glob
import hashlib
import json
import os
import subprocess
import sys
import time
from concurrent.futures import ThreadPoolExecutor

VERIF = os.path.dirname(os.path.dirname(os.path.abspath(__file__)))
REPO = os.environ.get('CELMA_REPO', '/repo')
SRC = os.path.join(REPO, 'src')
TOOL = os.path.join(VERIF, 'build', 'celma-facts')
FACTS_DIR = os.path.join(VERIF, 'build', 'facts')

CALL_KINDS = ('CallExpr', 'CXXMemberCallExpr', 'CXXOperatorCallExpr',
              'CXXConstructExpr', 'CXXTemporaryObjectExpr', 'UserDefinedLiteral')


class AnalysisBroken(Exception):
    """exit 2: a unit did not parse, an anchor vanished, a rule lost its instances"""


def library_units():
    """all library translation units the build covers, minus tests and the one
    unit that needs the generated version header"""
    out = []
    for p in sorted(glob.glob(os.path.join(SRC, 'library', '**', '*.cpp'), recursive=True)):
        rel = os.path.relpath(p, SRC)
        parts = rel.split(os.sep)
        if 'test' in parts or 'test_output' in parts:
            continue
        if rel.endswith('common/print_version_info.cpp'):
            continue
        out.append(p)
    return out


def units_matching(*patterns):
    """library units whose path (relative to src/) contains one of the patterns"""
    res = [u for u in library_units()
           if any(p in os.path.relpath(u, SRC) for p in patterns)]
    return res


def _resource_dir():
    try:
        return subprocess.check_output(['clang++', '-print-resource-dir'], text=True).strip()
    except Exception:
        return '/usr/lib/llvm-14/lib/clang/14.0.6'


_RES = None


def clang_args(extra=()):
    global _RES
    if _RES is None:
        _RES = _resource_dir()
    return ['-std=gnu++17', '-I' + SRC, '-UNDEBUG', '-w', '-resource-dir', _RES] + list(extra)


def _tree_hash():
    """content hash of everything below /repo/src that a unit could include,
    plus the extractor binary; the extraction cache is keyed on it so that a
    changed working tree is always re-analysed."""
    h = hashlib.sha256()
    for root, dirs, files in os.walk(SRC):
        dirs.sort()
        for f in sorted(files):
            if not f.endswith(('.cpp', '.hpp', '.h', '.hxx', '.in')):
                continue
            p = os.path.join(root, f)
            if '/test/' in p and '/library/' in p:
                continue
            h.update(p.encode())
            with open(p, 'rb') as fh:
                h.update(fh.read())
    with open(TOOL, 'rb') as fh:
        h.update(hashlib.sha256(fh.read()).digest())
    return h.hexdigest()[:20]


def _extract_one(unit, out, roots, extra):
    cmd = [TOOL, out, roots, '--'] + clang_args(extra) + [unit]
    p = subprocess.run(cmd, stdout=subprocess.PIPE, stderr=subprocess.PIPE, text=True)
    return unit, p.returncode, p.stderr[-2000:]


def extract(units, extra_roots=(), extra_args=()):
    """returns list of json file paths, one per unit (in the order of `units`)"""
    if not os.path.exists(TOOL):
        raise AnalysisBroken('extractor not built: run setup (bin/setup)')
    th = _tree_hash()
    roots = ':'.join([SRC] + list(extra_roots))
    outdir = os.path.join(FACTS_DIR, th)
    os.makedirs(outdir, exist_ok=True)
    # drop stale caches of other tree states (disk is limited)
    try:
        os.utime(outdir, None)
        ds = sorted((d for d in os.listdir(FACTS_DIR) if d != th),
                    key=lambda d: os.path.getmtime(os.path.join(FACTS_DIR, d)), reverse=True)
        import time
        now = time.time()
        for d in ds[3:]:
            # never under the feet of a concurrently running check of another tree state
            if now - os.path.getmtime(os.path.join(FACTS_DIR, d)) > 900:
                subprocess.run(['rm', '-rf', os.path.join(FACTS_DIR, d)])
    except OSError:
        pass
    jobs = []
    outs = []
    for u in units:
        with open(u, 'rb') as fh:
            uh = hashlib.sha256(fh.read() + roots.encode() + ' '.join(extra_args).encode()).hexdigest()[:12]
        name = os.path.basename(u).replace('.cpp', '') + '.' + uh + '.json'
        out = os.path.join(outdir, name)
        outs.append(out)
        if not os.path.exists(out):
            jobs.append((u, out))
    if jobs:
        with ThreadPoolExecutor(max_workers=int(os.environ.get('VERIF_JOBS', '16'))) as ex:
            # checks of different properties may extract the same unit at the same time: every process writes
            # its own temporary file and publishes it with an atomic rename
            sfx = '.tmp.%d' % os.getpid()
            futs = [ex.submit(_extract_one, u, o + sfx, roots, extra_args) for u, o in jobs]
            for (u, o), f in zip(jobs, futs):
                unit, rc, err = f.result()
                if rc != 0 or not os.path.exists(o + sfx):
                    if os.path.exists(o + sfx):
                        os.remove(o + sfx)
                    raise AnalysisBroken('unit does not parse: %s\n%s' % (unit, err))
                os.replace(o + sfx, o)
    return outs


# ---------------------------------------------------------------------------
# program model

def walk(node):
    """preorder over a mini-AST node"""
    stack = [node]
    while stack:
        n = stack.pop()
        if not isinstance(n, dict):
            continue
        yield n
        kids = []
        if 'c' in n:
            kids.extend(n['c'])
        if n.get('k') == 'DeclStmt':
            for d in n.get('decls', []):
                if 'init' in d:
                    kids.append(d['init'])
        if 'init' in n and isinstance(n['init'], dict) and n.get('k') == 'CXXNewExpr':
            kids.append(n['init'])
        for c in reversed(kids):
            stack.append(c)


def children(node):
    kids = []
    if not isinstance(node, dict):
        return kids
    if 'c' in node:
        kids.extend(c for c in node['c'] if isinstance(c, dict))
    if node.get('k') == 'DeclStmt':
        for d in node.get('decls', []):
            if isinstance(d.get('init'), dict):
                kids.append(d['init'])
    if node.get('k') == 'CXXNewExpr' and isinstance(node.get('init'), dict):
        kids.append(node['init'])
    return kids


def strip_casts(n):
    """skip implicit casts / no-op wrappers"""
    while isinstance(n, dict) and n.get('k') in ('ImplicitCastExpr',) and n.get('c'):
        n = n['c'][0]
    return n


def strip_all_casts(n):
    while isinstance(n, dict) and n.get('k') in (
            'ImplicitCastExpr', 'CStyleCastExpr', 'CXXStaticCastExpr',
            'CXXFunctionalCastExpr', 'CXXConstCastExpr', 'CXXReinterpretCastExpr') and n.get('c'):
        n = n['c'][0]
    return n


class Func:
    def __init__(self, d, unit):
        self.d = d
        self.unit = unit
        self.key = d['key']
        self.name = d['name']
        self.short = d['short']
        self.file = d['file']
        self.line = d['line']
        self.cls = d.get('class')
        self.classq = d.get('classq')
        self.body = d.get('body')
        self.cfg_raw = d.get('cfg')
        self.params = d.get('params', [])
        self.inits = d.get('inits', [])
        self._nodes = None
        self._parent = None
        self._cfg = None

    @property
    def relfile(self):
        return os.path.relpath(self.file, REPO) if self.file.startswith(REPO) else self.file

    def loc(self, node=None):
        if node is None:
            return '%s:%d' % (self.relfile, self.line)
        f = node.get('f', self.file)
        if f.startswith(REPO):
            f = os.path.relpath(f, REPO)
        return '%s:%d' % (f, node.get('l', 0))

    def roots(self):
        r = []
        for i in self.inits:
            if isinstance(i.get('init'), dict):
                r.append(i['init'])
        if isinstance(self.body, dict):
            r.append(self.body)
        return r

    def _index(self):
        self._nodes = {}
        self._parent = {}
        for r in self.roots():
            stack = [(r, None)]
            while stack:
                n, p = stack.pop()
                self._nodes[n['id']] = n
                self._parent[n['id']] = p
                for c in children(n):
                    stack.append((c, n))

    def node(self, nid):
        if self._nodes is None:
            self._index()
        return self._nodes.get(nid)

    def parent(self, node):
        if self._nodes is None:
            self._index()
        return self._parent.get(node['id'])

    def ancestors(self, node):
        p = self.parent(node)
        while p is not None:
            yield p
            p = self.parent(p)

    def walk(self):
        for r in self.roots():
            yield from walk(r)

    def calls(self):
        for n in self.walk():
            if n.get('k') in CALL_KINDS or (n.get('k', '').endswith('CastExpr') and 'callee' in n):
                if 'callee' in n:
                    yield n

    def calls_to(self, *names, short=None):
        """call nodes whose resolved callee's qualified name (without template
        args of the function) ends with one of names"""
        for c in self.calls():
            q = c['callee']
            if any(q == nm or q.endswith('::' + nm) for nm in names):
                yield c

    @property
    def cfg(self):
        if self._cfg is None and self.cfg_raw:
            from . import cfg as cfgmod
            self._cfg = cfgmod.CFG(self)
        return self._cfg

    def __repr__(self):
        return '<Func %s>' % self.key


class Program:
    def __init__(self):
        self.functions = []
        self.by_key = {}
        self.by_name = {}
        self.classes = {}
        self.enums = {}
        self.vars = {}
        self.units = []
        self._seen = set()
        self.overriders = {}   # base method key -> set of overriding method keys (direct)

    def load(self, path):
        with open(path) as fh:
            d = json.load(fh)
        self.units.append(d['unit'])
        for f in d['functions']:
            uniq = (f['key'], f['file'], f['line'])
            if uniq in self._seen:
                continue
            self._seen.add(uniq)
            fn = Func(f, d['unit'])
            self.functions.append(fn)
            self.by_key.setdefault(fn.key, []).append(fn)
            self.by_name.setdefault(fn.name, []).append(fn)
            for o in f.get('overrides', []):
                self.overriders.setdefault(o, set()).add(fn.key)
        for c in d['classes']:
            if c['name'] not in self.classes:
                self.classes[c['name']] = c
                for m in c['methods']:
                    for o in m.get('overrides', []):
                        self.overriders.setdefault(o, set()).add(m['key'])
        for e in d['enums']:
            self.enums.setdefault(e['name'], e)
        for v in d['vars']:
            k = (v['q'], v['file'], v['line'])
            old = self.vars.get(k)
            if old is None or (v.get('isdef') and not old.get('isdef')):
                self.vars[k] = v

    # ---- lookup
    def funcs(self, qualname=None, cls=None, short=None, pred=None):
        """functions by qualified name suffix (template args of the class are
        part of the name: use cls_prefix for templates)"""
        res = []
        for f in self.functions:
            if qualname is not None and not (f.name == qualname or f.name.endswith('::' + qualname)):
                continue
            if cls is not None and not (f.classq == cls or (f.classq or '').endswith('::' + cls)):
                continue
            if short is not None and f.short != short:
                continue
            if pred is not None and not pred(f):
                continue
            res.append(f)
        return res

    def method(self, cls, short, nparams=None, pred=None):
        """exactly-one lookup of Class::method (class given without template args)"""
        res = self.funcs(cls=cls, short=short, pred=pred)
        if nparams is not None:
            res = [f for f in res if len(f.params) == nparams]
        return res

    def one(self, cls, short, nparams=None, pred=None):
        res = self.method(cls, short, nparams, pred)
        # identical template instantiation keys may appear once per class instance
        if len(res) == 0:
            raise AnalysisBroken('anchor vanished: %s::%s' % (cls, short))
        if len(res) > 1:
            keys = sorted(set(f.key for f in res))
            if len(keys) > 1:
                raise AnalysisBroken('anchor ambiguous: %s::%s -> %s' % (cls, short, keys))
        return res[0]

    def all_overriders(self, key):
        """transitive overriders of a virtual method key"""
        res = set()
        todo = [key]
        while todo:
            k = todo.pop()
            for o in self.overriders.get(k, ()):
                if o not in res:
                    res.add(o)
                    todo.append(o)
        return res

    def call_targets(self, call):
        """resolved target keys of a call node: the static callee and, for a
        virtual call, every overrider"""
        k = call.get('ckey')
        if not k:
            return set()
        res = {k}
        if call.get('virtcall'):
            res |= self.all_overriders(k)
        return res

    def derived_from(self, base_q):
        """class names (with template args) deriving (transitively) from a class
        whose qualified name (without template args) is base_q"""
        res = set()
        changed = True
        basenames = {n for n, c in self.classes.items() if c['q'] == base_q}
        while changed:
            changed = False
            for n, c in self.classes.items():
                if n in res or n in basenames:
                    continue
                for b in c['bases']:
                    if b['t'] in basenames or b['t'] in res:
                        res.add(n)
                        changed = True
                        break
        return res


LOADED = []      # every program a check has loaded (main.py runs the build-independence lint over them)


def load_program(units, extra_roots=(), extra_args=()):
    t0 = time.time()
    paths = extract(units, extra_roots, extra_args)
    prog = Program()
    for p in paths:
        prog.load(p)
    prog.extract_s = time.time() - t0
    LOADED.append(prog)
    return prog
