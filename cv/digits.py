"""Engine D: digit-layout interpretation for the integer-to-string functions.

(i)  interval partition of the pure decision trees intNN_str_length
(ii) partial evaluation of convert() / the wrappers for every possible length:
     everything except the numeric value is concrete; `value % 10; value /= 10`
     is the symbolic digit stream; the result is the exact cell layout written,
     compared with the specified layout.
Nothing is executed: the source's AST is interpreted over symbolic digits."""
from .facts import children, strip_casts, strip_all_casts, walk, CALL_KINDS, AnalysisBroken


class Unsupported(Exception):
    pass


class Sym:
    """symbolic value"""
    __slots__ = ('kind', 'a', 'b')

    def __init__(self, kind, a=None, b=None):
        self.kind, self.a, self.b = kind, a, b

    def __eq__(self, o):
        return isinstance(o, Sym) and (self.kind, self.a, self.b) == (o.kind, o.a, o.b)

    def __hash__(self):
        return hash((self.kind, self.a, self.b))

    def __repr__(self):
        if self.kind == 'ptr':
            return '&%s[%s]' % (self.a, self.b)
        if self.kind == 'val':
            return '%s/10^%d' % (self.a, self.b)
        if self.kind == 'digit':
            return 'digit%d(%s)' % (self.b, self.a)
        if self.kind == 'chr':
            return "'0'+digit%d(%s)" % (self.b, self.a)
        if self.kind == 'chrlast':
            return "'0'+%s/10^%d" % (self.a, self.b)
        return '%s(%s)' % (self.kind, self.a)


class Return(Exception):
    def __init__(self, v):
        self.v = v


class Break(Exception):
    pass


UINT_BITS = {'unsigned char': 8, 'unsigned short': 16, 'unsigned int': 32, 'unsigned long': 64,
             'unsigned long long': 64}
SINT_BITS = {'signed char': 8, 'char': 8, 'short': 16, 'int': 32, 'long': 64, 'long long': 64}


def base_type(t):
    return (t or '').replace('const ', '').strip()


class Lossy(Exception):
    """the symbolic value is converted to a type that cannot hold every value of its digit-count class"""


class Machine:
    """interprets one wrapper for one concrete digit count L"""
    val_bits = 64            # width of the (unsigned) type the symbolic value has
    val_max = None           # largest magnitude the value can have, if smaller than the type allows (negative variants)

    def val_range(self, v):
        """closed interval of  value / 10^shift  for a value with exactly L digits in its type"""
        d = self.L - v.b
        top = (self.val_max if self.val_max is not None else (1 << self.val_bits) - 1) // (10 ** v.b)
        if d <= 0:
            return 0, 0
        lo = 0 if self.L == 1 and v.b == 0 else 10 ** (d - 1)
        return lo, min(10 ** d - 1, top)

    def __init__(self, prog, length_result, log):
        self.prog = prog
        self.L = length_result
        self.regions = {}        # name -> dict off -> value
        self.region_size = {}
        self.calls = []          # (callee short, args)
        self.log = log
        self.steps = 0
        self.length_args = []    # the symbolic value handed to the length function
        self.convert_args = []
        self.neg_of = {}         # abs symbol -> (source symbol, unsigned bits)

    # ---- memory
    def write(self, ptr, v):
        if not (isinstance(ptr, Sym) and ptr.kind == 'ptr'):
            raise Unsupported('store through non-pointer %r' % (ptr,))
        self.regions.setdefault(ptr.a, {})[ptr.b] = v

    def read(self, ptr):
        return self.regions.get(ptr.a, {}).get(ptr.b, Sym('uninit', ptr.a))

    # ---- expressions
    def lvalue(self, n, env):
        """returns ('cell', cell) or ('mem', ptr)"""
        n = strip_casts(n)
        k = n.get('k')
        if k == 'DeclRefExpr':
            name = n['ref']['name']
            if name not in env:
                raise Unsupported('unknown variable ' + name)
            return ('cell', env[name])
        if k == 'UnaryOperator' and n.get('op') == '*':
            p = self.ev(children(n)[0], env)
            return ('mem', p)
        if k == 'UnaryOperator' and n.get('op') in ('++', '--') and not n.get('postfix'):
            self.ev(n, env)                      # prefix form yields the updated lvalue
            return self.lvalue(children(n)[0], env)
        if k == 'ArraySubscriptExpr':
            b, i = children(n)
            p = self.ev(b, env)
            idx = self.ev(i, env)
            if not isinstance(idx, int):
                raise Unsupported('symbolic index')
            if isinstance(p, tuple):
                # constant lookup table (local array with an initialiser list)
                if not 0 <= idx < len(p):
                    raise Unsupported('index %d outside the constant table of %d elements' % (idx, len(p)))
                return ('cell', [p[idx]])
            return ('mem', Sym('ptr', p.a, p.b + idx))
        if k in ('CStyleCastExpr', 'CXXStaticCastExpr', 'CXXConstCastExpr', 'ImplicitCastExpr'):
            return self.lvalue(children(n)[0], env)
        raise Unsupported('lvalue kind %s line %s' % (k, n.get('l')))

    def load(self, lv):
        if lv[0] == 'cell':
            return lv[1][0]
        return self.read(lv[1])

    def store(self, lv, v):
        if lv[0] == 'cell':
            lv[1][0] = v
        else:
            self.write(lv[1], v)

    def narrow(self, v, t):
        if isinstance(v, tuple):
            return v
        t = base_type(t)
        if isinstance(v, int):
            if t in UINT_BITS:
                return v & ((1 << UINT_BITS[t]) - 1)
            if t == 'bool':
                return 1 if v else 0
        if isinstance(v, Sym) and v.kind == 'val' and (t in UINT_BITS or t in SINT_BITS):
            tb = UINT_BITS.get(t) or (SINT_BITS[t] - 1)
            lo, hi = self.val_range(v)
            if hi > (1 << tb) - 1:
                raise Lossy('a value with %d digits (up to %d) is converted to %s, which holds at most %d' % (
                    self.L - v.b, hi, t, (1 << tb) - 1))
        return v

    def arith(self, op, a, b, n):
        if isinstance(a, int) and isinstance(b, int):
            if op == '+':
                return a + b
            if op == '-':
                return a - b
            if op == '*':
                return a * b
            if op == '/':
                if b == 0:
                    raise Unsupported('division by zero')
                return abs(a) // abs(b) * (1 if (a >= 0) == (b >= 0) else -1)
            if op == '%':
                return a - b * (abs(a) // abs(b) * (1 if (a >= 0) == (b >= 0) else -1))
            if op in ('==', '!=', '<', '<=', '>', '>='):
                return int({'==': a == b, '!=': a != b, '<': a < b, '<=': a <= b, '>': a > b, '>=': a >= b}[op])
            if op == '&&':
                return int(bool(a) and bool(b))
            if op == '||':
                return int(bool(a) or bool(b))
        if isinstance(a, Sym) and a.kind == 'ptr' and isinstance(b, int) and op in ('+', '-'):
            return Sym('ptr', a.a, a.b + (b if op == '+' else -b))
        if isinstance(b, Sym) and b.kind == 'ptr' and isinstance(a, int) and op == '+':
            return Sym('ptr', b.a, b.b + a)
        if isinstance(a, Sym) and a.kind == 'val' and isinstance(b, int) and op in ('<', '<=', '>', '>=', '==', '!='):
            # comparison of the symbolic value with a constant: decided when every value of the digit-count class
            # gives the same answer
            lo, hi = self.val_range(a)
            f_ = {'<': lambda x: x < b, '<=': lambda x: x <= b, '>': lambda x: x > b, '>=': lambda x: x >= b,
                  '==': lambda x: x == b, '!=': lambda x: x != b}[op]
            pts = {lo, hi, min(max(b - 1, lo), hi), min(max(b, lo), hi), min(max(b + 1, lo), hi)}
            outs = {bool(f_(x)) for x in pts}
            if len(outs) == 1:
                return int(outs.pop())
            raise Unsupported('comparison %r %s %d is not uniform over the values with %d digits' % (a, op, b, self.L))
        if isinstance(b, Sym) and b.kind == 'val' and isinstance(a, int) and op in ('<', '<=', '>', '>=', '==', '!='):
            return self.arith({'<': '>', '<=': '>=', '>': '<', '>=': '<=', '==': '==', '!=': '!='}[op], b, a, n)
        if isinstance(a, Sym) and a.kind == 'val' and isinstance(b, int) and b == 10:
            if op == '%':
                return Sym('digit', a.a, a.b)
            if op == '/':
                return Sym('val', a.a, a.b + 1)
        # division by 10 written as multiplication with a reciprocal and a shift:  (v * M) >> s.  It IS v / 10 for the
        # digit-count class iff for every v in [lo, hi]:  (v % 10) * 2^s + v * (10 M - 2^s) < 10 * 2^s  (and 10 M >= 2^s);
        # the left side grows with v for a fixed last digit, so ten candidates decide it exactly
        if op == '*' and isinstance(b, Sym) and b.kind == 'val' and isinstance(a, int):
            a, b = b, a
        if op == '*' and isinstance(a, Sym) and a.kind == 'val' and isinstance(b, int) and b > 1:
            return Sym('mul', a, b)
        if op == '>>' and isinstance(a, Sym) and a.kind == 'mul' and isinstance(b, int) and 0 < b < 128:
            v, M, sh = a.a, a.b, b
            lo, hi = self.val_range(v)
            e = 10 * M - (1 << sh)
            bad = None
            if e < 0:
                bad = lo if lo % 10 == 0 else (lo - lo % 10 + 10 if lo - lo % 10 + 10 <= hi else None)
                if bad is None and hi >= lo:
                    bad = hi
            else:
                for r in range(10):
                    cand = hi - ((hi - r) % 10)
                    if cand < lo:
                        continue
                    if r * (1 << sh) + cand * e >= 10 * (1 << sh):
                        bad = cand
                        break
            if bad is not None and ((bad * M) >> sh) != bad // 10:
                raise Lossy('( v * %d) >> %d is not v / 10 for every value with %d digits: %d gives %d instead of %d' % (
                    M, sh, self.L, bad, (bad * M) >> sh, bad // 10))
            if bad is not None:
                raise Unsupported('multiply-shift division: criterion and counter example disagree for %d' % bad)
            return Sym('val', v.a, v.b + 1)
        if op == '+' and isinstance(a, int) and a == 48 and isinstance(b, Sym):
            if b.kind == 'digit':
                return Sym('chr', b.a, b.b)
            if b.kind == 'val':
                return Sym('chrlast', b.a, b.b)
        if op == '+' and isinstance(b, int) and b == 48 and isinstance(a, Sym):
            return self.arith('+', b, a, n)
        raise Unsupported('arithmetic %r %s %r at line %s' % (a, op, b, n.get('l')))

    def ev(self, n, env):
        self.steps += 1
        if self.steps > 100000:
            raise Unsupported('step limit')
        k = n.get('k')
        if k in ('IntegerLiteral', 'CharacterLiteral'):
            return n['val']
        if k == 'CXXBoolLiteralExpr':
            return int(n['val'])
        if k == 'StringLiteral':
            return Sym('strlit', n.get('val'))
        if k == 'ImplicitCastExpr':
            ck = n.get('ck')
            sub = children(n)[0]
            if ck == 'LValueToRValue':
                return self.load(self.lvalue(sub, env))
            v = self.ev(sub, env)
            if ck == 'IntegralCast':
                return self.narrow(v, n.get('t'))
            if ck in ('IntegralToBoolean',):
                return int(bool(v)) if isinstance(v, int) else v
            return v
        if k in ('CStyleCastExpr', 'CXXStaticCastExpr', 'CXXFunctionalCastExpr', 'CXXConstCastExpr'):
            v = self.ev(children(n)[0], env)
            return self.narrow(v, n.get('t'))
        if k == 'DeclRefExpr':
            r = n['ref']
            if r.get('dk') == 'EnumConstant':
                return r['val']
            return self.load(self.lvalue(n, env))
        if k == 'UnaryOperator':
            op = n['op']
            sub = children(n)[0]
            if op in ('++', '--'):
                lv = self.lvalue(sub, env)
                old = self.load(lv)
                new = self.arith('+' if op == '++' else '-', old, 1, n)
                new = self.narrow(new, n.get('t'))
                self.store(lv, new)
                return old if n.get('postfix') else new
            if op == '*':
                return self.load(self.lvalue(n, env))
            if op == '-':
                v = self.ev(sub, env)
                if isinstance(v, int):
                    return -v
                if isinstance(v, Sym) and v.kind == 'val' and v.b == 0:
                    return Sym('neg', v.a)
                raise Unsupported('negation of %r' % (v,))
            if op == '!':
                v = self.ev(sub, env)
                if isinstance(v, int):
                    return int(not v)
            if op == '&':
                lv = self.lvalue(sub, env)
                if lv[0] == 'mem':
                    return lv[1]
            raise Unsupported('unary %s' % op)
        if k in ('BinaryOperator', 'CompoundAssignOperator'):
            op = n['op']
            a, b = children(n)
            if op == '=':
                v = self.ev(b, env)
                self.store(self.lvalue(a, env), v)
                return v
            if op in ('/=', '+=', '-=', '%='):
                lv = self.lvalue(a, env)
                v = self.arith(op[0], self.load(lv), self.ev(b, env), n)
                v = self.narrow(v, n.get('t'))
                self.store(lv, v)
                return v
            if op == ',':
                self.ev(a, env)
                return self.ev(b, env)
            return self.arith(op, self.ev(a, env), self.ev(b, env), n)
        if k == 'ArraySubscriptExpr':
            return self.load(self.lvalue(n, env))
        if k == 'ConditionalOperator':
            c, a, b = children(n)
            cv = self.ev(c, env)
            if not isinstance(cv, int):
                raise Unsupported('symbolic condition')
            return self.ev(a if cv else b, env)
        if k in CALL_KINDS:
            return self.call(n, env)
        if k == 'InitListExpr':
            vals = tuple(self.ev(c, env) for c in children(n))
            if not all(isinstance(v, int) for v in vals):
                raise Unsupported('initialiser list with non-constant elements at line %s' % n.get('l'))
            return vals
        raise Unsupported('expression kind %s at line %s' % (k, n.get('l')))

    def call(self, n, env):
        callee = n.get('callee', '')
        short = callee.split('::')[-1]
        kids = children(n)
        k = n['k']
        if short.endswith('_str_length') and callee.startswith('celma::format::detail::'):
            arg = self.ev(kids[1], env)
            self.length_args.append((short, arg))
            return self.L
        if k in ('CXXConstructExpr', 'CXXTemporaryObjectExpr') and callee.startswith('std::basic_string'):
            args = [self.ev(a, env) for a in kids if not a.get('defarg')]
            if len(args) >= 2 and isinstance(args[0], int):
                name = 'str%d' % len(self.regions)
                self.regions[name] = {i: args[1] for i in range(args[0])}
                self.regions[name][args[0]] = 0
                self.region_size[name] = args[0]
                return Sym('string', name)
            if len(args) == 1 and isinstance(args[0], Sym) and args[0].kind in ('string', 'strlit'):
                return args[0]          # copy / move / from literal
            raise Unsupported('std::string constructor form')
        if k == 'CXXMemberCallExpr' and short in ('c_str', 'data'):
            obj = self.ev(children(kids[0])[0], env)
            if isinstance(obj, Sym) and obj.kind == 'string':
                return Sym('ptr', obj.a, 0)
            raise Unsupported('c_str on %r' % (obj,))
        if callee == 'strcpy' or callee == 'std::strcpy':
            dst = self.ev(kids[1], env)
            src = self.ev(kids[2], env)
            if isinstance(src, Sym) and src.kind == 'strlit':
                for i, ch in enumerate(src.a):
                    self.write(Sym('ptr', dst.a, dst.b + i), ord(ch))
                self.write(Sym('ptr', dst.a, dst.b + len(src.a)), 0)
                return dst
            raise Unsupported('strcpy source')
        # repository functions: inline
        tgt = self.prog.by_key.get(n.get('ckey'))
        if tgt and tgt[0].body is not None and callee.startswith('celma::format::detail::'):
            f = tgt[0]
            args = kids[1:] if k != 'CXXConstructExpr' else kids
            new_env = {}
            vals = []
            for p, a in zip(f.params, args):
                if p['t'].endswith('&') and not p['t'].startswith('const '):
                    lv = self.lvalue(a, env)
                    if lv[0] != 'cell':
                        raise Unsupported('reference to memory')
                    new_env[p['name']] = lv[1]
                    vals.append(lv[1][0])
                else:
                    v = self.narrow(self.ev(a, env), p['t'])
                    new_env[p['name']] = [v]
                    vals.append(v)
            if f.short == 'convert':
                self.convert_args.append(vals)
            self.calls.append((f.short, vals))
            try:
                self.stmt(f.body, new_env)
            except Return as r:
                return r.v
            return None
        raise Unsupported('call to %s at line %s' % (callee, n.get('l')))

    # ---- statements
    def stmt(self, n, env):
        if n is None:
            return
        k = n.get('k')
        if k == 'CompoundStmt':
            for c in children(n):
                self.stmt(c, env)
        elif k == 'DeclStmt':
            for d in n.get('decls', []):
                v = self.ev(d['init'], env) if isinstance(d.get('init'), dict) else Sym('uninit', d['name'])
                v = self.narrow(v, d.get('t'))
                if isinstance(v, Sym) and v.kind == 'neg':
                    bits = UINT_BITS.get(base_type(d.get('t')))
                    absname = 'abs(%s)' % v.a
                    self.neg_of[absname] = (v.a, bits, base_type(d.get('t')))
                    v = Sym('val', absname, 0)
                env[d['name']] = [v]
        elif k == 'IfStmt':
            ks = [c for c in n.get('c', []) if c is not None]
            cond = self.ev(ks[0], env)
            if not isinstance(cond, int):
                raise Unsupported('symbolic if condition at line %s' % n.get('l'))
            if cond:
                self.stmt(ks[1], env)
            elif len(ks) > 2:
                self.stmt(ks[2], env)
        elif k == 'ReturnStmt':
            kids = children(n)
            raise Return(self.ev(kids[0], env) if kids else None)
        elif k == 'SwitchStmt':
            self.switch(n, env)
        elif k == 'AttributedStmt':
            for c in children(n):
                self.stmt(c, env)
        elif k == 'NullStmt':
            return
        elif k == 'BreakStmt':
            raise Break()
        else:
            self.ev(n, env)

    def switch(self, n, env):
        kids = [c for c in n.get('c', []) if c is not None]
        v = self.ev(kids[0], env)
        if not isinstance(v, int):
            raise Unsupported('symbolic switch')
        seq = []

        def flat(s):
            if s.get('k') == 'CaseStmt':
                seq.append(('case', s.get('val')))
                for c in children(s):
                    flat(c)
            elif s.get('k') == 'DefaultStmt':
                seq.append(('default', None))
                for c in children(s):
                    flat(c)
            else:
                seq.append(('stmt', s))
        for s in children(kids[-1]):
            flat(s)
        start = next((i for i, (kk, val) in enumerate(seq) if kk == 'case' and val == v), None)
        self.last_switch_labels = [val for kk, val in seq if kk == 'case']
        self.last_switch_default = any(kk == 'default' for kk, _ in seq)
        if start is None:
            start = next((i for i, (kk, val) in enumerate(seq) if kk == 'default'), None)
        if start is None:
            self.switch_unmatched = v
            return
        try:
            for kk, s in seq[start:]:
                if kk == 'stmt':
                    self.stmt(s, env)
        except Break:
            pass


# ---------------------------------------------------------------------------
# (i) length functions

def length_partition(func, bits):
    """interval partition of intNN_str_length over [0, 2^bits-1]:
    returns list of (lo, hi, result) or raises Unsupported"""
    from .boolshape import Interp, NeedAtom
    consts = set()
    for n in func.walk():
        if n.get('k') == 'IntegerLiteral':
            v = n.get('val')
            if v is None and 'vals' in n:
                v = int(n['vals'])
            if v is not None:
                consts.add(v)
    top = (1 << bits) - 1
    # value is only compared with these constants: `< c` / `>= c` change their outcome at c, `<= c` / `> c` at c + 1
    cuts = sorted({x for c in consts for x in (c, c + 1) if 0 < x <= top})
    bounds = [0] + cuts + [top + 1]
    # `value` may only be compared
    pname = func.params[0]['name']
    local = None
    for n in func.walk():
        if n.get('k') == 'DeclStmt':
            for d in n['decls']:
                local = d['name']
    for n in func.walk():
        if n.get('k') == 'DeclRefExpr' and n['ref'].get('name') in (local,):
            p = func.parent(n)
            while p is not None and p.get('k') in ('ImplicitCastExpr',):
                p = func.parent(p)
            if p is None or p.get('k') != 'BinaryOperator' or p.get('op') not in ('<', '<=', '>', '>=', '==', '!='):
                raise Unsupported('value used outside a comparison at line %s' % n.get('l'))
    res = []
    for lo, hi in zip(bounds, bounds[1:]):
        hi -= 1
        if hi < lo:
            continue
        outs = []
        for v in (lo, hi):
            it = Interp(func, {pname: v}, opaque_ok=False)
            # big literals carry 'vals'
            out = it.run(func.body)
            outs.append(out)
        if outs[0] != outs[1] or outs[0][0] != 'return':
            raise Unsupported('interval [%d,%d] not uniform: %s' % (lo, hi, outs))
        res.append((lo, hi, outs[0][1]))
    return res
