"""Engine B: exhaustive truth tables of small predicates.

A function whose operands are only compared (with each other / with
constants), incremented or tested for emptiness is interpreted over EVERY
assignment of a small concrete domain to its atoms (fields, parameters,
opaque calls).  Because the function's outcome depends only on the ordering of
the atoms relative to each other and to the constants in the code, a domain
with enough points in every gap is exhaustive for all values of any totally
ordered type.  This is abstract evaluation of the source, not execution of
Celma: no Celma code is compiled or run."""
import itertools

from .facts import children, strip_casts, walk, CALL_KINDS, AnalysisBroken


class Unsupported(Exception):
    pass


class NeedAtom(Exception):
    def __init__(self, key, kind):
        self.key = key
        self.kind = kind


class Throw(Exception):
    def __init__(self, typ):
        self.typ = typ


class Return(Exception):
    def __init__(self, val):
        self.val = val


class ContinueLoop(Exception):
    pass


class BreakLoop(Exception):
    pass


STRING_T = 'std::basic_string<char'


def path_key(n):
    """canonical name of an lvalue path / opaque expression"""
    n = strip_casts(n)
    k = n.get('k')
    if k == 'CXXThisExpr':
        return 'this'
    if k == 'DeclRefExpr':
        return n['ref']['name']
    if k == 'MemberExpr':
        base = children(n)
        b = path_key(base[0]) if base else 'this'
        return b + '.' + n['ref']['name']
    if k in ('ImplicitCastExpr', 'CStyleCastExpr', 'CXXStaticCastExpr', 'CXXFunctionalCastExpr'):
        return path_key(children(n)[0])
    if k == 'UnaryOperator' and n.get('op') == '*':
        return '*' + path_key(children(n)[0])
    if k in CALL_KINDS:
        kids = children(n)
        callee = n.get('callee', '?')
        short = callee.split('::')[-1]
        if k == 'CXXMemberCallExpr':
            obj = children(kids[0])[0] if kids and children(kids[0]) else None
            args = kids[1:]
            return '%s.%s(%s)' % (path_key(obj) if obj else '?', short, ','.join(path_key(a) for a in args))
        if k == 'CXXOperatorCallExpr':
            return '%s(%s)' % (short, ','.join(path_key(a) for a in kids[1:]))
        if k in ('CXXConstructExpr', 'CXXTemporaryObjectExpr'):
            return '%s(%s)' % (short, ','.join(path_key(a) for a in kids))
        return '%s(%s)' % (short, ','.join(path_key(a) for a in kids[1:]))
    if k == 'IntegerLiteral':
        return str(n.get('val'))
    if k == 'StringLiteral':
        return repr(n.get('val'))
    if k == 'ArraySubscriptExpr':
        kids = children(n)
        return '%s[%s]' % (path_key(kids[0]), path_key(kids[1]))
    return '<%s@%s>' % (k, n.get('id'))


class Interp:
    """interpreter over a concrete environment of atoms"""

    def __init__(self, func, env, string_as_int=True, opaque_ok=True, callbacks=None, prog=None,
                 depth=0):
        self.prog = prog
        self.depth = depth
        self.func = func
        self.env = dict(env)
        self.locals = {}
        self.opaque_ok = opaque_ok
        self.callbacks = callbacks or {}
        self.steps = 0

    # ---- atoms
    def atom(self, key, kind):
        if key in self.locals:
            return self.locals[key]
        if key not in self.env:
            hook = self.callbacks.get('<atom>')
            if hook is not None:
                v = hook(self, key)
                if v is not None:
                    return v
            raise NeedAtom(key, kind)
        return self.env[key]

    def set_atom(self, key, val):
        if key in self.locals:
            self.locals[key] = val
        else:
            self.env[key] = val

    @staticmethod
    def kind_of(n):
        t = n.get('t', '')
        t = t.replace('const ', '')
        if t == 'bool':
            return 'bool'
        return 'ord'

    # ---- expressions
    def ev(self, n):
        self.steps += 1
        if self.steps > 20000:
            raise Unsupported('step limit')
        k = n.get('k')
        if 'cv' in n and k not in ('DeclRefExpr', 'MemberExpr') or k in ('IntegerLiteral', 'CharacterLiteral'):
            if 'cv' in n:
                return n['cv']
            if 'cvs' in n:
                return int(n['cvs'])
            if 'vals' in n:
                return int(n['vals'])
            return n.get('val')
        if 'cvs' in n and k not in ('DeclRefExpr', 'MemberExpr'):
            return int(n['cvs'])
        if k == 'CXXBoolLiteralExpr':
            return 1 if n['val'] else 0
        if k == 'CXXNullPtrLiteralExpr' or k == 'GNUNullExpr':
            return 0
        if k == 'StringLiteral':
            return len(n.get('val', '')) and (1000 + len(n.get('val', '')))
        if k in ('ImplicitCastExpr', 'CStyleCastExpr', 'CXXStaticCastExpr', 'CXXFunctionalCastExpr'):
            v = self.ev(children(n)[0])
            ck = n.get('ck')
            if ck in ('IntegralToBoolean', 'PointerToBoolean', 'FloatingToBoolean'):
                return 1 if v else 0
            return v
        if k == 'DeclRefExpr':
            r = n['ref']
            if r.get('dk') == 'EnumConstant':
                return r['val']
            if 'cv' in n and r.get('sto') not in ('local', 'param'):
                return n['cv']
            return self.atom(r['name'], self.kind_of(n))
        if k == 'MemberExpr':
            if n.get('ref', {}).get('dk') == 'Var' and 'cv' in n:
                return n['cv']
            return self.atom(path_key(n), self.kind_of(n))
        if k == 'CXXThisExpr':
            return self.atom('this', 'ord')
        if k == 'UnaryOperator':
            op = n['op']
            sub = children(n)[0]
            if op == '!':
                return 0 if self.ev(sub) else 1
            if op == '-':
                return -self.ev(sub)
            if op == '+':
                return self.ev(sub)
            if op in ('++', '--'):
                key = path_key(sub)
                old = self.ev(sub)
                new = old + (1 if op == '++' else -1)
                self.set_atom(key, new)
                return old if n.get('postfix') else new
            if op == '*':
                return self.atom(path_key(n), self.kind_of(n))
            raise Unsupported('unary ' + op)
        if k in ('BinaryOperator', 'CompoundAssignOperator'):
            op = n['op']
            a, b = children(n)
            if op == '&&':
                return 1 if (self.ev(a) and self.ev(b)) else 0
            if op == '||':
                return 1 if (self.ev(a) or self.ev(b)) else 0
            if op == ',':
                self.ev(a)
                return self.ev(b)
            if op == '=':
                v = self.ev(b)
                hook = self.callbacks.get('<store>')
                if hook is not None and hook(self, a, v):
                    return v
                self.set_atom(path_key(a), v)
                return v
            if op in ('+=', '-=', '|=', '&='):
                v = self.ev(b)
                old = self.ev(a)
                new = {'+=': old + v, '-=': old - v, '|=': old | v, '&=': old & v}[op]
                new = self.wrap(new, n)
                self.set_atom(path_key(a), new)
                return new
            x, y = self.ev(a), self.ev(b)
            return self.wrap(self.binop(op, x, y), n)
        if k == 'ConditionalOperator':
            c, a, b = children(n)
            return self.ev(a) if self.ev(c) else self.ev(b)
        if k in CALL_KINDS:
            return self.call(n)
        if k == 'CXXThrowExpr':
            raise Throw(n.get('tt', '?'))
        if k == 'SubstNonTypeTemplateParmExpr':
            if 'cv' in n:
                return n['cv']
            return self.ev(children(n)[0])
        if k == 'CXXDefaultArgExpr':
            return self.ev(children(n)[0])
        if k == 'ArraySubscriptExpr':
            # an element of an array the interpreter does not model: an atom of the scenario (env / '<atom>' hook)
            return self.atom(path_key(n), self.kind_of(n))
        raise Unsupported('expression kind %s at line %s' % (k, n.get('l')))

    UNSIGNED_BITS = {'unsigned char': 8, 'unsigned short': 16, 'unsigned int': 32, 'unsigned long': 64,
                     'unsigned long long': 64}

    def wrap(self, v, n):
        """unsigned arithmetic is modulo 2^N"""
        if isinstance(v, int) and not isinstance(v, bool):
            bits = self.UNSIGNED_BITS.get((n.get('t') or '').replace('const ', ''))
            if bits:
                return v & ((1 << bits) - 1)
        return v

    @staticmethod
    def binop(op, x, y):
        if op == '==':
            return 1 if x == y else 0
        if op == '!=':
            return 1 if x != y else 0
        if op == '<':
            return 1 if x < y else 0
        if op == '<=':
            return 1 if x <= y else 0
        if op == '>':
            return 1 if x > y else 0
        if op == '>=':
            return 1 if x >= y else 0
        if op == '+':
            return x + y
        if op == '-':
            return x - y
        if op == '&':
            return x & y
        if op == '|':
            return x | y
        if op == '^':
            return x ^ y
        raise Unsupported('binary ' + op)

    def call(self, n):
        callee = n.get('callee', '')
        short = callee.split('::')[-1]
        kids = children(n)
        k = n['k']
        if callee in self.callbacks:
            return self.callbacks[callee](self, n)
        if short in self.callbacks:
            return self.callbacks[short](self, n)
        # string / container model: value 0 = empty, value = length
        if k == 'CXXMemberCallExpr' and kids and kids[0].get('k') == 'MemberExpr':
            objn = children(kids[0])[0] if children(kids[0]) else None
            if short == 'empty' and objn is not None:
                return 1 if self.ev_obj(objn) == 0 else 0
            if short in ('length', 'size') and objn is not None:
                return self.ev_obj(objn)
        if k == 'CXXOperatorCallExpr' and n.get('op') in ('==', '!=', '<', '<=', '>', '>='):
            a, b = kids[1], kids[2]
            return self.binop(n['op'], self.ev_obj(a), self.ev_obj(b))
        if k == 'CXXOperatorCallExpr' and n.get('op') == '!':
            return 0 if self.ev_obj(kids[1]) else 1
        if k in ('CXXConstructExpr', 'CXXTemporaryObjectExpr') and len(kids) == 1:
            return self.ev_obj(kids[0])      # copy / conversion construction
        # const member functions of the same object / static helpers of the repository: inline
        if self.prog is not None and self.depth < 4 and n.get('ckey') in self.prog.by_key and \
                not n.get('virtcall'):
            g = self.prog.by_key[n['ckey']][0]
            is_this = False
            if k == 'CXXMemberCallExpr' and kids and kids[0].get('k') == 'MemberExpr':
                objn = children(kids[0])
                is_this = bool(objn) and strip_casts(objn[0]).get('k') == 'CXXThisExpr'
            if (is_this or g.cls is None or g.d.get('static')) and g.body is not None:
                args = kids[1:]
                sub = Interp(g, self.env, callbacks=self.callbacks, prog=self.prog, depth=self.depth + 1)
                for p, a in zip(g.params, args):
                    sub.locals[p['name']] = self.ev_obj(a)
                try:
                    out = sub.run(g.body)
                finally:
                    pass
                self.env.update({k2: v for k2, v in sub.env.items()})
                if out[0] == 'throw':
                    raise Throw(out[1])
                return out[1]
        if not self.opaque_ok:
            raise Unsupported('call to %s at line %s' % (callee, n.get('l')))
        return self.atom(path_key(n), self.kind_of(n))

    def ev_obj(self, n):
        """value of an object-typed expression (strings etc. are modelled as ints)"""
        n0 = strip_casts(n)
        if n0.get('k') in ('DeclRefExpr', 'MemberExpr') and not ('cv' in n0):
            r = n0.get('ref', {})
            if r.get('dk') == 'EnumConstant':
                return r['val']
            return self.atom(path_key(n0), 'ord')
        return self.ev(n0)

    # ---- statements
    def run(self, body):
        try:
            self.stmt(body)
        except Return as r:
            return ('return', r.val)
        except Throw as t:
            return ('throw', t.typ)
        return ('return', None)

    def stmt(self, n):
        if n is None:
            return
        k = n.get('k')
        if k == 'CompoundStmt':
            for c in children(n):
                self.stmt(c)
        elif k == 'IfStmt':
            kids = n.get('c', [])
            # children: [init?, condvar?, cond, then, else?]; clang lists cond, then, else
            ks = [c for c in kids if c is not None]
            cond, then = ks[0], ks[1]
            els = ks[2] if len(ks) > 2 else None
            if cond.get('k') == 'DeclStmt':     # if (T x = ...)
                self.stmt(cond)
                cond, then = ks[1], ks[2]
                els = ks[3] if len(ks) > 3 else None
            if self.ev(cond):
                self.stmt(then)
            elif els is not None:
                self.stmt(els)
        elif k == 'ReturnStmt':
            kids = children(n)
            raise Return(self.ev_obj(kids[0]) if kids else None)
        elif k == 'DeclStmt':
            for d in n.get('decls', []):
                if isinstance(d.get('init'), dict):
                    self.locals[d['name']] = self.ev_obj(d['init'])
                else:
                    self.locals[d['name']] = 0
        elif k == 'NullStmt':
            return
        elif k == 'SwitchStmt':
            self.switch(n)
        elif k == 'BreakStmt':
            raise BreakLoop()
        elif k == 'ContinueStmt':
            raise ContinueLoop()
        elif k == 'CXXForRangeStmt' and '<range>' in self.callbacks:
            # a range-for over a modelled container: the callback lists the elements
            kids = n.get('c', [])
            rng, decl, body = kids[0], kids[1], kids[2]
            name = decl['decls'][0]['name']
            for tok in self.callbacks['<range>'](self, rng):
                self.locals[name] = tok
                try:
                    self.stmt(body)
                except ContinueLoop:
                    continue
                except BreakLoop:
                    break
        elif k in ('WhileStmt', 'ForStmt') and self.callbacks.get('<loops>'):
            # generic loops over modelled iterators / counters (bounded: the scripted inputs are finite)
            kids = n.get('c', [])
            if k == 'ForStmt':
                init, _cv, cond, inc, body = (kids + [None] * 5)[:5]
            else:
                init, inc = None, None
                cond, body = kids[-2], kids[-1]
            if init is not None:
                self.stmt(init)
            for _round in range(200):
                if cond is not None and not self.ev(cond):
                    break
                try:
                    self.stmt(body)
                except ContinueLoop:
                    pass
                except BreakLoop:
                    break
                if inc is not None:
                    self.ev(inc)
            else:
                raise Unsupported('loop does not end within the bound')
        elif k in ('WhileStmt', 'ForStmt', 'DoStmt', 'CXXForRangeStmt'):
            raise Unsupported('loop')
        else:
            self.ev(n)

    def switch(self, n):
        kids = [c for c in n.get('c', []) if c is not None]
        cond, body = kids[0], kids[-1]
        v = self.ev(cond)
        # flatten the case structure: list of (label values | 'default', stmt)
        seq = []

        def flat(s):
            if s.get('k') == 'CaseStmt':
                seq.append(('case', s.get('val')))
                for c in children(s):
                    flat(c)
            elif s.get('k') == 'DefaultStmt':
                seq.append(('default', None))
                for c in children(s):
                    flat(c)
            else:
                seq.append(('stmt', s))
        for s in children(body):
            flat(s)
        start = None
        for i, (kind, val) in enumerate(seq):
            if kind == 'case' and val == v:
                start = i
                break
        if start is None:
            for i, (kind, val) in enumerate(seq):
                if kind == 'default':
                    start = i
                    break
        if start is None:
            return
        try:
            for kind, s in seq[start:]:
                if kind == 'stmt':
                    self.stmt(s)
        except BreakLoop:
            pass


def constants_in(func):
    cs = set()
    for n in func.walk():
        if n.get('k') == 'IntegerLiteral' and isinstance(n.get('val'), int):
            cs.add(n['val'])
        elif n.get('k') == 'UnaryOperator' and n.get('op') == '-' and 'cv' in n:
            cs.add(n['cv'])
        elif n.get('k') == 'CharacterLiteral':
            cs.add(n['val'])
    return {c for c in cs if abs(c) < 1000}


def truth_table(func, oracle=None, fixed=None, extra_domain=(), max_atoms=6, callbacks=None,
                bool_atoms=(), body=None, prog=None):
    """enumerate all assignments; returns list of (env, outcome).  Atoms are
    discovered on demand.  `fixed` pre-binds atoms."""
    consts = constants_in(func)
    atoms = []        # (key, kind)
    rows = []
    fixed = dict(fixed or {})

    def domain(kind, natoms):
        if kind == 'bool':
            return [0, 1]
        d = set(extra_domain)
        for c in consts:
            d.update((c - 1, c, c + 1))
        base = max(consts | {0})
        low = min(consts | {0})
        for i in range(1, natoms + 1):
            d.add(base + 1 + i)
            d.add(low - 1 - i)
        d.update((0, 1))
        return sorted(d)

    while True:
        need = None
        rows = []
        nord = sum(1 for _, k in atoms if k != 'bool')
        doms = [domain('bool' if key in bool_atoms else kind, nord) for key, kind in atoms]
        total = 1
        for d in doms:
            total *= len(d)
        if total > 400000:
            raise Unsupported('truth table too large (%d rows, atoms %s)' % (total, atoms))
        for combo in itertools.product(*doms):
            env = dict(fixed)
            env.update({a[0]: v for a, v in zip(atoms, combo)})
            it = Interp(func, env, callbacks=callbacks, prog=prog)
            try:
                out = it.run(body or func.body)
            except NeedAtom as na:
                need = (na.key, na.kind)
                break
            rows.append((env, out, it.env))
        if need is None:
            return atoms, rows
        if need in atoms or len(atoms) >= max_atoms:
            raise Unsupported('too many atoms: %s + %s' % (atoms, need))
        atoms.append(need)
