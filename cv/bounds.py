"""Engine C, part 2: path-wise symbolic execution of small member functions over the
linear-inequality domain of lin.py.

 * values are linear expressions over symbols (parameters, fields at entry, strlen(p),
   s.length(), v.size(), fresh symbols), pointers (region + linear offset) or opaque
 * every path keeps a conjunction of linear constraints; branch conditions split the path
 * unsigned arithmetic is modelled soundly: a-b / a+b / narrowing casts are linear only if the
   absence of wrap-around is entailed, otherwise the result is a (memoised) unconstrained symbol
 * loops: modified variables are havocked; class invariants + monotone-counter facts are assumed at
   the head, the body is executed once and the invariants are proved again (induction)
 * every memory access raises the obligations  0 <= off  and  off + n <= size(region)
 * class invariants are assumed at entry and proved at every normal exit
Obligations that are not entailed are reported with function, access, region and path condition.
Nothing is executed and no solver is called: entailment is Fourier-Motzkin (lin.py)."""
import itertools
import re

from .facts import children, strip_casts, strip_all_casts, walk, CALL_KINDS, AnalysisBroken
from .lin import Lin, lin, ge, le, gt, lt, eq, entails, feasible, TooBig

UBITS = {'bool': 1, 'unsigned char': 8, 'unsigned short': 16, 'unsigned int': 32, 'unsigned long': 64,
         'unsigned long long': 64}
SBITS = {'signed char': 8, 'char': 8, 'short': 16, 'int': 32, 'long': 64, 'long long': 64}
MAX_STATES = 400
VECTOR_MAX_SIZE = (1 << 63) - 1      # upper bound of std::vector<T>::max_size() on LP64


def btype(t):
    return (t or '').replace('const ', '').replace('volatile ', '').strip()


class Ptr:
    __slots__ = ('region', 'off')

    def __init__(self, region, off):
        self.region, self.off = region, lin(off)

    def __repr__(self):
        return '&%s[%r]' % (self.region, self.off)


class Obj:
    """reference to a modelled object (std::string, FixedString, std::vector...)"""
    __slots__ = ('name', 'kind')

    def __init__(self, name, kind):
        self.name, self.kind = name, kind

    def __repr__(self):
        return '<%s %s>' % (self.kind, self.name)


class Bit:
    """a boolean value as an expression over bits read from memory (used for std::vector<bool> contents):
    ('c', 0|1) | ('r', region, offset Lin, epoch) | ('not', e) | ('and'|'or'|'xor', e1, e2);  epoch = length of the
    write log at the time of the read"""
    __slots__ = ('e',)

    def __init__(self, e):
        self.e = e

    def __repr__(self):
        return 'bit%r' % (self.e,)

    @staticmethod
    def of(v):
        if isinstance(v, Bit):
            return v
        if isinstance(v, Lin) and v.is_const() and v.c in (0, 1):
            return Bit(('c', int(v.c)))
        return None


class Unknown:
    def __repr__(self):
        return '?'


UNKNOWN = Unknown()


class Obligation:
    def __init__(self, root, kind, what, held, where, detail=''):
        self.root, self.kind, self.what, self.held, self.where, self.detail = root, kind, what, held, where, detail


class St:
    """one path state"""

    def __init__(self):
        self.vars = {}
        self.fields = {}
        self.cons = []
        self.regions = {}
        self.nul = {}          # region -> list of Lin offsets known to hold '\0'
        self.ftypes = {}       # (obj, field) -> declared type (for re-creating havocked fields)
        self.cells = {}        # (region, offset key) -> stored value (pointers kept in arrays)
        self.wraps = []        # descriptions of unsigned wrap-arounds taken on this path
        self.wlog = []         # ordered log of memory writes (content provenance, see Engine.log_write)
        self.ghost = []        # observation facts: ('elem', Ptr, value) | ('memcmp', a, b, n, result) |
        #                        ('inset', set Ptr, value, found)
        self.status = 'normal'
        self.ret = None
        self.trail = []        # human readable branch decisions

    def copy(self):
        s = St()
        s.vars = dict(self.vars)
        s.fields = dict(self.fields)
        s.cons = list(self.cons)
        s.regions = dict(self.regions)
        s.nul = {k: list(v) for k, v in self.nul.items()}
        s.ftypes = dict(self.ftypes)
        s.cells = dict(self.cells)
        s.wraps = list(self.wraps)
        s.wlog = list(self.wlog)
        s.ghost = list(self.ghost)
        s.status = self.status
        s.ret = self.ret
        s.trail = list(self.trail)
        return s

    def assume(self, *cs):
        for c in cs:
            if isinstance(c, list):
                self.cons.extend(c)
            else:
                self.cons.append(c)
        return self

    def ok(self):
        try:
            return feasible(self.cons)
        except TooBig:
            return True


class Engine:
    def __init__(self, prog, config=None):
        self.prog = prog
        self.cfg = config or {}
        self.loop_depth = 0
        self.obligations = []
        self.root = None
        self.counter = itertools.count()
        self.depth = 0
        self.notes = []
        self.param_max = self.cfg.get('param_max')       # optional bound for size_t parameters
        self.models = dict(DEFAULT_MODELS)
        self.models.update(self.cfg.get('models', {}))
        self.unsupported = []

    # ------------------------------------------------------------------ symbols
    def fresh(self, hint, st=None, t=None):
        name = '%s#%d' % (hint, next(self.counter))
        v = Lin.sym(name)
        if st is not None and t is not None:
            self.type_range(st, v, t)
        return v

    def named(self, name, st=None, t=None):
        v = Lin.sym(name)
        if st is not None and t is not None:
            self.type_range(st, v, t)
        return v

    def type_range(self, st, v, t):
        t = btype(t)
        if t in UBITS:
            st.assume(ge(v, 0), le(v, (1 << UBITS[t]) - 1))
        elif t in SBITS:
            b = SBITS[t]
            st.assume(ge(v, -(1 << (b - 1))), le(v, (1 << (b - 1)) - 1))

    # ------------------------------------------------------------------ content provenance
    def log_write(self, st, entry):
        """entry: ('copy', dst Ptr, src Ptr, n) | ('fill', dst Ptr, value, n) | ('put', dst Ptr, value) |
        ('opaque', dst Ptr, n, tag) | ('unknown', region).  Writes made inside a loop body (analysed once for an
        arbitrary iteration) do not describe the final content: the whole region becomes unknown."""
        if not self.cfg.get('track_content') or self.cfg.get('suppress_log'):
            return
        dst = entry[1]
        if self.loop_depth > 0 and not self.cfg.get('content_invariant_loops'):
            entry = ('unknown', dst.region if isinstance(dst, Ptr) else dst)
        st.wlog.append(entry)

    def content_at(self, st, region, off, upto=None):
        """provenance of the byte region[ off] after the first `upto` log entries: list of (descriptor, state)
        with descriptor ('init', region, off) | ('const', value) | ('opaque', tag, off) | ('unknown',); the
        state carries the case-split assumptions under which the descriptor is the right one."""
        log = st.wlog
        k = len(log) if upto is None else upto
        for j in range(k - 1, -1, -1):
            e = log[j]
            if e[0] == 'unknown':
                if e[1] in (region, '*'):
                    return [(('unknown',), st)]
                continue
            if e[0] == 'rebase':
                # the content of the region is described by an (inductively proved) content invariant from here
                # on backwards: e[2]( state, offset) -> list of (descriptor, state)
                if e[1] == region:
                    return e[2](self, st, off)
                continue
            dst = e[1]
            if not isinstance(dst, Ptr):
                return [(('unknown',), st)]
            if dst.region != region:
                continue
            lo = dst.off
            n = lin(1) if e[0] == 'put' else e[3] if e[0] in ('copy', 'fill') else e[2]
            res = []
            inside = st.copy()
            inside.assume(ge(off, lo), lt(off, lo + n))
            if inside.ok():
                if e[0] == 'copy':
                    src = e[2]
                    if isinstance(src, Ptr):
                        res.extend(self.content_at(inside, src.region, src.off + (off - lo), j))
                    else:
                        res.append((('unknown',), inside))
                elif e[0] in ('fill', 'put'):
                    v = e[2]
                    res.append(((('const', v) if isinstance(v, Lin) else ('unknown',)), inside))
                else:
                    res.append((('opaque', e[3], off - lo), inside))
            below = st.copy()
            below.assume(lt(off, lo))
            if below.ok():
                res.extend(self.content_at(below, region, off, j))
            above = st.copy()
            above.assume(ge(off, lo + n))
            if above.ok():
                res.extend(self.content_at(above, region, off, j))
            return res
        return [(('init', region, off), st)]

    # ------------------------------------------------------------------ obligations
    def oblige(self, st, goals, kind, what, node, func, detail=''):
        held = True
        missing = []
        for g in goals:
            if not entails(st.cons, g):
                held = False
                missing.append(g)
        where = func.loc(node) if func is not None and node is not None else ''
        d = detail
        if not held:
            d = (detail + ' ' if detail else '') + 'cannot prove %s on the path [%s]' % (
                ' and '.join('%r >= 0' % m for m in missing), '; '.join(st.trail[-8:]))
        self.obligations.append(Obligation(self.root, kind, what, held, where, d))
        return held

    def access(self, st, ptr, n, what, node, func, write=False):
        """obligation for touching elements [off, off+n) of ptr's region"""
        if not isinstance(ptr, Ptr):
            self.obligations.append(Obligation(self.root, 'bounds', what, False,
                                               func.loc(node) if func else '', 'access through an untracked pointer'))
            return False
        if write:
            # remembered element values of the region are no longer valid
            for key in [k for k in st.cells if k[0] == ptr.region and isinstance(st.cells[k], Lin)]:
                del st.cells[key]
        size = st.regions.get(ptr.region)
        if size is None:
            self.obligations.append(Obligation(self.root, 'bounds', what, False,
                                               func.loc(node) if func else '', 'region %s has unknown size' % ptr.region))
            return False
        n = lin(n)
        goals = [ge(ptr.off, 0), le(ptr.off + n, size)]
        ok = self.oblige(st, goals, 'bounds', '%s of %s stays inside %s' % ('write' if write else 'read', what, ptr.region),
                         node, func, 'offset %r, count %r, region size %r;' % (ptr.off, n, size))
        if write:
            self.kill_nul(st, ptr, n)
        return ok

    def kill_nul(self, st, ptr, n):
        """a write of n elements at ptr invalidates NUL facts that may overlap"""
        facts = st.nul.get(ptr.region)
        if not facts:
            return
        keep = []
        for z in facts:
            # keep if z < off or z >= off + n is entailed
            if entails(st.cons, lt(z, ptr.off)) or entails(st.cons, ge(z, ptr.off + n)):
                keep.append(z)
        st.nul[ptr.region] = keep

    def add_nul(self, st, region, off):
        st.nul.setdefault(region, []).append(lin(off))

    def has_nul(self, st, region, off):
        off = lin(off)
        for z in st.nul.get(region, []):
            if entails(st.cons, ge(z, off)) and entails(st.cons, le(z, off)):
                return True
        return False

    # ------------------------------------------------------------------ arithmetic
    def wrap_sym(self, st, op, a, b, t):
        name = 'wrap<%s>(%r %s %r)' % (btype(t), a, op, b)
        v = Lin.sym(name)
        self.type_range(st, v, t)
        return v

    def arith(self, st, op, a, b, t, node=None, func=None):
        """a op b in type t; a, b Lin (or Ptr for pointer arithmetic)"""
        if isinstance(a, Ptr) and isinstance(b, Lin) and op in ('+', '-'):
            return Ptr(a.region, a.off + b if op == '+' else a.off - b)
        if isinstance(b, Ptr) and isinstance(a, Lin) and op == '+':
            return Ptr(b.region, b.off + a)
        if isinstance(a, Ptr) and isinstance(b, Ptr) and op == '-':
            if a.region == b.region:
                return a.off - b.off
            return self.fresh('ptrdiff', st, t)
        if not isinstance(a, Lin) or not isinstance(b, Lin):
            return self.fresh('val', st, t) if btype(t) in UBITS or btype(t) in SBITS else UNKNOWN
        bt = btype(t)
        if op == '+':
            r = a + b
        elif op == '-':
            r = a - b
        elif op == '*':
            if a.is_const() or b.is_const():
                r = a * b
            else:
                return self.fresh('prod', st, t)
        elif op in ('/', '%'):
            if b.is_const() and a.is_const() and b.c != 0:
                r = lin(int(a.c) // int(b.c) if op == '/' else int(a.c) % int(b.c))
            elif op == '/' and b.is_const() and b.c > 0:
                q = self.fresh('quot', st, t)
                # q*b <= a < q*b + b   (a >= 0 only; otherwise unconstrained)
                if entails(st.cons, ge(a, 0)):
                    st.assume(le(q.scale(b.c), a), lt(a, q.scale(b.c) + b.c), ge(q, 0))
                return q
            elif op == '%' and b.is_const() and b.c > 0:
                m = self.fresh('rem', st, t)
                if entails(st.cons, ge(a, 0)):
                    st.assume(ge(m, 0), le(m, b.c - 1), le(m, a))
                return m
            else:
                return self.fresh('div', st, t)
        elif op in ('<<', '>>', '&', '|', '^'):
            if op in ('<<', '>>') and self.cfg.get('check_shifts') and node is not None:
                # the shift distance must be smaller than the width of the (promoted) left operand
                width = 64 if ('long' in bt) else 32
                held = entails(st.cons, ge(b, 0)) and entails(st.cons, le(b, width - 1))
                self.obligations.append(Obligation(
                    self.root, 'shift', 'the shift distance is smaller than the %d bits of the shifted operand' % width,
                    held, func.loc(node) if func is not None else '',
                    '' if held else 'distance %r on the path [%s]' % (b, '; '.join(st.trail[-5:]))))
            if a.is_const() and b.is_const():
                x, y = int(a.c), int(b.c)
                r = lin({'<<': x << y, '>>': x >> y, '&': x & y, '|': x | y, '^': x ^ y}[op])
            else:
                return self.fresh('bits', st, t)
        else:
            return self.fresh('val', st, t)
        if bt in UBITS:
            mx = (1 << UBITS[bt]) - 1
            if entails(st.cons, ge(r, 0)) and entails(st.cons, le(r, mx)):
                return r
            return self.wrap_sym(st, op, a, b, t)
        return r

    def arith_split(self, st, op, a, b, t, node=None, func=None, what=None):
        """a op b in type t with EXACT modular semantics for unsigned + and -: when the absence of
        wrap-around is not entailed the state is split into the non-wrapping case (linear result)
        and the wrapping case (linear result +/- 2^N); the wrapping state is marked"""
        bt = btype(t)
        if op in ('+', '-') and isinstance(a, Lin) and isinstance(b, Lin) and bt in UBITS and UBITS[bt] >= 8:
            n = UBITS[bt]
            r = a + b if op == '+' else a - b
            mx = (1 << n) - 1
            lo_ok = entails(st.cons, ge(r, 0))
            hi_ok = entails(st.cons, le(r, mx))
            if lo_ok and hi_ok:
                return [(r, st)]
            out = []
            ok = st.copy()
            ok.assume(ge(r, 0), le(r, mx))
            if ok.ok():
                out.append((r, ok))
            desc = '%s: %r %s %r wraps' % (func.loc(node) if (func is not None and node is not None) else '?', a, op, b)
            if not lo_ok:
                w = st.copy()
                w.assume(le(r, -1))
                if w.ok():
                    w.wraps.append((what or '', desc))
                    w.trail.append('WRAP %r %s %r < 0' % (a, op, b))
                    out.append((r + (1 << n), w))
            if not hi_ok:
                w = st.copy()
                w.assume(ge(r, mx + 1))
                if w.ok():
                    w.wraps.append((what or '', desc))
                    w.trail.append('WRAP %r %s %r > max' % (a, op, b))
                    out.append((r - (1 << n), w))
            return out
        return [(self.arith(st, op, a, b, t, node, func), st)]

    def convert_split(self, st, v, t, from_t=None):
        """integral conversion that may split the state on the sign of the source value:
        signed -> same-width unsigned is v for v >= 0 and v + 2^N for v < 0 (both linear)"""
        if not isinstance(v, Lin):
            return [(v, st)]
        bt, ft = btype(t), btype(from_t)
        if bt in UBITS and ft in SBITS and UBITS[bt] >= SBITS[ft] and UBITS[bt] > 1:
            if entails(st.cons, ge(v, 0)):
                return [(v, st)]
            if entails(st.cons, le(v, -1)):
                return [(v + (1 << UBITS[bt]), st)]
            a, b = st.copy(), st.copy()
            a.assume(ge(v, 0))
            a.trail.append('%r >= 0' % v)
            b.assume(le(v, -1))
            b.trail.append('%r < 0' % v)
            out = []
            if a.ok():
                out.append((v, a))
            if b.ok():
                out.append((v + (1 << UBITS[bt]), b))
            return out
        if bt in SBITS and ft in UBITS and SBITS[bt] == UBITS[ft]:
            half = 1 << (SBITS[bt] - 1)
            if entails(st.cons, le(v, half - 1)):
                return [(v, st)]
            if entails(st.cons, ge(v, half)):
                return [(v - (1 << SBITS[bt]), st)]
            a, b = st.copy(), st.copy()
            a.assume(le(v, half - 1))
            a.trail.append('%r < 2^%d' % (v, SBITS[bt] - 1))
            b.assume(ge(v, half))
            b.trail.append('%r >= 2^%d' % (v, SBITS[bt] - 1))
            out = []
            if a.ok():
                out.append((v, a))
            if b.ok():
                out.append((v - (1 << SBITS[bt]), b))
            return out
        return [(self.convert(st, v, t), st)]

    def convert(self, st, v, t):
        """integral conversion of v to type t"""
        if not isinstance(v, Lin):
            return v
        bt = btype(t)
        if bt in UBITS:
            mx = (1 << UBITS[bt]) - 1
            if entails(st.cons, ge(v, 0)) and entails(st.cons, le(v, mx)):
                return v
            name = 'conv<%s>(%r)' % (bt, v)
            s = Lin.sym(name)
            self.type_range(st, s, bt)
            return s
        if bt in SBITS:
            b = SBITS[bt]
            if entails(st.cons, ge(v, -(1 << (b - 1)))) and entails(st.cons, le(v, (1 << (b - 1)) - 1)):
                return v
            name = 'conv<%s>(%r)' % (bt, v)
            s = Lin.sym(name)
            self.type_range(st, s, bt)
            return s
        return v

    # ------------------------------------------------------------------ lvalues
    def lvalue(self, n, st, func):
        """returns list of (lv, st); lv = ('var', name) | ('field', obj, name) | ('mem', Ptr) | None"""
        n0 = strip_casts(n)
        k = n0.get('k')
        if k == 'DeclRefExpr':
            name = n0['ref']['name']
            v = st.vars.get(name)
            if isinstance(v, tuple) and v and v[0] == 'ref':
                return [(v[1], st)]
            return [(('var', name), st)]
        if k == 'MemberExpr' and n0.get('ref', {}).get('dk') == 'Field':
            base = children(n0)
            res = []
            for bv, s2 in (self.ev(base[0], st, func) if base else [(Obj('this', 'this'), st)]):
                obj = bv.name if isinstance(bv, Obj) else ('this' if strip_casts(base[0]).get('k') == 'CXXThisExpr' else None)
                if obj is None and isinstance(bv, Ptr):
                    obj = bv.region
                res.append((('field', obj or '?', n0['ref']['name']), s2))
            return res
        if k == 'ArraySubscriptExpr':
            b, i = children(n0)
            res = []
            for bv, s1 in self.ev(b, st, func):
                for iv, s2 in self.ev(i, s1, func):
                    if isinstance(bv, Ptr) and isinstance(iv, Lin):
                        res.append((('mem', Ptr(bv.region, bv.off + iv)), s2))
                    else:
                        res.append((('mem', None), s2))
            return res
        if k == 'UnaryOperator' and n0.get('op') == '*':
            res = []
            for pv, s1 in self.ev(children(n0)[0], st, func):
                if isinstance(pv, Obj):
                    res.append((('value', pv), s1))       # *this, *ptr_to_object
                else:
                    res.append((('mem', pv if isinstance(pv, Ptr) else None), s1))
            return res
        if k == 'UnaryOperator' and n0.get('op') in ('++', '--') and not n0.get('postfix'):
            res = []
            for _, s1 in self.ev(n0, st, func):
                res.extend(self.lvalue(children(n0)[0], s1, func))
            return res
        if k in ('CStyleCastExpr', 'CXXStaticCastExpr', 'CXXConstCastExpr', 'CXXReinterpretCastExpr',
                 'ImplicitCastExpr'):
            return self.lvalue(children(n0)[0], st, func)
        if k in ('BinaryOperator', 'CompoundAssignOperator') and n0.get('op', '').endswith('=') and \
                n0.get('op') not in ('==', '!=', '<=', '>='):
            # an assignment used as an lvalue (chained assignment  a = b = 0)
            res = []
            for _, s1 in self.ev(n0, st, func):
                res.extend(self.lvalue(children(n0)[0], s1, func))
            return res
        if k == 'ConditionalOperator':
            c, a, b = children(n0)
            res = []
            for truth, s1 in self.cond(c, st, func):
                res.extend(self.lvalue(a if truth else b, s1, func))
            return res
        if k == 'ParenExpr':
            return self.lvalue(children(n0)[0], st, func)
        if k in CALL_KINDS:
            res = []
            for v, s1 in self.call(n0, st, func):
                if isinstance(v, tuple) and v and v[0] == 'lvptr':
                    res.append((('mem', v[1]), s1))
                else:
                    res.append((('value', v), s1))
            return res
        return [(None, st)]

    def load(self, lv, st, node, func, t=None):
        if lv is None:
            return self.fresh('val', st, t) if btype(t) in UBITS or btype(t) in SBITS else UNKNOWN
        if lv[0] == 'var':
            v = st.vars.get(lv[1])
            if v is None:
                v = self.named(lv[1], st, t) if btype(t) in UBITS or btype(t) in SBITS else UNKNOWN
                st.vars[lv[1]] = v
            return v
        if lv[0] == 'field':
            key = (lv[1], lv[2])
            v = st.fields.get(key)
            if v is None:
                v = self.init_field(st, lv[1], lv[2], t)
            return v
        if lv[0] == 'value':
            return lv[1]
        if lv[0] == 'mem':
            if lv[1] is None:
                self.obligations.append(Obligation(self.root, 'bounds', 'read through an untracked pointer', False,
                                                   func.loc(node) if func else '', ''))
            else:
                self.access(st, lv[1], 1, 'element', node, func, write=False)
                cell = st.cells.get((lv[1].region, lv[1].off.key()))
                if cell is not None:
                    return cell
                hook = self.cfg.get('load_hook')
                if hook is not None:
                    hv = hook(self, st, lv[1], t)
                    if hv is not None:
                        return hv
                if self.cfg.get('track_reads') and (btype(t) in UBITS or btype(t) in SBITS):
                    v = self.fresh('elem', st, t)
                    st.ghost.append(('elem', lv[1], v))
                    # reading the same element again (no write in between) yields the same value
                    st.cells[(lv[1].region, lv[1].off.key())] = v
                    return v
            return self.fresh('elem', st, t) if btype(t) in UBITS or btype(t) in SBITS else UNKNOWN
        return UNKNOWN

    def init_field(self, st, obj, name, t):
        bt = btype(t)
        st.ftypes[(obj, name)] = t
        if bt in UBITS or bt in SBITS:
            v = self.named('%s.%s' % (obj, name), st, t)
        elif bt in self.prog.enums:
            # an enumeration: an integer (any value of the underlying type), never an object
            v = self.named('%s.%s' % (obj, name), st, 'int')
        elif bt.endswith(']') and '[' in bt:
            # array field: a region
            region = '%s.%s' % (obj, name)
            m = re.search(r'\[(\d+)\]$', bt)
            if region not in st.regions and m:
                st.regions[region] = lin(int(m.group(1)))
            v = Ptr(region, 0)
        else:
            v = Obj('%s.%s' % (obj, name), bt)
        st.fields[(obj, name)] = v
        return v

    def store(self, lv, v, st, node, func):
        if lv is None:
            return
        if lv[0] == 'var':
            st.vars[lv[1]] = v
        elif lv[0] == 'field':
            st.fields[(lv[1], lv[2])] = v
        elif lv[0] == 'mem':
            if lv[1] is None:
                self.obligations.append(Obligation(self.root, 'bounds', 'write through an untracked pointer', False,
                                                   func.loc(node) if func else '', ''))
                return
            self.access(st, lv[1], 1, 'element', node, func, write=True)
            self.log_write(st, ('put', lv[1], v))
            if self.cfg.get('on_store'):
                self.cfg['on_store'](self, st, lv[1], v, node, func)
            # a write to the region invalidates every remembered cell of it (may alias), then remember this one
            for key in [k for k in st.cells if k[0] == lv[1].region]:
                del st.cells[key]
            if isinstance(v, (Ptr, Obj)):
                st.cells[(lv[1].region, lv[1].off.key())] = v
            if isinstance(v, Lin) and v.is_const() and v.c == 0:
                self.add_nul(st, lv[1].region, lv[1].off)

    # ------------------------------------------------------------------ expressions
    def ev(self, n, st, func):
        """list of (value, state)"""
        k = n.get('k')
        t = n.get('t')
        if 'cv' in n and k not in ('DeclRefExpr', 'MemberExpr', 'CallExpr', 'CXXMemberCallExpr'):
            return [(lin(n['cv']), st)]
        if 'cvs' in n and k not in ('DeclRefExpr', 'MemberExpr'):
            return [(lin(int(n['cvs'])), st)]
        if k in ('IntegerLiteral', 'CharacterLiteral'):
            return [(lin(n.get('val', int(n.get('vals', 0)))), st)]
        if k == 'CXXBoolLiteralExpr':
            return [(lin(int(n['val'])), st)]
        if k in ('CXXNullPtrLiteralExpr', 'GNUNullExpr'):
            return [(lin(0), st)]
        if k == 'FloatingLiteral':
            return [(('float', n.get('val')), st)]
        if k == 'StringLiteral':
            region = 'lit@%s' % n['id']
            st.regions[region] = lin(n.get('len', 0) + 1)
            self.add_nul(st, region, n.get('len', 0))
            st.fields[(region, 'strlen')] = lin(n.get('len', 0))
            return [(Ptr(region, 0), st)]
        if k == 'CXXThisExpr':
            return [(Obj('this', 'this'), st)]
        if k == 'ImplicitCastExpr' or k in ('CStyleCastExpr', 'CXXStaticCastExpr', 'CXXFunctionalCastExpr',
                                            'CXXConstCastExpr', 'CXXReinterpretCastExpr'):
            ck = n.get('ck')
            sub = children(n)[0]
            if ck == 'LValueToRValue':
                res = []
                for lv, s1 in self.lvalue(sub, st, func):
                    res.append((self.load(lv, s1, sub, func, t), s1))
                return res
            res = []
            for v, s1 in self.ev(sub, st, func):
                if ck in ('IntegralCast',):
                    for v2, s2 in self.convert_split(s1, v, t, sub.get('t')):
                        res.append((v2, s2))
                    continue
                elif ck == 'ArrayToPointerDecay':
                    if isinstance(v, Obj):
                        v = Ptr(v.name, 0)
                elif ck in ('IntegralToBoolean', 'PointerToBoolean'):
                    pass
                elif ck in ('FloatingToIntegral',):
                    v = self.float_to_int(s1, v, t)
                elif ck in ('IntegralToFloating',):
                    v = ('float_of', v) if isinstance(v, Lin) else v
                res.append((v, s1))
            return res
        if k == 'DeclRefExpr':
            r = n['ref']
            if r.get('dk') == 'EnumConstant':
                return [(lin(r['val']), st)]
            if r.get('dk') == 'Var':
                lvs = self.lvalue(n, st, func)
                return [(self.load(lv, s1, n, func, r.get('dt') or t), s1) for lv, s1 in lvs]
            return [(UNKNOWN, st)]
        if k == 'MemberExpr':
            if n.get('ref', {}).get('dk') == 'Field':
                return [(self.load(lv, s1, n, func, t), s1) for lv, s1 in self.lvalue(n, st, func)]
            return [(UNKNOWN, st)]
        if k == 'ArraySubscriptExpr':
            return [(self.load(lv, s1, n, func, t), s1) for lv, s1 in self.lvalue(n, st, func)]
        if k == 'SubstNonTypeTemplateParmExpr':
            return self.ev(children(n)[0], st, func)
        if k == 'UnaryOperator':
            return self.unary(n, st, func)
        if k in ('BinaryOperator', 'CompoundAssignOperator'):
            return self.binary(n, st, func)
        if k == 'ConditionalOperator':
            c, a, b = children(n)
            res = []
            for truth, s1 in self.cond(c, st, func):
                res.extend(self.ev(a if truth else b, s1, func))
            return res
        if k in CALL_KINDS:
            res = []
            for v, s1 in self.call(n, st, func):
                if isinstance(v, tuple) and v and v[0] == 'lvptr':
                    v = self.load(('mem', v[1]), s1, n, func, t)
                res.append((v, s1))
            return res
        if k == 'UnaryExprOrTypeTraitExpr':
            return [(self.fresh('sizeof', st, t), st)]
        if k == 'CXXNewExpr':
            return self.new_expr(n, st, func)
        if k == 'CXXDefaultArgExpr':
            return self.ev(children(n)[0], st, func)
        if k == 'LambdaExpr':
            return [(UNKNOWN, st)]
        if k == 'InitListExpr':
            return [(UNKNOWN, st)]
        if k == 'CXXThrowExpr':
            s = st.copy()
            s.status = 'throw'
            return [(UNKNOWN, s)]
        self.unsupported.append('%s at %s' % (k, func.loc(n) if func else '?'))
        return [(self.fresh('val', st, t) if btype(t) in UBITS or btype(t) in SBITS else UNKNOWN, st)]

    def float_to_int(self, st, v, t):
        # x * 1.5 on a non-negative integer x: result r >= x
        if isinstance(v, tuple) and v[0] == 'float_mul':
            x, f = v[1], v[2]
            r = self.fresh('scaled', st, t)
            if f >= 1 and isinstance(x, Lin) and entails(st.cons, ge(x, 0)):
                st.assume(ge(r, x))
                if f >= 1.5 and entails(st.cons, ge(x, 2)):
                    st.assume(ge(r, x + 1))
            return r
        return self.fresh('fromfloat', st, t)

    def unary(self, n, st, func):
        op = n['op']
        sub = children(n)[0]
        t = n.get('t')
        if op in ('++', '--'):
            res = []
            for lv, s1 in self.lvalue(sub, st, func):
                old = self.load(lv, s1, sub, func, t)
                if isinstance(old, Ptr):
                    new = Ptr(old.region, old.off + (1 if op == '++' else -1))
                elif isinstance(old, Lin):
                    vname = strip_all_casts(sub).get('ref', {}).get('name', '?')
                    for new, s2 in self.arith_split(s1, '+' if op == '++' else '-', old, lin(1), t, n, func,
                                                    what='var:' + vname):
                        self.store(lv, new, s2, n, func)
                        res.append((old if n.get('postfix') else new, s2))
                    continue
                else:
                    new = old
                self.store(lv, new, s1, n, func)
                res.append((old if n.get('postfix') else new, s1))
            return res
        if op == '&':
            res = []
            for lv, s1 in self.lvalue(sub, st, func):
                if lv is not None and lv[0] == 'mem' and lv[1] is not None:
                    res.append((lv[1], s1))
                elif lv is not None and lv[0] == 'field':
                    v = self.load(lv, s1, sub, func, sub.get('t'))
                    res.append((v if isinstance(v, Ptr) else Obj('%s.%s' % (lv[1], lv[2]), 'addr'), s1))
                elif lv is not None and lv[0] == 'var':
                    v = s1.vars.get(lv[1])
                    res.append((v if isinstance(v, (Ptr, Obj)) else Obj(lv[1], 'addr'), s1))
                else:
                    res.append((UNKNOWN, s1))
            return res
        if op == '*':
            return [(self.load(lv, s1, n, func, t), s1) for lv, s1 in self.lvalue(n, st, func)]
        res = []
        for v, s1 in self.ev(sub, st, func):
            if op == '-' and isinstance(v, Lin):
                res.append((self.arith(s1, '-', lin(0), v, t, n, func), s1))
            elif op == '+':
                res.append((v, s1))
            elif op == '!' and isinstance(v, Bit):
                res.append((Bit(('not', v.e)), s1))
            elif op == '!':
                res.append((self.fresh('not', s1, 'bool'), s1))
            elif op == '~' and isinstance(v, Lin) and v.is_const():
                res.append((self.convert(s1, lin(~int(v.c)), t), s1))
            else:
                res.append((self.fresh('val', s1, t), s1))
        return res

    def binary(self, n, st, func):
        op = n['op']
        a, b = children(n)
        t = n.get('t')
        if op in ('&&', '||', '<', '<=', '>', '>=', '==', '!='):
            res = []
            for truth, s1 in self.cond(n, st, func):
                res.append((lin(1 if truth else 0), s1))
            return res
        if op == ',':
            res = []
            for _, s1 in self.ev(a, st, func):
                res.extend(self.ev(b, s1, func))
            return res
        if op == '=':
            res = []
            for v, s1 in self.ev(b, st, func):
                for lv, s2 in self.lvalue(a, s1, func):
                    self.store(lv, v, s2, n, func)
                    res.append((v, s2))
            return res
        if op.endswith('=') and op[:-1] in ('+', '-', '*', '/', '%', '<<', '>>', '&', '|', '^'):
            res = []
            for v, s1 in self.ev(b, st, func):
                for lv, s2 in self.lvalue(a, s1, func):
                    old = self.load(lv, s2, a, func, a.get('t'))
                    vname = strip_all_casts(a).get('ref', {}).get('name', '?')
                    for new, s3 in self.arith_split(s2, op[:-1], old, v, a.get('t') or t, n, func,
                                                    what='var:' + vname):
                        self.store(lv, new, s3, n, func)
                        res.append((new, s3))
            return res
        res = []
        for x, s1 in self.ev(a, st, func):
            for y, s2 in self.ev(b, s1, func):
                if op in ('&', '|', '^') and (isinstance(x, Bit) or isinstance(y, Bit)):
                    bx, by = Bit.of(x), Bit.of(y)
                    if bx is not None and by is not None:
                        res.append((Bit(({'&': 'and', '|': 'or', '^': 'xor'}[op], bx.e, by.e)), s2))
                        continue
                if op == '*' and ((isinstance(x, tuple) and x[0] == 'float_of') or
                                  (isinstance(y, tuple) and y[0] == 'float')):
                    xi = x[1] if isinstance(x, tuple) and x[0] == 'float_of' else x
                    f = y[1] if isinstance(y, tuple) and y[0] == 'float' else None
                    if f is not None and isinstance(xi, Lin):
                        res.append((('float_mul', xi, f), s2))
                        continue
                res.extend(self.arith_split(s2, op, x, y, t, n, func))
        return res

    # ------------------------------------------------------------------ conditions
    def cond(self, n, st, func):
        """list of (truth, state) with the branch constraint added"""
        n0 = strip_casts(n)
        k = n0.get('k')
        if k == 'ImplicitCastExpr' and n0.get('ck') in ('IntegralToBoolean', 'PointerToBoolean'):
            return self.cond_nonzero(children(n0)[0], st, func)
        if k == 'UnaryOperator' and n0.get('op') == '!':
            return [(not tr, s1) for tr, s1 in self.cond(children(n0)[0], st, func)]
        if k == 'BinaryOperator' and n0.get('op') == '&&':
            a, b = children(n0)
            res = []
            for tr, s1 in self.cond(a, st, func):
                if not tr:
                    res.append((False, s1))
                else:
                    res.extend(self.cond(b, s1, func))
            return res
        if k == 'BinaryOperator' and n0.get('op') == '||':
            a, b = children(n0)
            res = []
            for tr, s1 in self.cond(a, st, func):
                if tr:
                    res.append((True, s1))
                else:
                    res.extend(self.cond(b, s1, func))
            return res
        if k == 'BinaryOperator' and n0.get('op') in ('<', '<=', '>', '>=', '==', '!='):
            a, b = children(n0)
            res = []
            for x, s1 in self.ev(a, st, func):
                for y, s2 in self.ev(b, s1, func):
                    res.extend(self.compare(n0['op'], x, y, s2, n0, func))
            return res
        if k == 'CXXBoolLiteralExpr':
            return [(bool(n0['val']), st)]
        if 'cv' in n0 and k not in ('DeclRefExpr', 'MemberExpr'):
            return [(bool(n0['cv']), st)]
        if k in CALL_KINDS:
            m = self.cond_call(n0, st, func)
            if m is not None:
                return m
        return self.cond_nonzero(n0, st, func)

    def cond_nonzero(self, n, st, func):
        res = []
        for v, s1 in self.ev(n, st, func):
            if s1.status != 'normal':
                res.append((True, s1))
                continue
            if isinstance(v, Lin):
                res.extend(self.compare('!=', v, lin(0), s1, n, func))
            elif isinstance(v, Bit):
                a, b = s1, s1.copy()
                a.ghost.append(('bitfact', v.e, True))
                b.ghost.append(('bitfact', v.e, False))
                a.trail.append('%r is set' % (v,))
                b.trail.append('%r is clear' % (v,))
                res.extend([(True, a), (False, b)])
            elif isinstance(v, Ptr):
                res.append((True, s1))
            else:
                a, b = s1, s1.copy()
                a.trail.append('%s true' % self.describe(n))
                b.trail.append('%s false' % self.describe(n))
                res.extend([(True, a), (False, b)])
        return res

    def describe(self, n):
        n = strip_all_casts(n)
        if n.get('k') in ('DeclRefExpr', 'MemberExpr'):
            return n['ref'].get('name', '?')
        if n.get('k') in CALL_KINDS:
            return (n.get('callee') or '?').split('::')[-1] + '()'
        return '%s@%s' % (n.get('k'), n.get('l'))

    def compare(self, op, x, y, st, node, func):
        res = self.compare_(op, x, y, st, node, func)
        if self.cfg.get('cstring_elems'):
            for _, s in res:
                self.refine_cstring_elems(s)
        return res

    def refine_cstring_elems(self, st):
        """a byte read from inside a C string (offset <= strlen) is zero exactly at offset strlen: once a
        comparison has decided that the byte is (not) zero, the offset is (below) the length"""
        for g in st.ghost:
            if g[0] != 'elem':
                continue
            p, v = g[1], g[2]
            w = st.fields.get((p.region, 'strlen'))
            if w is None or not isinstance(v, Lin) or not entails(st.cons, le(p.off, w)):
                continue
            if entails(st.cons, ge(v, 1)) or entails(st.cons, le(v, -1)):
                if not entails(st.cons, le(p.off, w - 1)):
                    st.assume(le(p.off, w - 1))
            elif entails(st.cons, ge(v, 0)) and entails(st.cons, le(v, 0)):
                if not entails(st.cons, ge(p.off, w)):
                    st.assume(ge(p.off, w))

    def compare_(self, op, x, y, st, node, func):
        if isinstance(x, Ptr) and isinstance(y, Ptr) and x.region == y.region:
            x, y = x.off, y.off
        if isinstance(x, Ptr) and isinstance(y, Lin) and y.is_const() and y.c == 0:
            # pointer against nullptr: tracked pointers are valid
            return [((op in ('!=', '>')), st)]
        if isinstance(y, Ptr) and isinstance(x, Lin) and x.is_const() and x.c == 0:
            return [((op in ('!=', '<')), st)]
        if isinstance(x, Obj) and isinstance(y, Lin) and y.is_const() and y.c == 0:
            return [((op in ('!=', '>')), st)]       # address of a modelled object is not null
        if isinstance(y, Obj) and isinstance(x, Lin) and x.is_const() and x.c == 0:
            return [((op in ('!=', '<')), st)]
        if isinstance(x, Obj) and isinstance(y, Obj) and x.name == y.name and op in ('==', '!='):
            return [(op == '==', st)]             # the same modelled object
        if not (isinstance(x, Lin) and isinstance(y, Lin)):
            a, b = st, st.copy()
            a.trail.append('cond@%s true' % node.get('l'))
            b.trail.append('cond@%s false' % node.get('l'))
            return [(True, a), (False, b)]
        pos = {'<': [lt(x, y)], '<=': [le(x, y)], '>': [gt(x, y)], '>=': [ge(x, y)], '==': eq(x, y)}
        res = []
        if op == '!=':
            # true: x<y or x>y ; false: x==y
            for c, label in ((lt(x, y), '%r < %r' % (x, y)), (gt(x, y), '%r > %r' % (x, y))):
                s = st.copy()
                s.assume(c)
                s.trail.append(label)
                if s.ok():
                    res.append((True, s))
            s = st.copy()
            s.assume(eq(x, y))
            s.trail.append('%r == %r' % (x, y))
            if s.ok():
                res.append((False, s))
            return res
        if op == '==':
            s = st.copy()
            s.assume(eq(x, y))
            s.trail.append('%r == %r' % (x, y))
            if s.ok():
                res.append((True, s))
            for c, label in ((lt(x, y), '%r < %r' % (x, y)), (gt(x, y), '%r > %r' % (x, y))):
                s = st.copy()
                s.assume(c)
                s.trail.append(label)
                if s.ok():
                    res.append((False, s))
            return res
        neg = {'<': ge(x, y), '<=': gt(x, y), '>': le(x, y), '>=': lt(x, y)}
        s = st.copy()
        s.assume(pos[op])
        s.trail.append('%r %s %r' % (x, op, y))
        if s.ok():
            res.append((True, s))
        s = st.copy()
        s.assume(neg[op])
        s.trail.append('!(%r %s %r)' % (x, op, y))
        if s.ok():
            res.append((False, s))
        return res

    # ------------------------------------------------------------------ calls
    def cond_call(self, n, st, func):
        callee = n.get('callee', '')
        short = callee.split('::')[-1]
        if short == 'empty' and n.get('k') == 'CXXMemberCallExpr':
            res = []
            for v, s1 in self.call(n, st, func, want='length'):
                if isinstance(v, Lin):
                    for tr, s2 in self.compare('==', v, lin(0), s1, n, func):
                        res.append((tr, s2))
                else:
                    return None
            return res
        if n.get('k') == 'CXXOperatorCallExpr' and n.get('op') in ('==', '!=', '<', '<=', '>', '>='):
            kids = children(n)[1:]
            if len(kids) == 2 and n.get('ckey') in self.prog.by_key and any(
                    callee.startswith(pfx) for pfx in self.cfg.get('inline', ())):
                # a comparison operator of the repository that is analysed by inlining: its value decides
                vals = self.ev(n, st, func)
                if vals and all(isinstance(v, Lin) for v, _ in vals):
                    res = []
                    for v, s1 in vals:
                        res.extend(self.compare('!=', v, lin(0), s1, n, func))
                    return res
            if len(kids) == 2:
                res = []
                for x, s1 in self.ev(kids[0], st, func):
                    for y, s2 in self.ev(kids[1], s1, func):
                        if isinstance(x, Ptr) or isinstance(y, Ptr) or (isinstance(x, Lin) and isinstance(y, Lin)):
                            res.extend(self.compare(n['op'], x, y, s2, n, func))
                        else:
                            a, b = s2, s2.copy()
                            res.extend([(True, a), (False, b)])
                return res
        return None

    def find_model(self, callee):
        base = re.sub(r'<[^<>]*>$', '', callee)
        if base != callee:
            m = self.find_model(base)
            if m is not None:
                return m
        # models of the configuration take precedence over the default ones
        own = self.cfg.get('models', {})
        for table in (own, self.models):
            for pat, fn in table.items():
                if pat.endswith('*'):
                    if callee.startswith(pat[:-1]):
                        return fn
                elif callee == pat or callee.endswith('::' + pat):
                    return fn
        return None

    def call(self, n, st, func, want=None):
        callee = n.get('callee', '')
        k = n['k']
        kids = children(n)
        model = self.find_model(callee)
        if model is not None:
            r = model(self, n, st, func, want)
            if r is not None:
                return r
        # copy / move construction of a modelled object: a new object with a copy of the model state
        if k in ('CXXConstructExpr', 'CXXTemporaryObjectExpr') and model is None:
            real = [a for a in kids if not a.get('defarg')]
            ctor_cls = n.get('cclass')
            if len(real) == 1 and ctor_cls and btype((real[0].get('t') or '')) == ctor_cls:
                out = []
                for v, s1 in self.ev(real[0], st, func):
                    if isinstance(v, Obj):
                        name = 'copy@%s#%d' % (n['id'], next(self.counter))
                        self.clone_obj(s1, v.name, name)
                        out.append((Obj(name, v.kind), s1))
                    else:
                        out.append((v, s1))
                return out
        # repository function with a body: inline
        tgt = self.prog.by_key.get(n.get('ckey'))
        if tgt and tgt[0].body is not None and self.depth < self.cfg.get('inline_depth', 5) and \
                not n.get('virtcall') and self.inlineable(tgt[0]):
            if k in ('CXXConstructExpr', 'CXXTemporaryObjectExpr'):
                name = 'tmp@%s#%d' % (n['id'], next(self.counter))
                return [(Obj(name, btype(n.get('t'))), s1) for s1 in self.construct(n, tgt[0], st, func, name)]
            return self.inline(n, tgt[0], st, func)
        return self.opaque_call(n, st, func)

    def clone_obj(self, st, src, dst):
        """dst becomes a copy of the modelled object src (fields, sub-objects, regions)"""
        def ren(name):
            if name == src:
                return dst
            if isinstance(name, str) and name.startswith(src + '.'):
                return dst + name[len(src):]
            return None
        for (o, f), v in list(st.fields.items()):
            o2 = ren(o)
            if o2 is not None:
                if isinstance(v, Obj) and ren(v.name):
                    v = Obj(ren(v.name), v.kind)
                elif isinstance(v, Ptr) and ren(v.region):
                    v = Ptr(ren(v.region), v.off)
                st.fields[(o2, f)] = v
                if (o, f) in st.ftypes:
                    st.ftypes[(o2, f)] = st.ftypes[(o, f)]
        for r, size in list(st.regions.items()):
            if ren(r):
                st.regions[ren(r)] = size
                # the copy starts with the content of the original
                self.log_write(st, ('copy', Ptr(ren(r), 0), Ptr(r, 0), size))
        for r, z in list(st.nul.items()):
            if ren(r):
                st.nul[ren(r)] = list(z)

    def inlineable(self, f):
        pats = self.cfg.get('inline', ())
        return any(f.name.startswith(p) for p in pats)

    def args_of(self, n):
        kids = children(n)
        if n['k'] in ('CXXConstructExpr', 'CXXTemporaryObjectExpr'):
            return None, kids
        if n['k'] == 'CXXMemberCallExpr':
            objn = None
            if kids and kids[0].get('k') == 'MemberExpr' and children(kids[0]):
                objn = children(kids[0])[0]
            return objn, kids[1:]
        if n['k'] == 'CXXOperatorCallExpr':
            if n.get('cclass') and not n.get('cstatic'):
                return kids[1], kids[2:]
            return None, kids[1:]
        return None, kids[1:]

    def inline(self, n, f, st, func):
        objn, args = self.args_of(n)
        states = [(st, None, [])]
        # object
        if objn is not None:
            new = []
            for s, _, av in states:
                for ov, s1 in self.ev(objn, s, func):
                    new.append((s1, ov, av))
            states = new
        for p, a in zip(f.params, args):
            new = []
            for s, ov, av in states:
                pt = p['t']
                if pt.endswith('&') and not pt.startswith('const ') and btype(pt[:-1].strip()) in list(UBITS) + list(SBITS):
                    for lv, s1 in self.lvalue(a, s, func):
                        new.append((s1, ov, av + [('ref', lv)]))
                else:
                    for v, s1 in self.ev(a, s, func):
                        if isinstance(v, Lin):
                            v = self.convert(s1, v, pt)
                        new.append((s1, ov, av + [v]))
            states = new
        out = []
        self.depth += 1
        try:
            for s, ov, av in states:
                if s.status != 'normal':
                    out.append((UNKNOWN, s))
                    continue
                saved_vars = s.vars
                callee_state = s.copy()
                callee_state.vars = {}
                target_obj = ov.name if (isinstance(ov, Obj) and f.cls and not f.d.get('static')) else None
                for p, v in zip(f.params, av):
                    if target_obj and target_obj != 'this':
                        v = self.rename_value(v, 'this', target_obj)
                    callee_state.vars[p['name']] = v
                # default arguments
                for p in f.params[len(av):]:
                    if isinstance(p.get('default'), dict):
                        dv = self.ev(p['default'], callee_state, f)
                        callee_state.vars[p['name']] = dv[0][0]
                this_obj = None
                if f.cls and not f.d.get('static'):
                    this_obj = ov.name if isinstance(ov, Obj) else 'this'
                remap = None
                if this_obj is not None and this_obj != 'this':
                    # calling a member on another object: exchange the roles of the two objects
                    remap = this_obj
                    pv = callee_state.vars
                    callee_state.vars = {}
                    self.swap_state(callee_state, 'this', remap)
                    callee_state.vars = pv
                for r in self.exec_body(f, callee_state):
                    r.vars = {}
                    if remap is not None:
                        self.swap_state(r, 'this', remap)
                    rv = r.ret
                    r.ret = None
                    r.vars = dict(saved_vars)
                    if r.status == 'return':
                        r.status = 'normal'
                    out.append((rv if rv is not None else UNKNOWN, r))
        finally:
            self.depth -= 1
        if len(out) > MAX_STATES:
            out = out[:MAX_STATES]
            self.notes.append('state explosion while inlining %s' % f.key)
        return out

    @classmethod
    def rename_value(cls, v, a, b):
        """swap the object names a and b inside a value"""
        if isinstance(v, Obj):
            return Obj(cls.swap_name(v.name, a, b), v.kind)
        if isinstance(v, Ptr):
            return Ptr(cls.swap_name(v.region, a, b), v.off)
        if isinstance(v, Bit):
            return Bit(cls.rename_bitexpr(v.e, a, b))
        if isinstance(v, tuple) and v and v[0] == 'bitref':
            return ('bitref', cls.swap_name(v[1], a, b), v[2])
        if isinstance(v, tuple) and v and v[0] == 'lvptr' and isinstance(v[1], Ptr):
            return ('lvptr', Ptr(cls.swap_name(v[1].region, a, b), v[1].off))
        if isinstance(v, tuple) and v and v[0] == 'ref' and isinstance(v[1], tuple):
            lv = v[1]
            if lv[0] == 'field':
                return ('ref', ('field', cls.swap_name(lv[1], a, b), lv[2]))
            if lv[0] == 'mem' and isinstance(lv[1], Ptr):
                return ('ref', ('mem', Ptr(cls.swap_name(lv[1].region, a, b), lv[1].off)))
        return v

    @classmethod
    def rename_bitexpr(cls, e, a, b):
        k = e[0]
        if k == 'r':
            return ('r', cls.swap_name(e[1], a, b), e[2], e[3])
        if k == 'not':
            return ('not', cls.rename_bitexpr(e[1], a, b))
        if k in ('and', 'or', 'xor'):
            return (k, cls.rename_bitexpr(e[1], a, b), cls.rename_bitexpr(e[2], a, b))
        return e

    def swap_state(self, st, a, b):
        """exchange the roles of the objects a and b in a state (fields, regions, values)"""
        st.fields = {k: self.rename_value(v, a, b) for k, v in self.swap_obj(st.fields, a, b).items()}
        st.regions = self.swap_regions(st.regions, a, b)
        st.nul = self.swap_regions(st.nul, a, b)
        st.ftypes = self.swap_obj(st.ftypes, a, b)
        st.vars = {k: self.rename_value(v, a, b) for k, v in st.vars.items()}
        if st.ret is not None:
            st.ret = self.rename_value(st.ret, a, b)
        if st.ghost:
            st.ghost = [('bitfact', self.rename_bitexpr(e[1], a, b), e[2]) if e[0] == 'bitfact' else
                        tuple(self.rename_value(x, a, b) if isinstance(x, (Ptr, Bit)) else x for x in e)
                        for e in st.ghost]
        if st.wlog:
            st.wlog = [tuple(self.rename_value(x, a, b) if isinstance(x, (Ptr, Bit)) else
                             (self.swap_name(x, a, b) if i == 1 and e[0] == 'unknown' else x)
                             for i, x in enumerate(e)) for e in st.wlog]

    def run_ctor(self, f, cs, vals):
        """executes constructor f on the object currently called 'this' in state cs"""
        cs.vars = {}
        for p, v in zip(f.params, vals):
            cs.vars[p['name']] = v
        for p in f.params[len(vals):]:
            if isinstance(p.get('default'), dict):
                dv = self.ev(p['default'], cs, f)
                cs.vars[p['name']] = dv[0][0]
        cur = [cs]
        for ini in f.inits:
            init = ini.get('init')
            if not isinstance(init, dict):
                continue
            nxt = []
            if ini.get('kind') == 'member':
                for c0 in cur:
                    for v, c1 in self.ev(init, c0, f):
                        if isinstance(v, Lin):
                            ft = None
                            for cn, cl in self.prog.classes.items():
                                if cn == f.cls:
                                    for fl in cl['fields']:
                                        if fl['name'] == ini['name']:
                                            ft = fl['t']
                            if ft:
                                v = self.convert(c1, v, ft)
                                c1.ftypes[('this', ini['name'])] = ft
                        if not isinstance(v, Unknown):
                            c1.fields[('this', ini['name'])] = v
                        # an unmodelled member constructor: the member object is created lazily on first use
                        nxt.append(c1)
            elif ini.get('kind') == 'base' and init.get('k') == 'CXXConstructExpr':
                bt = self.prog.by_key.get(init.get('ckey'))
                if bt and self.inlineable(bt[0]):
                    for c0 in cur:
                        _, bargs = self.args_of(init)
                        for bvals, c1 in _ev_all(self, bargs, c0, f):
                            saved = c1.vars
                            for r in self.run_ctor(bt[0], c1, bvals):
                                r.vars = dict(saved)
                                if r.status == 'return':
                                    r.status = 'normal'
                                nxt.append(r)
                else:
                    nxt = cur
            else:
                nxt = cur
            cur = nxt
        if isinstance(f.body, dict):
            cur = self.stmt(f.body, cur, f)
        return cur

    def construct(self, n, f, st, func, objname):
        """runs constructor f for a new object called objname; returns states"""
        _, args = self.args_of(n)
        outs = []
        for vals, s in _ev_all(self, [a for a in args], st, func):
            if s.status != 'normal':
                outs.append(s)
                continue
            saved = s.vars
            cs = s.copy()
            self.swap_state(cs, 'this', objname)
            vals = [self.rename_value(v, 'this', objname) for v in vals]
            cs.fields[('this', '$new')] = lin(1)
            self.depth += 1
            try:
                cur = self.run_ctor(f, cs, vals)
            finally:
                self.depth -= 1
            for r in cur:
                r.vars = {}
                self.swap_state(r, 'this', objname)
                r.vars = dict(saved)
                if r.status == 'return':
                    r.status = 'normal'
                r.ret = None
                outs.append(r)
        return outs

    @classmethod
    def swap_name(cls, name, a, b):
        """a <-> b for an object / region name, including dotted sub-objects (a.mData, a.mString)"""
        if not isinstance(name, str):
            return name
        for src, dst in ((a, b), (b, a)):
            if name == src:
                return dst
            if name.startswith(src + '.'):
                return dst + name[len(src):]
        return name

    @classmethod
    def swap_obj(cls, fields, a, b):
        return {(cls.swap_name(o, a, b), f): v for (o, f), v in fields.items()}

    @classmethod
    def swap_regions(cls, regs, a, b):
        return {cls.swap_name(name, a, b): v for name, v in regs.items()}

    def opaque_call(self, n, st, func):
        """unknown callee: evaluate arguments (for their obligations), havoc what it may modify"""
        objn, args = self.args_of(n)
        states = [st]
        if objn is not None:
            states = [s1 for s in states for _, s1 in self.ev(objn, s, func)]
        for a in args:
            nxt = []
            for s in states:
                for v, s1 in self.ev(a, s, func):
                    if isinstance(v, Ptr) and not (a.get('t') or '').startswith('const '):
                        self.log_write(s1, ('unknown', v.region))      # the callee may write through it
                    nxt.append(s1)
            states = nxt
        res = []
        t = n.get('t')
        for s in states:
            if n.get('k') == 'CXXMemberCallExpr' and not n.get('cconst') and objn is not None and \
                    strip_casts(objn).get('k') == 'CXXThisExpr':
                # non-const member of the same object that is not inlined: all fields are havocked
                self.havoc_fields(s, (), True)
            if n.get('noreturn'):
                s.status = 'throw'
            v = self.fresh((n.get('callee') or 'call').split('::')[-1], s, t) \
                if btype(t) in UBITS or btype(t) in SBITS else UNKNOWN
            res.append((v, s))
        return res

    def new_expr(self, n, st, func):
        kids = n.get('c', [])
        size = kids[0] if kids else None
        if n.get('array') and isinstance(size, dict):
            res = []
            for v, s1 in self.ev(size, st, func):
                region = 'new@%s#%d' % (n['id'], next(self.counter))
                s1.regions[region] = v if isinstance(v, Lin) else self.fresh('newsize', s1, 'unsigned long')
                s1.fields[(region, 'newform')] = lin(1)
                res.append((Ptr(region, 0), s1))
            return res
        region = 'new@%s#%d' % (n['id'], next(self.counter))
        st.regions[region] = lin(1)
        st.fields[(region, 'newform')] = lin(0)
        return [(Ptr(region, 0), st)]

    # ------------------------------------------------------------------ statements
    def exec_body(self, f, st):
        """executes the body of f; returns final states (status return/throw/normal)"""
        if isinstance(f.body, dict):
            outs = self.stmt(f.body, [st], f)
        else:
            outs = [st]
        return outs

    def stmt(self, n, states, func):
        """executes statement n in every normal state; returns all resulting states"""
        if n is None:
            return states
        live = [s for s in states if s.status == 'normal']
        dead = [s for s in states if s.status != 'normal']
        if not live:
            return states
        if len(live) > MAX_STATES:
            self.notes.append('state explosion in %s: %d states' % (func.key, len(live)))
            live = live[:MAX_STATES]
        k = n.get('k')
        out = []
        if k == 'CompoundStmt':
            cur = live
            for c in children(n):
                cur = self.stmt(c, cur, func)
            return dead + cur
        if k == 'DeclStmt':
            cur = live
            for d in n.get('decls', []):
                nxt = []
                for s in cur:
                    if d.get('arraysize') is not None:
                        region = 'local.%s' % d['name']
                        s.regions[region] = lin(d['arraysize'])
                        s.vars[d['name']] = Ptr(region, 0)
                        if isinstance(d.get('init'), dict):
                            nxt.extend(s1 for _, s1 in self.ev(d['init'], s, func))
                        else:
                            nxt.append(s)
                        continue
                    ini = d.get('init')
                    if isinstance(ini, dict) and ini.get('k') == 'CXXConstructExpr':
                        tg = self.prog.by_key.get(ini.get('ckey'))
                        if tg and self.inlineable(tg[0]) and self.find_model(ini.get('callee', '')) is None:
                            for s1 in self.construct(ini, tg[0], s, func, 'local.' + d['name']):
                                s1.vars[d['name']] = Obj('local.' + d['name'], btype(d.get('t')))
                                nxt.append(s1)
                            continue
                    if isinstance(ini, dict) and ini.get('k') == 'CXXConstructExpr' and \
                            btype(d.get('t')).startswith(('std::vector<', 'std::deque<', 'std::list<')):
                        real = [a for a in children(ini) if not a.get('defarg')]
                        oname = 'local.' + d['name']
                        if not real:
                            s.fields[(oname, 'size')] = lin(0)          # default constructed: empty
                        s.vars[d['name']] = Obj(oname, btype(d.get('t')))
                        nxt.append(s)
                        continue
                    if isinstance(d.get('init'), dict):
                        for v, s1 in self.ev(d['init'], s, func):
                            if isinstance(v, Lin):
                                v = self.convert(s1, v, d.get('t'))
                            if d.get('t', '').endswith('&') and isinstance(v, Unknown):
                                pass
                            s1.vars[d['name']] = v
                            nxt.append(s1)
                    else:
                        bt = btype(d.get('t'))
                        s.vars[d['name']] = self.fresh(d['name'], s, bt) if bt in UBITS or bt in SBITS else \
                            Obj('local.' + d['name'], bt)
                        nxt.append(s)
                cur = nxt
            return dead + cur
        if k == 'IfStmt':
            ks = [c for c in n.get('c', []) if c is not None]
            cond, then = ks[0], ks[1]
            els = ks[2] if len(ks) > 2 else None
            pre = live
            if cond.get('k') == 'DeclStmt':
                pre = self.stmt(cond, live, func)
                cond, then = ks[1], ks[2]
                els = ks[3] if len(ks) > 3 else None
            tstates, fstates = [], []
            for s in pre:
                if s.status != 'normal':
                    dead.append(s)
                    continue
                for truth, s1 in self.cond(cond, s, func):
                    if s1.status != 'normal':
                        dead.append(s1)
                    elif truth:
                        tstates.append(s1)
                    else:
                        fstates.append(s1)
            out = self.stmt(then, tstates, func) if tstates else []
            if els is not None:
                out += self.stmt(els, fstates, func) if fstates else []
            else:
                out += fstates
            return dead + out
        if k == 'ReturnStmt':
            kids = children(n)
            for s in live:
                if kids:
                    if func.d.get('ret', '').endswith('&') and \
                            strip_casts(kids[0]).get('k') == 'ArraySubscriptExpr':
                        # a reference to an array element: the element must exist, the caller gets its address
                        for lv, s1 in self.lvalue(kids[0], s, func):
                            if s1.status == 'normal':
                                if lv and lv[0] == 'mem' and lv[1] is not None:
                                    self.access(s1, lv[1], 1, 'element', kids[0], func, write=False)
                                    s1.ret = ('lvptr', lv[1])
                                else:
                                    s1.ret = UNKNOWN
                                s1.status = 'return'
                            out.append(s1)
                        continue
                    if func.d.get('ret', '').endswith('&') and strip_casts(kids[0]).get('k') in CALL_KINDS:
                        # a reference handed through from a callee that returns a reference to an element
                        for v, s1 in self.call(strip_casts(kids[0]), s, func):
                            if s1.status == 'normal':
                                s1.status = 'return'
                                s1.ret = v
                            out.append(s1)
                        continue
                    for v, s1 in self.ev(kids[0], s, func):
                        if s1.status == 'normal':
                            s1.status = 'return'
                            s1.ret = v
                        out.append(s1)
                else:
                    s.status = 'return'
                    out.append(s)
            return dead + out
        if k in ('ForStmt', 'WhileStmt', 'DoStmt', 'CXXForRangeStmt'):
            return dead + self.loop(n, live, func)
        if k == 'BreakStmt':
            for s in live:
                s.status = 'break'
            return dead + live
        if k == 'ContinueStmt':
            for s in live:
                s.status = 'continue'
            return dead + live
        if k in ('NullStmt',):
            return states
        if k == 'AttributedStmt':
            cur = live
            for c in children(n):
                cur = self.stmt(c, cur, func)
            return dead + cur
        if k == 'CXXTryStmt':
            kids = children(n)
            cur = self.stmt(kids[0], live, func)
            return dead + cur
        if k == 'SwitchStmt':
            self.unsupported.append('switch at %s' % func.loc(n))
            return states
        # expression statement
        for s in live:
            for _, s1 in self.ev(n, s, func):
                out.append(s1)
        return dead + out

    # ------------------------------------------------------------------ loops
    def modified_in(self, nodes, func):
        """names of local variables and fields syntactically assigned inside the given nodes;
        also whether an un-inlined non-const member call on this occurs"""
        vars_, fields, havoc_this = set(), set(), False
        incs, decs = {}, {}
        self._mut_objs = getattr(self, '_mut_objs', set())
        for root in nodes:
            if not isinstance(root, dict):
                continue
            for x in walk(root):
                k = x.get('k')
                tgt = None
                if k in ('BinaryOperator', 'CompoundAssignOperator') and x.get('op', '').endswith('=') and \
                        x.get('op') not in ('==', '!=', '<=', '>='):
                    tgt = strip_all_casts(children(x)[0])
                elif k == 'UnaryOperator' and x.get('op') in ('++', '--'):
                    tgt = strip_all_casts(children(x)[0])
                if tgt is not None:
                    if tgt.get('k') == 'DeclRefExpr':
                        name = tgt['ref']['name']
                        vars_.add(name)
                        if k == 'UnaryOperator':
                            (incs if x['op'] == '++' else decs)[name] = incs.get(name, 0) + 1 if x['op'] == '++' \
                                else decs.get(name, 0) + 1
                        elif x.get('op') == '+=' and children(x)[1].get('cv', -1) >= 0:
                            incs[name] = incs.get(name, 0) + 1
                        elif x.get('op') == '-=' and children(x)[1].get('cv', -1) >= 0:
                            decs[name] = decs.get(name, 0) + 1
                        else:
                            incs[name] = incs.get(name, 0) + 1
                            decs[name] = decs.get(name, 0) + 1
                    elif tgt.get('k') == 'MemberExpr' and tgt.get('ref', {}).get('dk') == 'Field':
                        fields.add(tgt['ref']['name'])
                if k == 'DeclStmt':
                    for d in x.get('decls', []):
                        vars_.add(d['name'])
                        incs[d['name']] = decs[d['name']] = 1
                if k == 'CXXMemberCallExpr' and not x.get('cconst'):
                    kids = children(x)
                    if kids and kids[0].get('k') == 'MemberExpr' and children(kids[0]) and \
                            strip_casts(children(kids[0])[0]).get('k') == 'CXXThisExpr':
                        g = self.prog.by_key.get(x.get('ckey'))
                        if self.find_model(x.get('callee', '')) is not None:
                            pass          # modelled contract: touches no field
                        elif g and self.inlineable(g[0]) and not x.get('virtcall'):
                            v2, f2, h2, _, _ = self.modified_in([g[0].body], g[0])
                            fields |= f2
                            havoc_this = havoc_this or h2
                        else:
                            havoc_this = True
                    else:
                        # mutating call on a member object (vector resize, ...) or on a local object
                        if kids and kids[0].get('k') == 'MemberExpr' and children(kids[0]):
                            o = strip_all_casts(children(kids[0])[0])
                            if o.get('k') == 'MemberExpr' and o.get('ref', {}).get('dk') == 'Field':
                                fields.add(o['ref']['name'])
                            elif o.get('k') == 'DeclRefExpr':
                                vars_.add('obj:local.' + o['ref']['name'])
        return vars_, fields, havoc_this, incs, decs

    def loop(self, n, states, func):
        self.loop_depth += 1
        try:
            return self.loop_(n, states, func)
        finally:
            self.loop_depth -= 1

    def loop_writes_memory(self, n):
        """does the loop contain a store through a subscript / pointer or a call that may write memory?"""
        for x in walk(n):
            k = x.get('k')
            if k in ('BinaryOperator', 'CompoundAssignOperator') and (x.get('op') or '').endswith('=') and \
                    x.get('op') not in ('==', '!=', '<=', '>='):
                lhs = strip_all_casts(children(x)[0])
                if lhs.get('k') in ('ArraySubscriptExpr',) or (lhs.get('k') == 'UnaryOperator' and lhs.get('op') == '*') \
                        or lhs.get('k') in CALL_KINDS:
                    return True
            elif k == 'UnaryOperator' and x.get('op') in ('++', '--'):
                tgt = strip_all_casts(children(x)[0])
                if tgt.get('k') in ('ArraySubscriptExpr',) or (tgt.get('k') == 'UnaryOperator' and tgt.get('op') == '*'):
                    return True
            elif k in CALL_KINDS:
                callee = (x.get('callee') or '').split('::')[-1]
                if callee in ('memcpy', 'memmove', 'memset', 'strcpy', 'strncpy', 'strcat', 'sprintf', 'snprintf',
                              'vsnprintf', 'copy', 'fill'):
                    return True
                if '_Bit_reference::' in (x.get('callee') or '') and callee in ('operator=', 'flip', 'operator|=',
                                                                                 'operator&=', 'operator^='):
                    return True         # a store through the proxy of a std::vector<bool> element
        return False

    def loop_(self, n, states, func):
        over = self.cfg.get('loop_override')
        if over is not None:
            r = over(self, n, states, func)
            if r is not None:
                return r
        hook = self.cfg.get('loop_summary')
        if hook is None and self.cfg.get('track_content') and self.loop_depth == 1:
            hook = byte_fill_loop_summary
        if hook is not None and self.loop_depth == 1:
            # a loop whose complete effect on memory can be stated as one log entry ('map'): the entry is added
            # by the hook, the writes of the generic analysis of the body are not logged again
            if hook(self, n, states, func):
                old = self.cfg.get('suppress_log')
                self.cfg['suppress_log'] = True
                try:
                    return self.loop__(n, states, func)
                finally:
                    self.cfg['suppress_log'] = old
        return self.loop__(n, states, func)

    def loop__(self, n, states, func):
        if self.cfg.get('track_content') and not self.cfg.get('content_invariant_loops') and \
                not self.cfg.get('suppress_log') and self.loop_writes_memory(n):
            # the body is analysed for one arbitrary iteration only: the final content of whatever it
            # writes is not described by the log
            for s0 in states:
                s0.wlog.append(('unknown', '*'))
        k = n['k']
        kids = n.get('c', [])
        init = cond = inc = body = None
        if k == 'ForStmt':
            init, _condvar, cond, inc, body = (kids + [None] * 5)[:5]
        elif k == 'WhileStmt':
            ks = [c for c in kids]
            cond, body = ks[-2], ks[-1]
        elif k == 'DoStmt':
            body, cond = kids[0], kids[1]
        else:   # CXXForRangeStmt: [range, loopvar decl, body]
            body = kids[2]
        cur = states
        wraps_before = {id(s0): len(s0.wraps) for s0 in states}
        init_wrapped = {}
        if init is not None:
            marks = [(s0, len(s0.wraps)) for s0 in cur]
            nxt = []
            for s0, m0 in marks:
                for r0 in self.stmt(init, [s0], func):
                    init_wrapped[id(r0)] = r0.wraps[m0:]
                    nxt.append(r0)
            cur = nxt
        out = []
        vars_, fields, havoc_this, incs, decs = self.modified_in([cond, inc, body], func)
        peel = self.cfg.get('peel_loops', False) or k == 'DoStmt'
        if self.cfg.get('check_loop_bound_wrap'):
            for s0 in cur:
                if s0.status != 'normal':
                    continue
                for v in vars_:
                    val = s0.vars.get(v)
                    if isinstance(val, Lin):
                        w = [str(x) for x in val.syms() if str(x).startswith('wrap<')]
                        w += [d for _, d in init_wrapped.get(id(s0), [])]
                        self.obligations.append(Obligation(
                            self.root, 'wrap', 'start value of loop variable %s is not a wrapped unsigned expression' % v,
                            not w, func.loc(n), '' if not w else '%s on the path [%s]' % (w[0], '; '.join(s0.trail[-6:]))))

        # range-for over a container of known (symbolic) size: ghost iteration counter and
        # variables that are incremented exactly once per iteration (lock-step counters)
        rf_size = {}
        lockstep = []
        if k == 'CXXForRangeStmt' and not peel:
            body_kids = children(body) if body.get('k') == 'CompoundStmt' else [body]
            for bk in body_kids:
                b0 = strip_all_casts(bk)
                tgt = None
                if b0.get('k') == 'UnaryOperator' and b0.get('op') == '++':
                    tgt = strip_all_casts(children(b0)[0])
                elif b0.get('k') == 'CompoundAssignOperator' and b0.get('op') == '+=' and \
                        children(b0)[1].get('cv') == 1:
                    tgt = strip_all_casts(children(b0)[0])
                if tgt is not None and tgt.get('k') == 'DeclRefExpr':
                    nm = tgt['ref']['name']
                    if incs.get(nm) == 1 and not decs.get(nm):
                        lockstep.append(nm)

        def one_iteration(start_states, assume_cond):
            """runs cond (if assume_cond) + body + inc from the given head states; returns
            (states at the end of the iteration, states that left the loop at the condition)"""
            exits = []
            if k == 'CXXForRangeStmt':
                bs = []
                for h0 in start_states:
                    ex = h0.copy()
                    info = rf_size.get(id(h0))
                    if info:
                        ex.assume(eq(info[0], info[1]))
                        if ex.ok():
                            exits.append(ex)
                        h0 = h0.copy()
                        h0.assume(le(info[0], info[1] - 1))
                        if not h0.ok():
                            continue
                    else:
                        exits.append(ex)
                    for b0 in (self.stmt(kids[1], [h0.copy()], func) if isinstance(kids[1], dict) else [h0.copy()]):
                        lv = kids[1]['decls'][0]['name'] if kids[1] and kids[1].get('decls') else None
                        if lv:
                            lt_ = btype(kids[1]['decls'][0].get('t', '').rstrip('&').strip())
                            if lt_.startswith('std::basic_string<char'):
                                b0.vars[lv] = Obj('%s#%d' % (lv, next(self.counter)), 'std::string')
                            else:
                                b0.vars[lv] = UNKNOWN
                        bs.append(b0)
                body_states = self.stmt(body, bs, func) if bs else []
            elif k == 'DoStmt' or not assume_cond or cond is None:
                body_states = self.stmt(body, [h0.copy() for h0 in start_states], func) if start_states else []
            else:
                tstates = []
                for h0 in start_states:
                    for truth, s1 in self.cond(cond, h0.copy(), func):
                        (tstates if truth else exits).append(s1)
                body_states = self.stmt(body, tstates, func) if tstates else []
            after = []
            for b0 in body_states:
                if b0.status == 'break':
                    b0.status = 'normal'
                    out.append(b0)
                elif b0.status in ('continue', 'normal'):
                    b0.status = 'normal'
                    after.append(b0)
                else:
                    out.append(b0)      # return / throw
            if inc is not None:
                after = [s1 for a0 in after for _, s1 in self.ev(inc, a0, func)]
            return after, exits

        for s in cur:
            if s.status != 'normal':
                out.append(s)
                continue
            base_wraps = len(s.wraps)
            # class invariants must hold on entry
            self.check_invariants(s, func, n, 'on loop entry')
            first_after = []
            if peel:
                first_after, exits0 = one_iteration([s], True)
                if k != 'DoStmt':
                    out.extend(exits0)
                for a in first_after:
                    if a.status == 'normal':
                        self.check_invariants(a, func, n, 'after the first loop iteration')
                        for desc, goals in self.loop_invariants(a, func, n):
                            self.oblige(a, goals, 'invariant', '%s after the first loop iteration' % desc, n, func)
            else:
                for desc, goals in self.loop_invariants(s, func, n):
                    self.oblige(s, goals, 'invariant', '%s on loop entry' % desc, n, func)
            # general iteration: havocked state
            head = s.copy()
            mono = []
            for v in vars_:
                old = s.vars.get(v)
                refd = None
                if isinstance(old, tuple) and old and old[0] == 'ref':
                    refd = old[1]
                    old = self.load(refd, s, n, func, self.var_type(func, v, n))
                if isinstance(old, Lin):
                    nv = self.fresh(v, head, None)
                    if refd is not None:
                        self.store(refd, nv, head, n, func)
                    else:
                        head.vars[v] = nv
                    if incs.get(v) and not decs.get(v):
                        head.assume(ge(nv, old))
                        mono.append((v, 'inc', old))
                    elif decs.get(v) and not incs.get(v):
                        head.assume(le(nv, old))
                        mono.append((v, 'dec', old))
                elif isinstance(old, Ptr) and refd is None:
                    head.vars[v] = Ptr(old.region, self.fresh(v + '.off', head, None))
                elif v in head.vars and refd is None:
                    head.vars[v] = UNKNOWN
            it_sym = None
            if k == 'CXXForRangeStmt' and not peel:
                rng = self.ev(kids[0], s.copy(), func)
                rv = rng[0][0] if rng else None
                size = self.size_of(head, rv)
                if size is not None:
                    it_sym = self.fresh('iter', head, None)
                    head.assume(ge(it_sym, 0), le(it_sym, size))
                    rf_size[id(head)] = (it_sym, size)
                    for nm in lockstep:
                        v0 = self.vv(s, nm, func, n)
                        cur_v = self.vv(head, nm, func, n)
                        if isinstance(v0, Lin) and isinstance(cur_v, Lin):
                            head.assume(eq(cur_v, v0 + it_sym))
            self.havoc_fields(head, fields, havoc_this)
            for v in vars_:
                if v.startswith('obj:'):
                    for key in list(head.fields):
                        if key[0].startswith(v[4:]) and isinstance(head.fields[key], Lin):
                            head.fields[key] = self.fresh('%s.%s' % key, head, head.ftypes.get(key))
                            if key[1] in ('size', 'length'):
                                head.assume(ge(head.fields[key], 0), le(head.fields[key], 1 << 60))
            hook = self.cfg.get('loop_havoc')
            if hook:
                hook(self, head, func, n)
            self.assume_invariants(head, func)
            for desc, goals in self.loop_invariants(head, func, n):
                head.assume(*goals)
            for v in vars_:
                t = self.var_type(func, v, n)
                if t and isinstance(self.vv(head, v, func, n), Lin):
                    self.type_range(head, self.vv(head, v, func, n), t)
            # candidate bound for increasing unsigned counters: i <= 2^63 at the head; kept only if it is
            # inductive (holds on entry and is re-established by one iteration), otherwise the iteration is
            # analysed again without it
            cand = []
            for v, direction, old in mono:
                t = btype(self.var_type(func, v, n))
                if direction == 'inc' and t in ('unsigned long', 'unsigned long long') and \
                        entails(s.cons, le(old, 1 << 63)):
                    cand.append(v)
            mark_obl, mark_out = len(self.obligations), len(out)
            tentative = head.copy()
            if id(head) in rf_size:
                rf_size[id(tentative)] = rf_size[id(head)]
            for v in cand:
                tentative.assume(le(self.vv(tentative, v, func, n), 1 << 63))

            def run(h):
                if k == 'DoStmt':
                    starts = []
                    for truth, s1 in self.cond(cond, h.copy(), func):
                        if truth:
                            starts.append(s1)
                    return one_iteration(starts, False)
                return one_iteration([h], True)
            after, exits = run(tentative if cand else head)
            if cand and not all(entails(a.cons, le(self.vv(a, v, func, n), 1 << 63)) for a in after
                                if a.status == 'normal' for v in cand if isinstance(self.vv(a, v, func, n), Lin)):
                del self.obligations[mark_obl:]
                del out[mark_out:]
                after, exits = run(head)
            if k != 'DoStmt':
                out.extend(exits)
            for a in after:
                if a.status == 'normal':
                    self.check_invariants(a, func, n, 'after one loop iteration')
                    for desc, goals in self.loop_invariants(a, func, n):
                        self.oblige(a, goals, 'invariant', '%s is preserved by one loop iteration' % desc, n, func)
                    for v, direction, _old in mono:
                        nv = self.vv(a, v, func, n)
                        wrapped = (isinstance(nv, Lin) and any(str(x).startswith('wrap<') for x in nv.syms())) or \
                            any(w[0] == 'var:' + v for w in a.wraps[base_wraps:])
                        self.obligations.append(Obligation(
                            self.root, 'wrap', 'loop counter %s does not wrap around' % v, not wrapped,
                            func.loc(n), '' if not wrapped else
                            'the %s of the unsigned counter can wrap on the path [%s]' % (
                                'decrement' if direction == 'dec' else 'increment', '; '.join(a.trail[-6:]))))
            if k == 'DoStmt':
                for a in first_after + after:
                    if a.status != 'normal':
                        out.append(a)
                        continue
                    for truth, s1 in self.cond(cond, a, func):
                        if not truth:
                            out.append(s1)
        return out

    def size_of(self, st, v):
        """symbolic element count of a modelled container / string value"""
        if not isinstance(v, Obj):
            return None
        if (v.name, 'size') in st.fields:
            return st.fields[(v.name, 'size')]
        if (v.name, 'length') in st.fields:
            return st.fields[(v.name, 'length')]
        if 'vector' in v.kind or 'deque' in v.kind or 'list' in v.kind:
            sz = self.named('%s.size()' % v.name, st, 'unsigned long')
            st.assume(le(sz, 1 << 60))
            st.fields[(v.name, 'size')] = sz
            return sz
        if 'basic_string' in v.kind or v.kind == 'std::string':
            return self.string_len(st, v.name)
        return None

    def vv(self, st, name, func, node):
        """current value of a local variable, looking through a reference binding"""
        v = st.vars.get(name)
        if isinstance(v, tuple) and v and v[0] == 'ref':
            lv = v[1]
            if lv[0] == 'var':
                return st.vars.get(lv[1])
            if lv[0] == 'field':
                return st.fields.get((lv[1], lv[2]))
            return None
        return v

    def loop_invariants(self, st, func, loop):
        hook = self.cfg.get('loop_invariants')
        if hook is None:
            return []
        return hook(self, st, func, loop)

    def var_type(self, func, name, loop):
        for x in walk(loop):
            if x.get('k') == 'DeclStmt':
                for d in x.get('decls', []):
                    if d['name'] == name:
                        return d.get('t')
        for x in func.walk():
            if x.get('k') == 'DeclStmt':
                for d in x.get('decls', []):
                    if d['name'] == name:
                        return d.get('t')
        for p in func.params:
            if p['name'] == name:
                return p['t']
        return None

    def havoc_fields(self, st, fields, everything):
        for key in list(st.fields):
            if key[0] == 'this' and (everything or key[1] in fields or key[1].split('.')[0] in fields):
                old = st.fields[key]
                if isinstance(old, Lin):
                    # a NEW symbol: the entry symbol keeps describing the value at entry
                    st.fields[key] = self.fresh('%s.%s' % key, st, st.ftypes.get(key))
                elif isinstance(old, (Ptr, Obj)):
                    pass           # arrays / member objects keep their identity (contents are not tracked)
                else:
                    del st.fields[key]
        if everything or fields:
            for r in list(st.nul):
                if r.startswith('this.') and (everything or r[5:] in fields):
                    st.nul[r] = []

    # ------------------------------------------------------------------ invariants
    def invariants(self, st, func, obj='this'):
        """list of (description, goals, extra) for the class of func; from config"""
        inv = self.cfg.get('invariants')
        if inv is None:
            return []
        return inv(self, st, func, obj)

    def assume_invariants(self, st, func, obj='this'):
        for desc, goals, post in self.invariants(st, func, obj):
            st.assume(*goals)
            if post:
                post(self, st, 'assume')

    def check_invariants(self, st, func, node, when):
        for desc, goals, post in self.invariants(st, func):
            if goals:
                self.oblige(st, goals, 'invariant', '%s %s' % (desc, when), node, func)
            if post:
                post(self, st, ('check', when, node, func))

    # ------------------------------------------------------------------ driver
    def analyse(self, f, setup=None):
        """analyse one member function from a clean entry state"""
        self.root = f.name
        st = St()
        for p in f.params:
            self.bind_param(st, f, p)
        self.assume_invariants(st, f)
        if setup:
            setup(self, st, f)
        finals = self.exec_body(f, st)
        n_exit = 0
        for s in finals:
            if s.status in ('normal', 'return'):
                n_exit += 1
                self.check_invariants(s, f, None, 'at exit')
        return finals

    def bind_param(self, st, f, p):
        t = p['t']
        bt = btype(t.rstrip('&').strip())
        name = p['name'] or 'arg'
        if bt in UBITS or bt in SBITS:
            v = self.named(name, st, bt)
            if self.param_max is not None and bt in ('unsigned long', 'unsigned long long'):
                st.assume(le(v, self.param_max))
            st.vars[name] = v
            return
        binder = self.cfg.get('bind_param')
        if binder and binder(self, st, f, p):
            return
        if t.endswith('*'):
            pointee = btype(t[:-1])
            if pointee in ('char', 'const char'):
                self.bind_cstring(st, name)
            else:
                st.vars[name] = UNKNOWN
            return
        st.vars[name] = Obj(name, bt)

    def bind_cstring(self, st, name):
        ln = self.named('strlen(%s)' % name, st, 'unsigned long')
        st.assume(le(ln, 1 << 60))          # a string inside the address space
        st.regions[name] = ln + 1
        st.fields[(name, 'strlen')] = ln
        self.add_nul(st, name, ln)
        st.vars[name] = Ptr(name, 0)

    def string_len(self, st, obj):
        key = (obj, 'length')
        v = st.fields.get(key)
        if v is None:
            v = self.named('%s.length()' % obj, st, 'unsigned long')
            st.assume(le(v, (1 << 62)))
            st.fields[key] = v
            st.regions[obj + '.data'] = v + 1
            self.add_nul(st, obj + '.data', v)
        return v


# ---------------------------------------------------------------------- models

def _args(eng, n):
    return eng.args_of(n)


def _ev_all(eng, nodes, st, func):
    """cartesian evaluation of argument nodes: list of (values, state)"""
    res = [([], st)]
    for a in nodes:
        nxt = []
        for vals, s in res:
            for v, s1 in eng.ev(a, s, func):
                nxt.append((vals + [v], s1))
        res = nxt
    return res


def m_memcpy(eng, n, st, func, want):
    _, args = _args(eng, n)
    out = []
    name = (n.get('callee') or '').split('::')[-1]
    for (d, s, cnt), s1 in _ev_all(eng, args[:3], st, func):
        if isinstance(cnt, Lin):
            eng.access(s1, s, cnt, '%s source' % name, n, func, write=False)
            # NUL facts of the source travel with the copy
            moved = []
            if isinstance(s, Ptr) and isinstance(d, Ptr):
                for z in s1.nul.get(s.region, []):
                    if entails(s1.cons, ge(z, s.off)) and entails(s1.cons, lt(z, s.off + cnt)):
                        moved.append(d.off + (z - s.off))
            eng.access(s1, d, cnt, '%s destination' % name, n, func, write=True)
            if isinstance(d, Ptr):
                eng.log_write(s1, ('copy', d, s, cnt))
            for z in moved:
                eng.add_nul(s1, d.region, z)
        else:
            eng.obligations.append(Obligation(eng.root, 'bounds', '%s with untracked length' % name, False,
                                              func.loc(n), ''))
        out.append((d, s1))
    return out


def m_memset(eng, n, st, func, want):
    _, args = _args(eng, n)
    out = []
    for (d, val, cnt), s1 in _ev_all(eng, args[:3], st, func):
        if isinstance(cnt, Lin):
            eng.access(s1, d, cnt, 'memset destination', n, func, write=True)
            if isinstance(d, Ptr):
                eng.log_write(s1, ('fill', d, val, cnt))
            if isinstance(val, Lin) and val.is_const() and val.c == 0 and isinstance(d, Ptr):
                # all cells zero: remember first and last
                eng.add_nul(s1, d.region, d.off)
                eng.add_nul(s1, d.region, d.off + cnt - 1)
        out.append((d, s1))
    return out


def m_memcmp(eng, n, st, func, want):
    _, args = _args(eng, n)
    out = []
    for (a, b, cnt), s1 in _ev_all(eng, args[:3], st, func):
        if isinstance(cnt, Lin):
            eng.access(s1, a, cnt, 'memcmp operand 1', n, func)
            eng.access(s1, b, cnt, 'memcmp operand 2', n, func)
        r = eng.fresh('memcmp', s1, 'int')
        if eng.cfg.get('track_reads') and isinstance(a, Ptr) and isinstance(b, Ptr) and isinstance(cnt, Lin):
            s1.ghost.append(('memcmp', a, b, cnt, r))
        out.append((r, s1))
    return out


def m_strchr(eng, n, st, func, want):
    """strchr( set, c): a pointer into the C string set, or null"""
    _, args = _args(eng, n)
    out = []
    for (p, c), s1 in _ev_all(eng, args[:2], st, func):
        if not isinstance(p, Ptr):
            out.append((UNKNOWN, s1))
            continue
        base = s1.fields.get((p.region, 'strlen'))
        if base is None:
            eng.obligations.append(Obligation(eng.root, 'bounds', 'strchr() argument is a NUL-terminated string', False,
                                              func.loc(n), 'length of %r unknown' % (p,)))
        found = s1.copy()
        k = eng.fresh('strchr', found, 'unsigned long')
        if base is not None:
            found.assume(ge(k, p.off), le(k, base))
        found.trail.append('strchr finds the character')
        found.ghost.append(('inset', p, c, True))
        out.append((Ptr(p.region, k), found))
        s1.trail.append('strchr does not find the character')
        s1.ghost.append(('inset', p, c, False))
        out.append((lin(0), s1))
    return out


def m_strlen(eng, n, st, func, want):
    _, args = _args(eng, n)
    out = []
    for (p,), s1 in _ev_all(eng, args[:1], st, func):
        if isinstance(p, Ptr):
            base = s1.fields.get((p.region, 'strlen'))
            if base is not None and entails(s1.cons, ge(p.off, 0)) and entails(s1.cons, le(p.off, base)):
                out.append((base - p.off, s1))
                continue
            # NUL fact at or after the pointer
            found = None
            for z in s1.nul.get(p.region, []):
                if entails(s1.cons, ge(z, p.off)):
                    found = z
            r = eng.fresh('strlen', s1, 'unsigned long')
            if found is not None:
                s1.assume(le(r, found - p.off))
            else:
                eng.obligations.append(Obligation(eng.root, 'bounds', 'strlen() argument is NUL-terminated', False,
                                                  func.loc(n), 'no terminator known at or after %r' % (p,)))
            out.append((r, s1))
        else:
            if isinstance(p, Lin) and p.is_const() and p.c == 0:
                eng.obligations.append(Obligation(eng.root, 'bounds', 'strlen() argument is not a null pointer', False,
                                                  func.loc(n), 'null on the path [%s]' % '; '.join(s1.trail[-5:])))
            out.append((eng.fresh('strlen', s1, 'unsigned long'), s1))
    return out


def m_strcpy(eng, n, st, func, want):
    _, args = _args(eng, n)
    out = []
    for (d, s), s1 in _ev_all(eng, args[:2], st, func):
        if isinstance(s, Ptr):
            base = s1.fields.get((s.region, 'strlen'))
            ln = base - s.off if base is not None else None
            if ln is None:
                eng.obligations.append(Obligation(eng.root, 'bounds', 'strcpy source length is known', False,
                                                  func.loc(n), ''))
            else:
                eng.access(s1, d, ln + 1, 'strcpy destination (length + terminator)', n, func, write=True)
                if isinstance(d, Ptr):
                    eng.log_write(s1, ('copy', d, s, ln + 1))
                    eng.add_nul(s1, d.region, d.off + ln)
                    s1.fields[(d.region, 'strlen')] = d.off + ln
        else:
            eng.obligations.append(Obligation(eng.root, 'bounds', 'strcpy source is tracked', False, func.loc(n), ''))
        out.append((d, s1))
    return out


def m_min(eng, n, st, func, want):
    _, args = _args(eng, n)
    out = []
    for (a, b), s1 in _ev_all(eng, args[:2], st, func):
        if isinstance(a, Lin) and isinstance(b, Lin):
            for tr, s2 in eng.compare('<=', a, b, s1, n, func):
                out.append((a if tr else b, s2))
        else:
            out.append((eng.fresh('min', s1, n.get('t')), s1))
    return out


def m_max(eng, n, st, func, want):
    _, args = _args(eng, n)
    out = []
    for (a, b), s1 in _ev_all(eng, args[:2], st, func):
        if isinstance(a, Lin) and isinstance(b, Lin):
            for tr, s2 in eng.compare('>=', a, b, s1, n, func):
                out.append((a if tr else b, s2))
        else:
            out.append((eng.fresh('max', s1, n.get('t')), s1))
    return out


def m_string_method(eng, n, st, func, want):
    """std::basic_string members used by the analysed code"""
    callee = n.get('callee', '')
    short = callee.split('::')[-1]
    objn, args = _args(eng, n)
    if n['k'] in ('CXXConstructExpr', 'CXXTemporaryObjectExpr'):
        real = [a for a in args if not a.get('defarg')]
        out = []
        for vals, s1 in _ev_all(eng, real, st, func):
            name = 'str@%s#%d' % (n['id'], next(eng.counter))
            content = None
            if len(vals) == 2 and isinstance(vals[0], Ptr) and isinstance(vals[1], Lin):
                eng.access(s1, vals[0], vals[1], 'std::string( ptr, n) source', n, func)
                s1.fields[(name, 'length')] = vals[1]
                s1.fields[(name, 'source')] = vals[0]
                content = ('copy', Ptr(name + '.data', 0), vals[0], vals[1])
            elif len(vals) == 1 and isinstance(vals[0], Lin) and vals[0].is_const() and vals[0].c == 0 and \
                    (real[0].get('t') or '').endswith('*'):
                # std::string( nullptr): libstdc++ throws std::logic_error
                s1.status = 'throw'
                s1.thrown = 'std::logic_error'
                out.append((UNKNOWN, s1))
                continue
            elif len(vals) == 1 and isinstance(vals[0], Ptr):
                eng.access(s1, vals[0], 1, 'std::string( const char*) source', n, func)
                base = s1.fields.get((vals[0].region, 'strlen'))
                s1.fields[(name, 'length')] = (base - vals[0].off) if base is not None else \
                    eng.fresh('len', s1, 'unsigned long')
                s1.fields[(name, 'source')] = vals[0]
                content = ('copy', Ptr(name + '.data', 0), vals[0], s1.fields[(name, 'length')])
            elif len(vals) == 1 and isinstance(vals[0], Obj):
                s1.fields[(name, 'length')] = eng.string_len(s1, vals[0].name)
                content = ('copy', Ptr(name + '.data', 0), Ptr(vals[0].name + '.data', 0), s1.fields[(name, 'length')])
            elif len(vals) == 2 and isinstance(vals[0], Lin):
                s1.fields[(name, 'length')] = vals[0]
                content = ('fill', Ptr(name + '.data', 0), vals[1], vals[0])
            elif not vals:
                s1.fields[(name, 'length')] = lin(0)
            else:
                s1.fields[(name, 'length')] = eng.fresh('len', s1, 'unsigned long')
            if content is not None:
                eng.log_write(s1, content)
            ln = s1.fields[(name, 'length')]
            s1.regions[name + '.data'] = ln + 1
            eng.add_nul(s1, name + '.data', ln)
            out.append((Obj(name, 'std::string'), s1))
        return out
    if objn is None:
        return None
    out = []
    for ov, s1 in eng.ev(objn, st, func):
        if not isinstance(ov, Obj):
            out.append((eng.fresh(short, s1, n.get('t')) if btype(n.get('t')) in UBITS else UNKNOWN, s1))
            continue
        if short in ('length', 'size'):
            out.append((eng.string_len(s1, ov.name), s1))
        elif short == 'empty':
            ln = eng.string_len(s1, ov.name)
            if want == 'length':
                out.append((ln, s1))
            else:
                for tr, s2 in eng.compare('==', ln, lin(0), s1, n, func):
                    out.append((lin(1 if tr else 0), s2))
        elif short in ('c_str', 'data'):
            ln = eng.string_len(s1, ov.name)
            # the C string ends at the FIRST NUL byte: a std::string may carry embedded NUL bytes, so strlen( c_str())
            # is some value in [0, length()] (one symbol per string object, so that repeated calls agree)
            key = (ov.name + '.data', 'strlen')
            cl = s1.fields.get((ov.name, 'cstrlen'))
            if cl is None or s1.fields.get((ov.name, 'cstrlen.of')) is not ln:
                cl = eng.fresh('strlen(%s.c_str())' % ov.name, s1, 'unsigned long')
                s1.assume(ge(cl, 0), le(cl, ln))
                s1.fields[(ov.name, 'cstrlen')] = cl
                s1.fields[(ov.name, 'cstrlen.of')] = ln
            s1.fields[key] = cl
            out.append((Ptr(ov.name + '.data', 0), s1))
        elif short == 'copy' and len(args) >= 2:
            # size_type copy( char* dest, size_type count, size_type pos = 0): writes min( count, length - pos) bytes
            ln = eng.string_len(s1, ov.name)
            for vals, s2 in _ev_all(eng, args[:3], s1, func):
                d, cnt = vals[0], vals[1]
                pos = vals[2] if len(vals) > 2 and isinstance(vals[2], Lin) else lin(0)
                if not isinstance(cnt, Lin):
                    eng.obligations.append(Obligation(eng.root, 'bounds', 'std::string::copy with untracked length',
                                                      False, func.loc(n), ''))
                    out.append((UNKNOWN, s2))
                    continue
                for small, s3 in eng.compare('<=', cnt, ln - pos, s2, n, func):
                    num = cnt if small else ln - pos
                    eng.access(s3, d, num, 'std::string::copy destination', n, func, write=True)
                    if isinstance(d, Ptr):
                        eng.log_write(s3, ('copy', d, Ptr(ov.name + '.data', pos), num))
                    out.append((num, s3))
        elif short in ('operator[]', 'at') and len(args) == 1:
            ln = eng.string_len(s1, ov.name)
            for (k,), s2 in _ev_all(eng, args[:1], s1, func):
                if isinstance(k, Lin):
                    out.append((('lvptr', Ptr(ov.name + '.data', k)), s2))
                else:
                    out.append((UNKNOWN, s2))
        elif short in ('begin', 'cbegin'):
            eng.string_len(s1, ov.name)
            out.append((Ptr(ov.name + '.data', 0), s1))
        elif short in ('end', 'cend'):
            out.append((Ptr(ov.name + '.data', eng.string_len(s1, ov.name)), s1))
        elif short in ('append', 'operator+=', 'assign', 'operator=') and len(args) == 1 and \
                (args[0].get('t') or '').replace('const ', '').strip() == 'char *':
            # a C string argument: must be a valid, non-null pointer
            for (v,), s2 in _ev_all(eng, args[:1], s1, func):
                if isinstance(v, Ptr):
                    eng.access(s2, v, 1, 'C string passed to std::string::%s' % short, n, func)
                elif isinstance(v, Lin) and v.is_const() and v.c == 0:
                    eng.obligations.append(Obligation(eng.root, 'bounds', 'C string passed to std::string::%s is not a '
                                                      'null pointer' % short, False, func.loc(n),
                                                      'null on the path [%s]' % '; '.join(s2.trail[-5:])))
                key = (ov.name, 'length')
                if key in s2.fields:
                    s2.fields[key] = eng.fresh('len', s2, 'unsigned long')
                out.append((ov, s2))
        elif short == 'compare' and eng.cfg.get('track_reads'):
            # compare( str) | compare( pos1, n1, str) | compare( pos1, n1, str, pos2, n2): sign of the comparison of
            # this.substr( pos1, n1) with str.substr( pos2, n2); the observation fact records both sub-ranges
            ln = eng.string_len(s1, ov.name)
            real = [a for a in args if not a.get('defarg')]
            for vals, s2 in _ev_all(eng, real, s1, func):
                other = [v for v in vals if isinstance(v, (Obj, Ptr))]
                nums = [v for v in vals if isinstance(v, Lin)]
                if len(other) != 1 or len(nums) not in (0, 2, 4):
                    return None
                o = other[0]
                if isinstance(o, Obj):
                    oregion, olen = o.name + '.data', eng.string_len(s2, o.name)
                else:
                    oregion, olen = o.region, s2.fields.get((o.region, 'strlen'))
                    if olen is None:
                        return None
                pos1, n1 = (nums[0], nums[1]) if len(nums) >= 2 else (lin(0), ln)
                pos2, n2 = (nums[2], nums[3]) if len(nums) == 4 else (lin(0), olen)
                # exact sub-range lengths min( n, size - pos) by case split; pos > size throws
                for beyond, s3 in eng.compare('>', pos1, ln, s2, n, func):
                    if beyond:
                        s3.status = 'throw'
                        out.append((UNKNOWN, s3))
                        continue
                    for first1, s4 in eng.compare('<=', n1, ln - pos1, s3, n, func):
                        l1 = n1 if first1 else ln - pos1
                        for beyond2, s5 in eng.compare('>', pos2, olen, s4, n, func):
                            if beyond2:
                                s5.status = 'throw'
                                out.append((UNKNOWN, s5))
                                continue
                            for first2, s6 in eng.compare('<=', n2, olen - pos2, s5, n, func):
                                l2 = n2 if first2 else olen - pos2
                                # sub-ranges of different lengths never compare equal
                                for same_len, s7 in eng.compare('==', l1, l2, s6, n, func):
                                    variants = [s7] if same_len else [s7.copy(), s7]
                                    for vi, s8 in enumerate(variants):
                                        r = eng.fresh('compare', s8, 'int')
                                        if not same_len:
                                            s8.assume(le(r, -1) if vi == 0 else ge(r, 1))
                                        s8.ghost.append(('strcmp', (ov.name + '.data', pos1, l1), (oregion, pos2, l2),
                                                         r))
                                        out.append((r, s8))
        elif short in ('find', 'rfind') and eng.cfg.get('track_reads') and args and \
                'basic_string' in (args[0].get('t') or ''):
            # find( str, pos = 0) / rfind( str, pos = npos): first / last occurrence at or after / before pos
            ln = eng.string_len(s1, ov.name)
            real = [a for a in args if not a.get('defarg')]
            for vals, s2 in _ev_all(eng, real, s1, func):
                if not vals or not isinstance(vals[0], Obj):
                    return None
                needle = vals[0]
                pos = vals[1] if len(vals) > 1 and isinstance(vals[1], Lin) else \
                    (lin(0) if short == 'find' else lin((1 << 64) - 1))
                nl = eng.string_len(s2, needle.name)
                hit = s2.copy()
                k = eng.fresh(short, hit, 'unsigned long')
                hit.assume(le(k + nl, ln))
                hit.assume(ge(k, pos) if short == 'find' else le(k, pos))
                hit.trail.append('%s finds a position' % short)
                if hit.ok():
                    hit.ghost.append(('sfind', short, ov.name, needle.name, pos, k))
                    out.append((k, hit))
                s2.trail.append('%s finds nothing' % short)
                s2.ghost.append(('sfind', short, ov.name, needle.name, pos, None))
                out.append((lin((1 << 64) - 1), s2))
        elif short in ('find', 'find_first_of', 'rfind', 'find_last_of', 'find_first_not_of', 'find_last_not_of'):
            # a position inside the text or npos
            ln = eng.string_len(s1, ov.name)
            for _vals, s2 in _ev_all(eng, args, s1, func):
                hit = s2.copy()
                k = eng.fresh(short, hit, 'unsigned long')
                hit.assume(lt(k, ln))
                hit.trail.append('%s finds a position' % short)
                if hit.ok():
                    if _vals and isinstance(_vals[0], Lin) and _vals[0].is_const() and \
                            btype(args[0].get('t') or '') == 'char':
                        # observation fact: the character at the returned position is the one searched for
                        hit.ghost.append(('cfind', short, ov.name, _vals[0].c, k))
                    out.append((k, hit))
                s2.trail.append('%s finds nothing' % short)
                out.append((lin((1 << 64) - 1), s2))
        elif short == 'erase' and len([a for a in args if not a.get('defarg')]) == 1 and \
                btype(args[0].get('t') or '') in UBITS:
            # erase( pos): throws std::out_of_range if pos > size(), else the first pos characters remain
            ln = eng.string_len(s1, ov.name)
            for vals, s2 in _ev_all(eng, args[:1], s1, func):
                if not isinstance(vals[0], Lin):
                    return None
                for beyond, s3 in eng.compare('>', vals[0], ln, s2, n, func):
                    if beyond:
                        s3.status = 'throw'
                        s3.thrown = 'std::out_of_range'
                        out.append((UNKNOWN, s3))
                        continue
                    s3.fields[(ov.name, 'length')] = vals[0]
                    s3.regions[ov.name + '.data'] = vals[0] + 1
                    eng.add_nul(s3, ov.name + '.data', vals[0])
                    out.append((ov, s3))
        elif short == 'substr':
            # substr( pos, n): throws std::out_of_range if pos > size(), else min( n, size() - pos) characters
            ln = eng.string_len(s1, ov.name)
            for vals, s2 in _ev_all(eng, args[:2], s1, func):
                pos = vals[0] if vals and isinstance(vals[0], Lin) else None
                cnt = vals[1] if len(vals) > 1 and isinstance(vals[1], Lin) else None
                if pos is None:
                    return None
                for beyond, s3 in eng.compare('>', pos, ln, s2, n, func):
                    if beyond:
                        s3.status = 'throw'
                        s3.thrown = 'std::out_of_range'
                        out.append((UNKNOWN, s3))
                        continue
                    name = 'str@%s#%d' % (n['id'], next(eng.counter))
                    rl = eng.fresh('sublen', s3, 'unsigned long')
                    s3.assume(le(rl, ln - pos))
                    if cnt is not None:
                        s3.assume(le(rl, cnt))
                    s3.fields[(name, 'length')] = rl
                    # exactly min( n, size() - pos) characters
                    if cnt is not None:
                        parts = []
                        for first, s4 in eng.compare('<=', cnt, ln - pos, s3, n, func):
                            s4.assume(eq(rl, cnt if first else ln - pos))
                            parts.append(s4)
                    else:
                        s3.assume(eq(rl, ln - pos))
                        parts = [s3]
                    for s4 in parts:
                        s4.fields[(name, 'length')] = rl
                        s4.regions[name + '.data'] = rl + 1
                        eng.add_nul(s4, name + '.data', rl)
                        eng.log_write(s4, ('copy', Ptr(name + '.data', 0), Ptr(ov.name + '.data', pos), rl))
                        out.append((Obj(name, 'std::string'), s4))
        else:
            return None
    return out


def m_vector_method(eng, n, st, func, want):
    callee = n.get('callee', '')
    short = callee.split('::')[-1]
    objn, args = _args(eng, n)
    if objn is None:
        return None
    out = []
    for ov, s0 in eng.ev(objn, st, func):
        if not isinstance(ov, Obj):
            return None
        for vals, s1 in _ev_all(eng, [a for a in args if not a.get('defarg')], s0, func):
            key = (ov.name, 'size')
            size = s1.fields.get(key)
            if size is None:
                owner = ov.name.rsplit('.', 1)[0]
                if (owner, '$new') in s1.fields:
                    size = lin(0)            # member of an object under construction
                else:
                    size = eng.named('%s.size()' % ov.name, s1, 'unsigned long')
                    s1.assume(le(size, VECTOR_MAX_SIZE))
                s1.fields[key] = size
            if short == 'max_size':
                out.append((lin(VECTOR_MAX_SIZE), s1))
            elif short == 'size':
                out.append((size, s1))
            elif short == 'empty':
                if want == 'length':
                    out.append((size, s1))
                else:
                    for tr, s2 in eng.compare('==', size, lin(0), s1, n, func):
                        out.append((lin(1 if tr else 0), s2))
            elif short == 'resize':
                nv = vals[0] if vals and isinstance(vals[0], Lin) else eng.fresh('size', s1, 'unsigned long')
                if isinstance(vals[0] if vals else None, tuple):
                    nv = eng.float_to_int(s1, vals[0], 'unsigned long')
                # resize( n) with n > max_size() throws std::length_error: the normal continuation has n <= max
                s1.assume(le(nv, VECTOR_MAX_SIZE))
                if s1.ok():
                    s1.fields[key] = nv
                    out.append((UNKNOWN, s1))
            elif short == 'clear':
                s1.fields[key] = lin(0)
                out.append((UNKNOWN, s1))
            elif short in ('operator[]',):
                idx = vals[0] if vals else None
                if isinstance(idx, Lin):
                    eng.oblige(s1, [ge(idx, 0), lt(idx, size)], 'bounds',
                               'element access %s[i] is inside the vector' % ov.name.split('.')[-1], n, func,
                               'index %r, size %r;' % (idx, size))
                else:
                    eng.obligations.append(Obligation(eng.root, 'bounds', 'vector index is tracked', False,
                                                      func.loc(n), ''))
                out.append((eng.fresh('elem', s1, 'bool') if 'bool' in callee else UNKNOWN, s1))
            elif short in ('push_back', 'emplace_back'):
                s1.fields[key] = size + 1
                out.append((UNKNOWN, s1))
            elif short in ('begin', 'end', 'cbegin', 'cend', 'rbegin', 'rend', 'flip', 'swap', 'back', 'front'):
                out.append((UNKNOWN, s1))
            else:
                return None
    return out


def m_unique_ptr(eng, n, st, func, want):
    callee = n.get('callee', '')
    short = callee.split('::')[-1]
    objn, args = _args(eng, n)
    if n['k'] in ('CXXConstructExpr', 'CXXTemporaryObjectExpr'):
        real = [a for a in args if not a.get('defarg')]
        out = []
        for vals, s1 in _ev_all(eng, real, st, func):
            v = vals[0] if vals else UNKNOWN
            if isinstance(v, Ptr):
                form = s1.fields.get((v.region, 'newform'))
                if form is not None:
                    is_array_owner = '[]' in callee.split('unique_ptr<')[1].split(',')[0] if 'unique_ptr<' in callee else False
                    ok = (form.c == 1) == is_array_owner
                    eng.obligations.append(Obligation(
                        eng.root, 'dealloc', 'allocation form matches the deallocation form of its owner', ok,
                        func.loc(n), '' if ok else 'memory from new%s is owned by %s, which releases it with delete%s' % (
                            '[]' if form.c == 1 else '', callee.split('::unique_ptr')[0] + '::unique_ptr<...>',
                            '[]' if is_array_owner else '')))
            out.append((v, s1))
        return out
    if objn is None:
        return None
    out = []
    for ov, s1 in eng.ev(objn, st, func):
        if short == 'get':
            out.append((ov if isinstance(ov, Ptr) else _up_region(eng, s1, ov), s1))
        elif short == 'operator[]':
            base = ov if isinstance(ov, Ptr) else _up_region(eng, s1, ov)
            for (idx,), s2 in _ev_all(eng, args[:1], s1, func):
                if isinstance(base, Ptr) and isinstance(idx, Lin):
                    return_lv = Ptr(base.region, base.off + idx)
                    out.append((('lvptr', return_lv), s2))
                else:
                    out.append((UNKNOWN, s2))
        elif short in ('reset', 'release', 'operator bool', 'operator*', 'operator->'):
            out.append((ov if isinstance(ov, Ptr) else UNKNOWN, s1))
        else:
            return None
    return out


def _up_region(eng, st, ov):
    if isinstance(ov, Obj):
        region = ov.name + '.buf'
        if region in st.regions:
            return Ptr(region, 0)
    return UNKNOWN


def byte_fill_loop_summary(eng, n, states, func):
    """for (i = a; i < b; ++i) region[ base + i] = v;  with v independent of i: one 'fill' log entry per incoming
    state (the loop is a memset written by hand).  Returns True when every incoming state was summarised."""
    if n.get('k') != 'ForStmt':
        return False
    init, _cv, cond, inc, body = (n.get('c', []) + [None] * 5)[:5]
    if cond is None or inc is None or body is None:
        return False
    c0 = strip_all_casts(cond)
    if c0.get('k') != 'BinaryOperator' or c0.get('op') not in ('<', '<='):
        return False
    vars_, fields, _ht, incs, decs = eng.modified_in([cond, inc], func)
    if len(vars_) != 1 or fields:
        return False
    var = sorted(vars_)[0]
    bvars, bfields, _h2, _i2, _d2 = eng.modified_in([body], func)
    if bvars or bfields:
        return False                # the body changes scalars: not a plain fill
    entries = []
    mark = len(eng.obligations)
    depth = eng.loop_depth
    eng.loop_depth = 0
    try:
        for s_in in states:
            if s_in.status != 'normal':
                continue
            s0 = s_in.copy()
            cur = [s for s in eng.stmt(init, [s0], func) if s.status == 'normal'] if init is not None else [s0]
            if len(cur) != 1:
                return False
            s0 = cur[0]
            h0 = s0.vars.get(var)
            if not isinstance(h0, Lin):
                return False
            head = s0.copy()
            hname = 'iter@%s#%d' % (n['id'], next(eng.counter))
            h = Lin.sym(hname)
            eng.type_range(head, h, eng.var_type(func, var, n) or 'unsigned long')
            head.assume(ge(h, h0), le(h, (1 << 62)))
            head.vars[var] = h
            lhs, rhs = children(c0)
            lv, rv = eng.ev(lhs, head.copy(), func), eng.ev(rhs, head.copy(), func)
            if len(lv) != 1 or len(rv) != 1 or not isinstance(lv[0][0], Lin) or not isinstance(rv[0][0], Lin):
                return False
            L_, R_ = lv[0][0], rv[0][0]
            k = L_ - h
            if hname in [str(x) for x in k.syms()] or hname in [str(x) for x in R_.syms()]:
                return False
            hi = (R_ - k) if c0['op'] == '<' else (R_ - k + 1)
            trues = [s for t, s in eng.cond(cond, head.copy(), func) if t]
            if not trues:
                entries.append((s_in, None))
                continue
            if len(trues) != 1:
                return False
            s1 = trues[0]
            m = len(s1.wlog)
            rs = eng.stmt(body, [s1], func)
            if len(rs) != 1 or rs[0].status != 'normal':
                return False
            new = rs[0].wlog[m:]
            if len(new) != 1 or new[0][0] != 'put' or not isinstance(new[0][1], Ptr) or not isinstance(new[0][2], Lin):
                return False
            dst, val = new[0][1], new[0][2]
            c = dst.off - h
            if hname in [str(x) for x in c.syms()] or hname in [str(x) for x in val.syms()]:
                return False
            after = [s2 for _, s2 in eng.ev(inc, rs[0], func)]
            if len(after) != 1:
                return False
            h2 = after[0].vars.get(var)
            if not (isinstance(h2, Lin) and entails(after[0].cons, ge(h2, h + 1)) and entails(after[0].cons, le(h2, h + 1))):
                return False
            entries.append((s_in, ('fill', Ptr(dst.region, h0 + c), val, hi - h0)))
    finally:
        eng.loop_depth = depth
        del eng.obligations[mark:]
    for s_in, e in entries:
        if e is not None:
            # (a loop that cannot run writes nothing; a negative count does not occur: hi >= h0 on the exit path)
            s_in.wlog.append(e)
    return bool(entries)


def m_identity(eng, n, st, func, want):
    """std::move / std::forward: the argument itself"""
    _, args = _args(eng, n)
    if len(args) != 1:
        return None
    return eng.ev(args[0], st, func)


DEFAULT_MODELS = {
    'std::move': m_identity, 'std::forward': m_identity,
    'strchr': m_strchr, 'std::strchr': m_strchr,
    'memcpy': m_memcpy, 'std::memcpy': m_memcpy, 'memmove': m_memcpy, 'std::memmove': m_memcpy,
    'memset': m_memset, 'std::memset': m_memset,
    'memcmp': m_memcmp, 'std::memcmp': m_memcmp,
    'strlen': m_strlen, 'std::strlen': m_strlen,
    'strcpy': m_strcpy, 'std::strcpy': m_strcpy,
    'std::min': m_min, 'std::max': m_max,
    'std::basic_string<char>::*': m_string_method,
    'std::basic_string<char, std::char_traits<char>, std::allocator<char>>::*': m_string_method,
    'std::vector<*': m_vector_method,
    'std::unique_ptr<*': m_unique_ptr,
}
