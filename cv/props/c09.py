"""C09 — Independent handlers can be used concurrently.

Decided: no function reachable from the argument-handler API touches an object
with static storage duration that is (a) mutable, (b) written somewhere in the
analysed program and (c) accessed without a lock on a static mutex held
(Engine E, lockset by dominance); no call to a non-reentrant libc function on
those paths; every handler hands its own constraint container to its
arguments.  Not decided: behaviour under actual schedules, races inside
boost/libstdc++."""
import os
import re

from .. import effects
from ..cfg import call_closure, call_path
from ..facts import VERIF, load_program, library_units, children, strip_all_casts
from ..rules import call_args


def written_vars(prog):
    """static-storage variables with at least one write site anywhere"""
    res = {}
    for f in prog.functions:
        for ref, kind, node in effects.accesses(f):
            if kind == 'write':
                res.setdefault(effects.var_id(ref), []).append((f, node))
    return res


def effect_rule(chk, prog, closure, rule_r1, rule_r2, label, written=None):
    """apply R1/R2 to every function of the closure; returns number of failures"""
    if written is None:
        written = written_vars(prog)
    repo_vars = {v['q'] for v in prog.vars.values()}
    nfail = 0
    for key, (f, parent) in sorted(closure.items()):
        if f.cfg is None:
            continue
        acc = effects.accesses(f)
        locks = None
        seen_sites = set()
        for ref, kind, node in acc:
            vid = effects.var_id(ref)
            t = ref.get('dt', '')
            if effects.is_self_synchronised(t):
                continue
            if vid not in repo_vars:
                # objects of the standard library (std::cout, ...) are outside the claim
                continue
            const = t.startswith('const ') or ' const' in t.split('<')[0] or t.endswith(' const')
            if const and 'mutable' not in t:
                continue
            if vid not in written:
                # never written in the analysed program: effectively immutable
                continue
            if locks is None:
                locks = effects.LockInfo(f)
            pos = f.cfg.position(node)
            held = locks.held_at(pos) if pos is not None else []
            what = '%s %s is lock-protected' % (kind, vid)
            site = (vid, kind, bool(held))
            if site in seen_sites and held:
                continue
            seen_sites.add(site)
            path = ' <- '.join(reversed(call_path(closure, key)[-4:]))
            ok = bool(held)
            if not ok:
                nfail += 1
            if ok and label == 'handler' and not vid.startswith('celma::common::Singleton<'):
                # a lock removes the data race, not the coupling: a process-wide object that handler paths WRITE
                # (a registry of files in progress, a cache, a counter) makes the result of one handler depend on
                # what other threads' handlers are doing - 'each thread observes what it would observe alone'
                # allows no such object at all (the singleton accessor is covered by R5: members of a group only)
                nfail += 1
                chk.check(False, rule_r1, f.name, 'no process-wide mutable object on handler paths (%s)' % vid,
                          f.loc(node), 'the %s of %s is lock-protected, but the object is shared by all handlers of the '
                          'process and written at %s; reached via %s' % (kind, vid, ', '.join(sorted(
                              {w.name for w, _ in written[vid]}))[:160], path))
                continue
            chk.check(ok, rule_r1, f.name, what, f.loc(node),
                      'mutable object with static storage accessed (%s) without a lock on a static '
                      'mutex; written at %s; reached via %s' % (
                          kind, ', '.join(sorted({w.name for w, _ in written[vid]}))[:200], path))
        for c in f.calls():
            q = c.get('callee', '')
            base = q.split('::')[-1]
            if base in effects.NON_REENTRANT and (q == base or q == 'std::' + base):
                nfail += 1
                chk.fail(rule_r2, f.name, 'no call to non-reentrant %s()' % base, f.loc(c),
                         'reached via ' + ' <- '.join(reversed(call_path(closure, key)[-4:])))
            elif q in effects.PROCESS_STATE_SETTERS or 'std::' + q in effects.PROCESS_STATE_SETTERS or (
                    q == 'std::filesystem::current_path' and any(not a.get('defarg') and 'error_code' not in (a.get('t') or '')
                                                                 for a in call_args(c))):
                # (current_path() with a path argument SETS the working directory of the process)
                nfail += 1
                chk.fail(rule_r2, f.name, 'no change of process-wide state (%s)' % q, f.loc(c),
                         'every other thread observes the changed state while this handler works (and two handlers '
                         'that save/restore it can leave it changed for good); reached via ' +
                         ' <- '.join(reversed(call_path(closure, key)[-4:])))
    return nfail


def entry_points(prog, tier):
    roots = []
    for f in prog.functions:
        if f.classq == 'celma::prog_args::Handler':
            # every member: the private ones are reached through callables (std::function, generic lambdas created by
            # the addArgument...() functions) that the call graph cannot follow
            roots.append(f)
        elif f.name in ('celma::prog_args::evalArgumentString',):
            roots.append(f)
        elif f.name == 'celma::prog_args::destination':
            roots.append(f)
        elif (f.classq or '').startswith('celma::prog_args::detail::TypedArg') and f.d.get('ctor'):
            roots.append(f)
        elif (f.classq or '').startswith('celma::prog_args::detail::') and f.d.get('ctor'):
            roots.append(f)
        elif f.name.startswith('celma::prog_args::') and f.cls is None and f.d.get('tk') is None \
                and '/celma/prog_args/' in f.file:
            # free helper functions of the public headers: lower(), range(), all_of(), ...
            roots.append(f)
        elif tier == 'thorough' and f.classq in ('celma::prog_args::Groups', 'celma::prog_args::ValueHandler') \
                and f.d.get('access', 0) == 0:
            roots.append(f)
    return roots


def run(chk):
    drv = os.path.join(VERIF, 'drivers', 'prog_args_dest.cpp')
    units = library_units() + [drv]
    prog = load_program(units)
    chk.units = units
    chk.require(len([u for u in units if '/library/' in u]) >= 88, 'fewer than 88 library units found')
    chk.explanation = (
        'Effect analysis over all 88 library units plus an instantiation driver for every destination kind: '
        'inventory of all objects with static storage duration, call-graph closure from the argument-handler '
        'API (resolved callees, all virtual overriders, lambdas), every access of a written mutable static '
        'object must have a lock on a static mutex held (CFG dominance + guard lifetime); deny-list of '
        'non-reentrant libc functions; who-passes-what for the per-handler constraint container. '
        'A positive control unit is analysed on every run. Not decided: actual schedules.')
    chk.assumptions = ['boost and libstdc++ are free of internal data races (trusted)',
                       'the call graph is over resolved direct callees, virtual overriders and lambdas defined '
                       'in the repository; calls through std::function objects supplied by the user are the '
                       'user\'s responsibility']
    chk.rule('R1', 'no unsynchronised access to written static-storage state on handler paths', 0)
    chk.rule('R2', 'no non-reentrant libc call on handler paths', 0)
    chk.rule('R3', 'every argument gets the owning handler\'s constraint container', 2)
    chk.rule('R4', 'function-local statics on handler paths do not memoise per-call data', 2)
    chk.rule('R5', 'independent handlers never enter the process-wide group registry', 5)
    chk.rule('INV', 'static-storage inventory and reachability (bookkeeping obligations)', 3)
    chk.rule('CTL', 'positive control: the effect rule fires on controls/static_write.cpp', 4)

    inv = effects.inventory(prog)
    mutable = {k: v for k, v in inv.items() if not effects.is_immutable(v)}
    chk.require(len(inv) >= 30, 'static-storage inventory shrank to %d objects: extraction is broken' % len(inv))
    chk.ok('INV', '', 'inventory: %d objects with static storage, %d not const' % (len(inv), len(mutable)))
    roots = entry_points(prog, chk.tier)
    chk.require(len(roots) >= 60, 'only %d handler API entry points found' % len(roots))
    closure = call_closure(prog, roots)
    chk.require(len(closure) >= 400, 'call-graph closure has only %d functions' % len(closure))
    chk.ok('INV', '', 'entry points: %d, call-graph closure: %d functions' % (len(roots), len(closure)))
    # the anchored helpers must be inside the closure (otherwise reachability is broken)
    must = ['celma::common::Tokenizer::Tokenizer', 'celma::prog_args::detail::TypedArgBase::assignValue',
            'celma::prog_args::detail::ConstraintContainer::argumentIdentified']
    names = {f.name for f, _ in closure.values()}
    for m in must:
        chk.require(m in names, 'anchor %s not reachable from the handler API' % m)
    chk.ok('INV', '', 'anchors reachable: ' + ', '.join(m.split('::')[-1] for m in must))
    written = written_vars(prog)
    effect_rule(chk, prog, closure, 'R1', 'R2', 'handler')
    for f, _ in closure.values():
        chk.functions_analysed.add(f.name)
    chk.samples.append({'mutable_static_objects': sorted(mutable)[:20],
                        'written': sorted(written)[:20]})

    # R4: no process-wide memo of per-call data - a function-local static whose initialiser uses a parameter, a
    # local or the object is fixed by whichever handler/thread comes first and then served to all the others
    # (no data race, but a thread no longer observes the result it would observe alone)
    from ..facts import walk
    n_static = 0
    seen_decl = set()
    for key, (f, parent) in sorted(closure.items()):
        if f.body is None:
            continue
        for n_ in f.walk():
            if n_.get('k') != 'DeclStmt':
                continue
            for d in n_.get('decls', []):
                if not d.get('static') or (f.file, n_.get('l'), d['name']) in seen_decl:
                    continue
                seen_decl.add((f.file, n_.get('l'), d['name']))
                n_static += 1
                deps = []
                if isinstance(d.get('init'), dict):
                    for x in walk(d['init']):
                        if x.get('k') == 'CXXThisExpr':
                            deps.append('this')
                        elif x.get('k') == 'DeclRefExpr' and x.get('ref', {}).get('sto') in ('param', 'local'):
                            deps.append(x['ref']['name'])
                # a function-local static that is not const is one mutable object for all handlers and threads that reach
                # the function (a stateful helper, a scratch buffer): no handler path may own one
                t0 = (d.get('t') or '')
                if not t0.startswith('const ') and ' const' not in t0.split('<')[0] and \
                        not effects.is_self_synchronised(t0) and 'mutex' not in t0 and 'once_flag' not in t0:
                    chk.check(False, 'R4', f.name, 'no mutable function-local static %s on handler paths' % d['name'],
                              f.loc(n_), 'static %s %s is shared by every handler and thread that comes here; reached '
                              'via %s' % (t0[:60], d['name'], ' <- '.join(reversed(call_path(closure, key)[-4:]))))
                # a static (smart) pointer to a NON-const object is one mutable object shared by every handler that gets
                # it - the pointer may be const, the pointee is not
                t = (d.get('t') or '')
                m_ptr = re.search(r'(?:shared_ptr|unique_ptr)<\s*(const\s+)?([^>]+)>', t) or \
                    re.search(r'^(const\s+)?([\w:<>, ]+?)\s*\*\s*(?:const)?$', t)
                if m_ptr and not m_ptr.group(1) and 'char' not in m_ptr.group(2) and 'mutex' not in t:
                    uses = [x for x in f.walk() if x.get('k') == 'DeclRefExpr' and x['ref'].get('did') == d.get('did')]
                    chk.check(not uses, 'R4', f.name, 'no process-wide mutable object is handed out through the '
                              'function-local static pointer %s' % d['name'], f.loc(n_),
                              'every caller receives the same %s object (the pointer is static, the object it points '
                              'to is not const); reached via %s' % (m_ptr.group(2).strip()[:60], ' <- '.join(
                                  reversed(call_path(closure, key)[-4:]))))
                chk.check(not deps, 'R4', f.name, 'function-local static %s does not memoise data of the first call'
                          % d['name'], f.loc(n_), 'its initialiser uses %s: the value computed for the first handler '
                          'is served to every later one; reached via %s' % (
                              ', '.join(sorted(set(deps))), ' <- '.join(reversed(call_path(closure, key)[-4:]))))
    chk.ok('INV', '', 'function-local statics on handler paths: %d' % n_static)

    # R5: a handler that is not a member of an argument group never enters the process-wide group registry: every call
    # of a Groups member from a Handler member is guarded by the membership flag mUsedByGroup (the registry holds
    # the handlers of OTHER threads: crossCheckArguments() reads all of them without a lock, and an independent
    # handler would be refused keys that are taken in some unrelated group).  Frozen exceptions, each read in the
    # source: the explicit output requests listArgGroups() / usage(), which only exist for group use.
    from ..rules import implied_edges
    from ..facts import CALL_KINDS
    EXEMPT = {('listArgGroups', 'listArgGroups'): "argument 'list-arg-groups': output of the registry is what is asked for",
              ('usage', 'evaluatedByArgGroups'): 'usage(): asks whether a group evaluation is running',
              ('usage', 'displayUsage'): 'usage(): group usage, only under evaluatedByArgGroups()'}
    n_reg = 0
    for f in prog.functions:
        if f.classq != 'celma::prog_args::Handler' or f.body is None:
            continue
        reg = [c for c in f.calls() if (c.get('callee') or '').startswith('celma::prog_args::Groups::') and
               not (c.get('callee') or '').endswith('::instance')]
        if not reg:
            continue
        member_edges = implied_edges(f, lambda c_: c_.get('k') == 'MemberExpr' and
                                     c_.get('ref', {}).get('name') == 'mUsedByGroup', True)
        for c in reg:
            short = c['callee'].split('::')[-1]
            n_reg += 1
            if (f.short, short) in EXEMPT:
                chk.ok('R5', f.name, '%s() -> Groups::%s(): %s' % (f.short, short, EXEMPT[(f.short, short)]), f.loc(c))
                continue
            pos = f.cfg.position(c)
            guarded = any(f.cfg.guarded_by_edge(pos, a, f.cfg.succ[a].index(b)) for a, b in member_edges
                          if b in f.cfg.succ[a])
            chk.check(guarded, 'R5', f.name, 'the group registry is consulted only by handlers that are members of a '
                      'group (Groups::%s)' % short, f.loc(c), 'the call is not guarded by mUsedByGroup: an independent '
                      'handler reads the handlers of other threads')
    chk.require(n_reg >= 5, 'calls from Handler into the group registry: %d' % n_reg)

    # R3: setConstraintsContainer gets &mConstraints of the handler itself
    n = 0
    for f in prog.functions:
        if f.classq != 'celma::prog_args::Handler':
            continue
        for c in f.calls_to('setConstraintsContainer'):
            n += 1
            args = children(c)[1:]
            a = strip_all_casts(args[0]) if args else None
            good = False
            if a and a.get('k') == 'UnaryOperator' and a.get('op') == '&':
                m = strip_all_casts(children(a)[0])
                if m.get('k') == 'MemberExpr' and m.get('ref', {}).get('q') == 'celma::prog_args::Handler::mConstraints':
                    base = children(m)
                    good = bool(base) and base[0].get('k') == 'CXXThisExpr'
            chk.check(good, 'R3', f.name, 'argument receives this->mConstraints', f.loc(c))
    # every add path must reach a setConstraintsContainer call
    for f in prog.functions:
        if f.classq == 'celma::prog_args::Handler' and f.short == 'internAddArgument':
            cl = call_closure(prog, [f])
            chk.check(any(g.name.endswith('TypedArgBase::setConstraintsContainer') for g, _ in cl.values()),
                      'R3', f.name, 'internAddArgument hands over the constraint container', f.loc())

    # positive control
    ctl_unit = os.path.join(VERIF, 'controls', 'static_write.cpp')
    cprog = load_program([ctl_unit], extra_roots=[os.path.join(VERIF, 'controls')])
    entry = [f for f in cprog.functions if f.name == 'verif_control::entry']
    chk.require(entry, 'control unit not extracted')
    from ..report import Check
    probe = Check(chk.pid, chk.tier)
    probe._known = []
    effect_rule(probe, cprog, call_closure(cprog, entry), 'R1', 'R2', 'control')
    got = {(f['function'], f['rule']) for f in probe.failures}
    want = {('verif_control::unsync_static_buffer', 'R1'), ('verif_control::unsync_global_increment', 'R1'),
            ('verif_control::read_after_unlock', 'R1'), ('verif_control::non_reentrant', 'R2')}
    for w in sorted(want):
        chk.require(w in got, 'positive control not reported: %s' % (w,))
        chk.ok('CTL', w[0], 'control construct is reported by ' + w[1])
    chk.require(('verif_control::synced_global_increment', 'R1') not in got,
                'control: locked access reported (false alarm)')
