"""C01 — Command-line values reach their typed destinations, whatever the spelling.

Equivalence of all surface spellings (tokenisation of -abc, --k=v, glued values, abbreviations,
ordering) is a relation over an exponential input space produced by the ArgListIterator state
machine and is NOT decided.  Decided is the store discipline every spelling funnels into:
 R1 who-may-write-destination: only assign() (and helpers called only from assign()) writes
    through the destination reference - constructors, setters and observers never do, so the
    variables of unused arguments keep their value
 R2 convert-then-store: in every value-taking assign() each store to the destination is the
    result of boost::lexical_cast<destination type> applied to the (formatted copy of the)
    incoming string; formatters run before the conversion
 R3 single funnel: assign() is only called from TypedArgBase::assignValue() and from derived
    assign()s chaining to their base; the handler reaches it only through assignValue()
 R4 key -> object: lookup structure (shared with C05-R2)
 R5 tokeniser one-shot flag discipline: the 'rest of the word is the value' request lives for one
    step of the argument iterator only (a necessary condition of spelling independence)"""
from .. import rules
from ..rules import (callee_is, object_of, field_name, call_args, mentions_field, mentions_call,
                     mentions_var, loops_in, loop_header)
from ..facts import children, strip_all_casts, walk, CALL_KINDS, AnalysisBroken
from .c02 import element_loops, short_cls
from . import c05

MUTATORS = {'push_back', 'insert', 'clear', 'resize', 'set', 'reset', 'flip', 'push', 'emplace', 'erase', 'pop',
            'assign', 'addValue', 'sort', 'swap', 'operator=', 'operator+=', 'operator-=', 'operator++', 'operator--',
            'push_front', 'emplace_back', 'emplace_front', 'insert_after', 'fill', 'setValue', 'increment'}

CONSTANT_STORES = {
    # class (prefix) -> reason why the stored value is not converted from the command line
    'celma::prog_args::detail::TypedArg<bool>': 'flag: stores the configured constant',
    'celma::prog_args::detail::TypedArg<std::optional<bool>>': 'flag: stores the configured constant',
    'celma::prog_args::detail::TypedArgValue<': 'stores the value fixed at definition',
    'celma::prog_args::detail::TypedArg<celma::common::ValueFilter<': 'parseFilterString() is the converter',
    'celma::prog_args::detail::TypedArg<celma::prog_args::LevelCounter>': 'increment without value; value path converted',
}


def dest_writes(f):
    """nodes in f that write through a destination member (mDestVar, mDestVar2, mDestCont)"""
    res = []

    def is_dest(x):
        n = field_name(x)
        return bool(n) and (n.startswith('mDestVar') or n == 'mDestCont')
    for n in f.walk():
        k = n.get('k')
        if k in ('BinaryOperator', 'CompoundAssignOperator') and n.get('op', '').endswith('=') and \
                n['op'] not in ('==', '!=', '<=', '>='):
            lhs = children(n)[0]
            if any(is_dest(x) for x in walk(lhs)):
                res.append(n)
        elif k == 'UnaryOperator' and n.get('op') in ('++', '--') and any(is_dest(x) for x in walk(children(n)[0])):
            res.append(n)
        elif k == 'CXXMemberCallExpr' and not n.get('cconst') and is_dest(object_of(n)) and \
                n.get('callee', '').split('::')[-1] in MUTATORS:
            res.append(n)
        elif k == 'CXXOperatorCallExpr' and n.get('op') in ('=', '+=', '-=', '++', '--'):
            a = call_args(n)
            if a and any(is_dest(x) for x in walk(a[0])):
                res.append(n)
    return res


def r1(chk, prog, tb):
    callers = {}
    for f in prog.functions:
        for c in f.calls():
            callers.setdefault(c.get('ckey'), set()).add(f.key)
    n = 0
    by_class = {}
    for f in prog.functions:
        if f.cls in tb:
            by_class.setdefault(f.cls, []).append(f)
    chk.require(len(by_class) >= 20, 'only %d argument classes instantiated' % len(by_class))
    for cls, fs in sorted(by_class.items()):
        writers = [f for f in fs if dest_writes(f)]
        has_assign = any(f.short == 'assign' for f in fs)
        n += 1
        bad = []
        for f in writers:
            if f.short == 'assign':
                continue
            cs = callers.get(f.key, set())
            # helper: every caller is an assign() (or another such helper) of an argument class
            ok = bool(cs) and all(any(g.key == k and g.short in ('assign',) for g in prog.functions) for k in cs)
            if not ok:
                bad.append('%s (called from %s)' % (f.short, sorted(x.split('(')[0].split('::')[-1] for x in cs) or 'nowhere'))
        chk.check(not bad, 'R1', cls, 'only assign() writes the destination variable [%s]' % cls.replace(
            'celma::prog_args::detail::', '').replace(
            'std::basic_string<char, std::char_traits<char>, std::allocator<char>>', 'string')[:80], '',
            'destination written by %s' % bad)
    return n


def derives_from_value(f, node, depth=0):
    """does the expression depend on the parameter `value` (directly or through local copies)?"""
    pv = f.params[0]['name'] if f.params else None
    names = {pv}
    changed = True
    while changed:
        changed = False
        for n in f.walk():
            if n.get('k') == 'DeclStmt':
                for d in n['decls']:
                    if d['name'] not in names and isinstance(d.get('init'), dict) and \
                            any(x.get('k') == 'DeclRefExpr' and x['ref'].get('name') in names for x in walk(d['init'])):
                        names.add(d['name'])
                        changed = True
    return any(x.get('k') == 'DeclRefExpr' and x['ref'].get('name') in names for x in walk(node))


def r2(chk, prog, tb):
    n = 0
    for f in sorted([f for f in prog.functions if f.short == 'assign' and f.cls in tb], key=lambda x: x.cls):
        if element_loops(f):
            continue          # list destinations: pipeline decided by C06-R1
        why = next((w for k, w in CONSTANT_STORES.items() if f.cls == k or (k.endswith('<') and f.cls.startswith(k))),
                   None)
        ws = dest_writes(f)
        if not ws:
            continue
        tag = short_cls(f)
        cfg = f.cfg
        convs = [c for c in f.calls() if c.get('callee', '').startswith('boost::lexical_cast')]
        if why and not convs:
            chk.ok('R2', f.name, 'store of a configured constant (%s) [%s]' % (why, tag), f.loc())
            n += 1
            continue
        for w in ws:
            kids = call_args(w) if w.get('k') in CALL_KINDS else children(w)
            lhs = kids[0]
            # only the primary destination must be converted from the value
            primary = any(field_name(x) == 'mDestVar' for x in walk(lhs))
            if not primary:
                chk.ok('R2', f.name, 'companion destination stores its configured value [%s]' % tag, f.loc(w))
                continue
            if w.get('k') == 'UnaryOperator' or (w.get('op') in ('++', '--')):
                if why:
                    chk.ok('R2', f.name, 'increment without value (%s) [%s]' % (why, tag), f.loc(w))
                    continue
            rhs = kids[1] if len(kids) > 1 else None
            n += 1
            conv = [x for x in walk(rhs) if x.get('k') in CALL_KINDS and
                    x.get('callee', '').startswith('boost::lexical_cast')] if rhs else []
            ok = bool(conv) and all(derives_from_value(f, call_args(c)[0]) for c in conv)
            if not ok and rhs is not None and why:
                ok = True
            # the converted type is the destination's type
            if ok and conv:
                lt = (strip_all_casts(lhs).get('t') or '').replace('const ', '')
                ct = (conv[0].get('t') or '').replace('const ', '')
                inner = lt
                if lt.startswith('std::optional<'):
                    inner = lt[len('std::optional<'):-1]
                if lt == 'celma::prog_args::LevelCounter':
                    inner = 'int'
                ok = ct == inner or ct == lt
            chk.check(ok, 'R2', f.name, 'the stored value is lexical_cast<destination type>( incoming string) [%s]' % tag,
                      f.loc(w), 'store of an unconverted / stale value')
        # formatters before the conversion
        fmts = [c for c in f.calls() if callee_is(c, 'TypedArgBase::format')]
        late = []
        for fm in fmts:
            for c in convs:
                if cfg.reachable_from(cfg.position(c), cfg.position(fm)):
                    late.append(f.loc(fm))
        if fmts:
            chk.check(not late, 'R2', f.name, 'formatters run before the conversion [%s]' % tag, f.loc(),
                      'format() after the conversion has no effect on the stored value: %s' % late)
        # with formatters defined the formatted copy is what gets converted
        if fmts and convs:
            fargs = {strip_all_casts(call_args(c)[0]).get('ref', {}).get('name') for c in fmts}
            used = any(any(x.get('k') == 'DeclRefExpr' and x['ref'].get('name') in fargs for x in walk(call_args(c)[0]))
                       for c in convs)
            chk.check(used, 'R2', f.name, 'the formatted copy of the value is the one that is converted [%s]' % tag, f.loc())
    return n


def r3(chk, prog, tb):
    n = 0
    for f in prog.functions:
        for c in f.calls():
            q = c.get('callee', '')
            if not (q.endswith('::assign') and c.get('cclass') in tb | {'celma::prog_args::detail::TypedArgBase'}):
                continue
            n += 1
            ok = (f.classq == 'celma::prog_args::detail::TypedArgBase' and f.short == 'assignValue') or \
                (f.short == 'assign' and f.cls in tb)
            chk.check(ok, 'R3', f.name, 'assign() is only reached through TypedArgBase::assignValue() or a derived assign()',
                      f.loc(c), 'direct call of %s bypasses cardinality / deprecation / inversion checks' % q)
    chk.require(n >= 3, 'assign() call sites: %d' % n)
    # the handler classes never call assign() directly (covered above) and reach assignValue only via the
    # rules of C02-R2


def r5_one_shot_flags(chk, prog):
    """tokeniser: the 'rest of the word is the value' request is valid for ONE step only - it is cleared
    on every exit of operator++ (normal or by exception), and it is only raised by remArgStrAsVal()"""
    ops = [f for f in prog.functions if (f.classq or '') == 'celma::prog_args::detail::ArgListIterator'
           and f.short == 'operator++' and not f.params]
    chk.require(ops, 'ArgListIterator::operator++() not instantiated')
    flag = 'mRemainingArgumentStringAsValue'
    for f in ops:
        cfg = f.cfg
        raii = [d for n in f.walk() if n.get('k') == 'DeclStmt' for d in n['decls']
                if 'ResetAtExit' in d.get('t', '') and isinstance(d.get('init'), dict) and
                mentions_field(d['init'], flag)]
        ok = False
        if raii:
            dn = [n for n in f.walk() if n.get('k') == 'DeclStmt' and any(d in raii for d in n['decls'])][0]
            # declared before anything else can leave the function
            ok = not cfg.must_pass_through(lambda n: n is dn, kinds=('return', 'throw'))
            a = children(raii[0]['init'])
            ok = ok and len(a) >= 2 and strip_all_casts(a[1]).get('val') in (False, 0)
        else:
            resets = {n['id'] for n in f.walk() if n.get('k') == 'BinaryOperator' and n.get('op') == '=' and
                      field_name(children(n)[0]) == flag and strip_all_casts(children(n)[1]).get('val') in (False, 0)}
            ok = bool(resets) and not cfg.can_reach_exit(cfg.entry_pos(), lambda p, e: isinstance(e, int) and e in resets,
                                                         kinds=('return',))
        chk.check(ok, 'R5', f.name, 'the one-step request "rest of the word is the value" is cleared on every exit of '
                  'operator++', f.loc(), 'the flag survives a step: a later word that groups flags behind one dash is '
                  'split as flag + value although the same line spelled differently is not')
    writers = sorted({g.short for g in prog.functions if (g.classq or '') == 'celma::prog_args::detail::ArgListIterator'
                      for n in g.walk() if n.get('k') == 'BinaryOperator' and n.get('op') == '=' and
                      field_name(children(n)[0]) == flag and strip_all_casts(children(n)[1]).get('val') in (True, 1)})
    chk.check(writers == ['remArgStrAsVal'], 'R5', 'celma::prog_args::detail::ArgListIterator',
              'the request is only raised by remArgStrAsVal()', '', 'raised in %s' % writers)


FIRST_OCCURRENCE = ('find', 'find_first_of', 'strchr', 'memchr')
LAST_OCCURRENCE = ('rfind', 'find_last_of', 'strrchr', 'memrchr')


def r6_key_value_split(chk, prog):
    """tokeniser: '--key=value' is split at the FIRST '=' of the word - a key never contains '=', so everything
    behind the first one is the value ('--define=LEVEL=3' is the same assignment as '--define LEVEL=3').  Decided on
    the search that looks for the '=' in determineNextArg(): it must belong to the first-occurrence family; a search
    this rule does not know is reported as analysis-broken, never as a pass"""
    fs = [f for f in prog.functions if (f.classq or '') == 'celma::prog_args::detail::ArgListIterator'
          and f.short == 'determineNextArg' and f.body is not None]
    chk.require(fs, 'ArgListIterator::determineNextArg() not instantiated')
    n = 0
    for f in fs:
        sites = []
        for c in f.calls():
            args = call_args(c)
            if any(strip_all_casts(a).get('k') == 'CharacterLiteral' and strip_all_casts(a).get('val') == ord('=')
                   or strip_all_casts(a).get('k') == 'StringLiteral' and strip_all_casts(a).get('str') == '='
                   for a in args):
                sites.append(c)
        if not sites:
            raise AnalysisBroken('no search for the \'=\' of --key=value found in %s' % f.key)
        for c in sites:
            short = (c.get('callee') or '').split('::')[-1]
            if short in ('operator==', 'operator!=') or c.get('k') == 'CXXOperatorCallExpr':
                continue
            n += 1
            if short not in FIRST_OCCURRENCE + LAST_OCCURRENCE:
                raise AnalysisBroken('the search for \'=\' in %s uses %s, which this rule does not know' % (
                    f.key, c.get('callee')))
            chk.check(short in FIRST_OCCURRENCE, 'R6', f.name, "'--key=value' is split at the first '=' of the word",
                      f.loc(c), "%s() finds the LAST '=': a value that contains '=' becomes part of the key "
                      "(--define=LEVEL=3 is rejected or assigned to another argument while --define LEVEL=3 works)"
                      % short)
    chk.require(n >= 1, "searches for '=' in determineNextArg(): %d" % n)


def r9_value_word_decision(chk, prog, rule='R9'):
    """tokeniser: when is the next element 'the rest of the word as a value' (instead of a fresh analysis of the
    word)?  The guard of the branch of ArgListIterator::operator++ that hands &word[ pos] on as a value is evaluated
    for every combination of its three inputs: a pending value after '--key=' (mNextIsValue), the one-step request
    of an argument that requires a value (mRemainingArgumentStringAsValue) and the position inside the word.
    Expected: after '--key=' the rest is ALWAYS the value (also for an optional value: '--verbose=3'); the one-step
    request applies only INSIDE a word ('-kvalue') - at a word start the word is analysed normally, so that
    '-s -f' finds a key where a value is required (missing-value error) instead of swallowing '-f'"""
    from ..boolshape import Interp, NeedAtom, Unsupported
    import itertools
    ops = [f for f in prog.functions if (f.classq or '') == 'celma::prog_args::detail::ArgListIterator'
           and f.short == 'operator++' and not f.params and f.body is not None]
    chk.require(ops, 'ArgListIterator::operator++() not instantiated')
    n = 0
    for f in ops:
        # the branch that stores the rest of the current word as value: setValue( index, &mpArgV[ index][ pos])
        target = None
        for ifs in (x for x in f.walk() if x.get('k') == 'IfStmt'):
            kids = [c for c in ifs.get('c', []) if c is not None]
            if len(kids) < 2:
                continue
            then = kids[1]
            direct = [c for c in walk(then) if c.get('k') in CALL_KINDS and callee_is(c, 'setValue') and
                      mentions_field(c, 'mArgCharPos')]
            inner_ifs = [y for y in walk(then) if y.get('k') == 'IfStmt' and y is not ifs]
            if direct and not any(d in list(walk(y)) for y in inner_ifs for d in direct):
                target = (ifs, kids[0])
        if target is None:
            raise AnalysisBroken('operator++: the branch that hands the rest of the word on as value was not found')
        ifs, cond = target
        for nv, rem, pos in itertools.product((0, 1), (0, 1), (0, 3)):
            # the decision must not depend on anything else: the character the rest starts with ('-5' is a value
            # like any other when it is glued to its key) or the '--' state (mAcceptDashedValue)
            got = set()
            for ch, dashed in itertools.product((45, 120), (0, 1)):
                def other(itp, key, ch=ch):
                    return ch if key.startswith('this.mpArgV[') else None
                it = Interp(f, {'this.mNextIsValue': nv, 'this.mRemainingArgumentStringAsValue': rem,
                                'this.mArgCharPos': pos, 'this.mAcceptDashedValue': dashed, 'this.mArgIndex': 1},
                            callbacks={'<atom>': other})
                try:
                    got.add((bool(it.ev(cond)), ch, dashed))
                except (NeedAtom, Unsupported) as e:
                    raise AnalysisBroken('operator++: guard of the value branch not interpretable: %s' %
                                         getattr(e, 'key', e))
            want = bool(nv or (rem and pos > 0))
            n += 1
            wrong = sorted((c_, d_) for v_, c_, d_ in got if v_ != want)
            chk.check(not wrong, rule, f.name, "the rest of the word is handed on as value: %s [pending '--key=' "
                      "value: %s, value requested by the argument: %s, %s]" % (
                          'yes' if want else 'no (normal analysis of the word)', bool(nv), bool(rem),
                          'inside a word' if pos else 'at a word start'), f.loc(ifs),
                      'operator++ decides %s when %s' % ('no' if want else 'yes', '; '.join(
                          "the rest starts with '%s'%s" % (chr(c_), " after '--'" if d_ else '') for c_, d_ in wrong)))
    chk.require(n >= 8, 'value-word decisions evaluated: %d' % n)
    return n


def r11_control_word_decision(chk, prog, rule='R11'):
    """tokeniser: a word is a control element exactly when it IS one of the characters '(' ')' '!' - a value that
    merely starts with one of them ('(draft)', '!important') is a value like any other, in every spelling.  The
    guard of the branch of ArgListIterator::operator++ that stores a control element is evaluated (Engine B, helper
    functions of the iterator inlined) for every combination of word length {1, 3} x first character"""
    from ..boolshape import Interp, NeedAtom, Unsupported
    import itertools
    ops = [f for f in prog.functions if (f.classq or '') == 'celma::prog_args::detail::ArgListIterator'
           and f.short == 'operator++' and not f.params and f.body is not None]
    chk.require(ops, 'ArgListIterator::operator++() not instantiated')
    n = 0
    for f in ops:
        target = None
        for ifs in (x for x in f.walk() if x.get('k') == 'IfStmt'):
            kids = [c for c in ifs.get('c', []) if c is not None]
            if len(kids) >= 2 and any(c.get('k') in CALL_KINDS and callee_is(c, 'setControl') for c in walk(kids[1])) \
                    and not any(y.get('k') == 'IfStmt' and any(
                        c.get('k') in CALL_KINDS and callee_is(c, 'setControl') for c in walk(y))
                        for y in walk(kids[1]) if y is not ifs):
                target = (ifs, kids[0])
        if target is None:
            raise AnalysisBroken('operator++: the branch that stores a control element was not found')
        ifs, cond = target
        for length, ch in itertools.product((1, 3), (ord('('), ord(')'), ord('!'), ord('x'), ord('-'))):
            def other(itp, key, ch=ch, length=length):
                if key.startswith('this.mpArgV[') or key.endswith('[0]'):
                    return ch
                if key.startswith('strlen('):
                    return length
                return None
            it = Interp(f, {'this.mCurrArgStringLen': length, 'this.mArgIndex': 1, 'this.mArgCharPos': 0},
                        callbacks={'<atom>': other, 'strlen': lambda itp, c, length=length: length}, prog=prog)
            try:
                v = bool(it.ev(cond))
            except (NeedAtom, Unsupported) as e:
                raise AnalysisBroken('operator++: guard of the control-element branch not interpretable: %s' %
                                     getattr(e, 'key', e))
            want = length == 1 and ch in (ord('('), ord(')'), ord('!'))
            n += 1
            chk.check(v == want, rule, f.name, "a word of %d character(s) that starts with '%s' is %s" % (
                length, chr(ch), 'a control element' if want else 'not a control element'), f.loc(ifs),
                'operator++ decides %s' % ('control element' if v else 'no control element'))
    chk.require(n >= 10, 'control-word decisions evaluated: %d' % n)
    return n


def r12_store_independent_of_destination(chk, prog, rule='R12'):
    """what a scalar destination holds after an assignment is determined by the value given (for a flag: by the
    configured value-to-set), never by what the destination held before: in every assign() of a non-container
    argument class the expression stored into the destination does not read the destination - a flag that toggles
    would come out differently when the same flag arrives from the argument file and again from the command line"""
    n = 0
    for f in prog.functions:
        if f.short != 'assign' or f.body is None or not (f.cls or '').startswith('celma::prog_args::detail::TypedArg<'):
            continue
        stores = []
        for x in f.walk():
            if x.get('k') == 'BinaryOperator' and x.get('op') == '=' and field_name(children(x)[0]) == 'mDestVar' and \
                    strip_all_casts(children(x)[0]).get('k') == 'MemberExpr':
                stores.append((x, children(x)[1]))
            elif x.get('k') == 'CXXOperatorCallExpr' and x.get('op') == '=' and call_args(x) and \
                    field_name(call_args(x)[0]) == 'mDestVar' and strip_all_casts(call_args(x)[0]).get('k') == 'MemberExpr':
                stores.append((x, call_args(x)[1]))
        for x, rhs in stores:
            n += 1
            chk.check(not mentions_field(rhs, 'mDestVar'), rule, f.name, 'the stored value does not depend on the '
                      'previous content of the destination', f.loc(x), 'the stored expression reads the destination')
        if (f.cls or '').endswith('TypedArg<bool>'):
            chk.check(bool(stores) and all(mentions_field(r, 'mValue2Set') for _, r in stores), rule, f.name,
                      'a flag stores the configured value (set, or cleared after unsetFlag())', f.loc())
    chk.require(n >= 10, 'direct stores into scalar destinations: %d' % n)
    return n


def run(chk):
    prog, units = rules.prog_args_program()
    chk.units = units
    tb = prog.derived_from('celma::prog_args::detail::TypedArgBase')
    chk.explanation = (
        'Store discipline of every argument class instantiated by the driver (all destination kinds): effect facts '
        '"which member functions write through the destination reference", def-use of the stored expression '
        '(boost::lexical_cast<destination type> of the incoming value or its formatted copy), order of format() vs. '
        'conversion by CFG reachability, who-may-call for assign(). Decides that a value that reaches an argument is '
        'converted and stored by one funnel only and that nothing else ever touches a destination. Not decided: '
        'equivalence of all command-line spellings (tokenisation).')
    chk.assumptions = ['boost::lexical_cast<T> converts the text to the value it denotes (trusted library)']
    chk.rule('R1', 'only assign() writes a destination', 20)
    chk.rule('R2', 'stored value = conversion of the incoming (formatted) string', 15)
    chk.rule('R3', 'single funnel into assign()', 3)
    chk.rule('R4', 'key -> object lookup (shared with C05-R2)', 4)
    chk.rule('R5', 'tokeniser one-shot flag is consumed in one step', 2)
    r1(chk, prog, tb)
    r2(chk, prog, tb)
    r3(chk, prog, tb)
    c05.r2(chk, prog, rule='R4')
    # ... with the key algebra the lookup is built on: a command-line key (short OR long) equals exactly the
    # arguments that carry it - otherwise one of the two spellings of an argument is not an exact match (C05-R3)
    c05.r3(chk, prog, rule='R4')
    # ... and with the key-specification parser: the short and the long key of a two-part specification are the
    # parts that were written (C05-R7)
    c05.r7_two_part_spec(chk, prog, rule='R4')
    r5_one_shot_flags(chk, prog)
    chk.rule('R6', "tokeniser splits --key=value at the first '='", 1)
    r6_key_value_split(chk, prog)
    # R7: where the word is cut - Engine C over ArgListIterator::operator++ from every case of the cursor invariant
    # (C04-R6): the key handed on is exactly the text in front of the '=' found, the value starts right behind it
    from . import c04_cursor
    chk.rule('R7', "--key=value: the key is the text in front of the '=' and the value starts right behind it "
             "(for every word)", 4)
    chk.rule('R13', 'tokeniser cursor invariant: every word is analysed from its first character (shared with C04-R6)', 4)
    c04_cursor.run(chk, prog, rule='R13', split_rule='R7')
    # R8: which following word / rest of the word becomes the value - the value-mode table of C02-R12
    from . import c02
    chk.rule('R8', 'a key is paired with the following word / the glued rest according to its value mode '
             '(exhaustive table, shared with C02-R12)', 12)
    sub = type(chk)(chk.pid, chk.tier)
    sub._known = []
    c02.r12_value_mode_table(sub, prog)
    for o in sub.obligations:
        chk.check(o['status'] == 'held', 'R8', o['function'], o['what'], o['where'], o.get('detail', ''))
    chk.rule('R9', "tokeniser: when the rest of a word is a value (after '--key=' always; a requested value only "
             "inside a word)", 8)
    r9_value_word_decision(chk, prog)
    # R10: a value that was converted and stored is also reported as given (hasValue(): the mandatory check of a
    # legal line must not fail) - rule shared with C03-R7
    from . import c03
    chk.rule('R10', 'an argument that was assigned reports hasValue() (shared with C03-R7)', 5)
    sub2 = type(chk)(chk.pid, chk.tier)
    sub2._known = []
    c03.r7_assigned_means_has_value(sub2, prog)
    for o in sub2.obligations:
        chk.check(o['status'] == 'held', 'R10', o['function'], o['what'], o['where'], o.get('detail', ''))
    chk.rule('R11', "tokeniser: a word is a control element only if it IS '(' ')' or '!'", 10)
    r11_control_word_decision(chk, prog)
    chk.rule('R12', 'the stored value never depends on the previous content of the destination', 10)
    r12_store_independent_of_destination(chk, prog)
    # R14: a value list `-v a,b,c` is the same as one value per occurrence only if the list-splitting assign() works
    # through EVERY element and finishes its pipeline (sort) - the pipeline obligations of C06-R1, shared
    from . import c06
    chk.rule('R14', 'list spelling: every element of a value list passes the whole assign pipeline (shared with C06-R1)', 50)
    sub3 = type(chk)(chk.pid, chk.tier)
    sub3._known = []
    c06.r1(sub3, prog)
    for o in sub3.obligations:
        chk.check(o['status'] == 'held', 'R14', o['function'], o['what'], o['where'], o.get('detail', ''))
