"""C19 — Buffered reading and writing preserve the byte stream for every chunking.

O1 (Engine C) with the inductive invariants  mDataStart <= mDataEnd <= N  and  mWritePos <= N :
   every memcpy/memmove and the readData( &buf[e], N-e) hand-off stay inside the N-byte buffer
   and inside the caller's len bytes; get( len > N) throws before any state change
O4 byte-stream fidelity as a refinement proof (content invariants, Engine C write log):
   read side : ghost counters consumed / fetched; invariant  fetched == consumed + (mDataEnd - mDataStart)  and
               buf[ mDataStart + k] == stream[ consumed + k]  for every k in the window - assumed at entry, proved
               at every exit and inductively around the refill loop (the source delivers stream[ fetched ..)); at the
               exit of get( data, len): exactly len bytes were delivered and data[ i] == stream[ consumed + i]
   write side: ghost counters appended / sunk; invariant  sunk == appended - mWritePos  and
               buf[ k] == appended[ appended - mWritePos + k]; every writeData( p, n) hands over exactly
               appended[ sunk .. sunk + n) (in order, none lost, none twice)
   This holds for every request size, every chunking of the source and every sequence of calls (induction over the
   calls through the class invariant).
Not decided: termination when the source returns 0."""
import os
import re

from ..bounds import Engine, Ptr, Obj, Obligation, UNKNOWN, _ev_all
from ..lin import Lin, lin, ge, le, lt, gt, eq, entails, feasible
from ..facts import VERIF, load_program, children, strip_all_casts, walk, CALL_KINDS
from ..rules import callee_is, call_args, field_name, object_of, mentions_field


def template_n(func):
    m = re.search(r'Buffer<(\d+),', func.cls or '')
    return int(m.group(1)) if m else None


def ghost(eng, st, name):
    key = ('ghost', name)
    v = st.fields.get(key)
    if v is None:
        v = eng.named('ghost.' + name, st, 'unsigned long')
        st.assume(le(v, 1 << 62))
        st.fields[key] = v
    return v


def delivered(st):
    """number of bytes copied out to the caller's memory so far (ReadBuffer::get)"""
    n = lin(0)
    for e in st.wlog:
        if e[0] == 'copy' and isinstance(e[1], Ptr) and e[1].region == 'data':
            n = n + e[3]
    return n


def norm(d, st):
    """descriptor of a byte as position in the abstract byte stream, if it has one"""
    if d[0] == 'stream':
        return d
    if d[0] == 'opaque' and isinstance(d[1], tuple) and d[1][0] == 'stream':
        return ('stream', d[1][1] + d[2])
    if d[0] == 'init' and d[1] == 'data' and ('ghost', 'append_base') in st.fields:
        return ('stream', st.fields[('ghost', 'append_base')] + d[2])
    return d


def same_stream(st, d, want):
    d = norm(d, st)
    return d[0] == 'stream' and isinstance(d[1], Lin) and entails(st.cons, ge(d[1], want)) and \
        entails(st.cons, le(d[1], want))


def window_resolver(lo, hi, base):
    """content invariant as a log entry: region[ k] == stream[ base + k - lo] for lo <= k < hi"""
    def resolve(eng, st, off):
        res = []
        inside = st.copy()
        inside.assume(ge(off, lo), lt(off, hi))
        if inside.ok():
            res.append((('stream', base + (off - lo)), inside))
        for extra in ([lt(off, lo)], [ge(off, hi)]):
            o = st.copy()
            o.assume(*extra)
            if o.ok():
                res.append((('garbage',), o))
        return res
    return resolve


def check_window(eng, s, region, lo, hi, base, what, when, node, func):
    """for a symbolic k in [lo, hi): region[ k] is stream[ base + k - lo]"""
    k = eng.fresh('k', s, 'unsigned long')
    s2 = s.copy()
    s2.assume(ge(k, lo), lt(k, hi))
    bad = None
    n = 0
    if s2.ok():
        for d, sa in eng.content_at(s2, region, k):
            n += 1
            if not same_stream(sa, d, base + (k - lo)):
                bad = bad or 'byte %r of %s is %r, expected stream[ %r]; path [%s]' % (
                    k, region.split('.')[-1], norm(d, sa), base + (k - lo), '; '.join(sa.trail[-6:]))
    eng.obligations.append(Obligation(eng.root, 'stream', '%s %s' % (what, when), bad is None,
                                      func.loc(node) if (func is not None and node is not None) else
                                      (func.loc() if func is not None else ''), bad or ''))


def invariants(eng, st, func, obj='this'):
    n = template_n(func)
    if n is None:
        return []
    res = []
    region = '%s.mpBuffer.buf' % obj
    if region not in st.regions:
        st.regions[region] = lin(n)
    track = eng.cfg.get('track_content')
    if 'ReadBuffer' in func.cls:
        s = eng.load(('field', obj, 'mDataStart'), st, None, func, 'unsigned long')
        e = eng.load(('field', obj, 'mDataEnd'), st, None, func, 'unsigned long')
        goals = [ge(e, s), le(e, n), ge(s, 0)]
        post = None
        if track:
            c = ghost(eng, st, 'consumed')
            f = ghost(eng, st, 'fetched')
            # everything fetched from the source and not yet delivered is exactly the window
            goals = goals + eq(f, c + delivered(st) + (e - s))

            def post(en, s_, mode, region=region, obj=obj):
                s0 = s_.fields[(obj, 'mDataStart')]
                e0 = s_.fields[(obj, 'mDataEnd')]
                base = ghost(en, s_, 'consumed') + delivered(s_)
                if mode == 'assume':
                    s_.wlog.append(('rebase', region, window_resolver(s0, e0, base)))
                else:
                    _, when, node, fn = mode
                    check_window(en, s_, region, s0, e0, base, 'the window [mDataStart, mDataEnd) holds the next '
                                 'undelivered bytes of the source, in order', when, node, fn)
        res.append(('read window 0 <= mDataStart <= mDataEnd <= N' + (', fetched == delivered + window' if track
                                                                    else ''), goals, post))
    elif 'WriteBuffer' in func.cls:
        w = eng.load(('field', obj, 'mWritePos'), st, None, func, 'unsigned long')
        goals = [le(w, n), ge(w, 0)]
        post = None
        if track:
            a = ghost(eng, st, 'appended')
            t = ghost(eng, st, 'sunk')
            st.assume(ge(a, w))

            def appended_now(s_):
                # bytes accepted from the caller so far: at the exit of append() the whole block
                extra = s_.fields.get(('ghost', 'append_len'), lin(0)) if s_.status in ('return', 'normal') and \
                    s_.fields.get(('ghost', 'at_exit')) else lin(0)
                return ghost(eng, s_, 'appended') + extra
            goals = goals + [ge(a, w)]

            def post(en, s_, mode, region=region, obj=obj):
                w0 = s_.fields[(obj, 'mWritePos')]
                if mode == 'assume':
                    a0 = ghost(en, s_, 'appended')
                    s_.assume(*eq(ghost(en, s_, 'sunk'), a0 - w0))
                    s_.wlog.append(('rebase', region, window_resolver(lin(0), w0, a0 - w0)))
                else:
                    _, when, node, fn = mode
                    a1 = ghost(en, s_, 'appended') + s_.fields.get(('ghost', 'append_len'), lin(0))
                    t1 = ghost(en, s_, 'sunk')
                    held = entails(s_.cons, ge(t1, a1 - w0)) and entails(s_.cons, le(t1, a1 - w0))
                    en.obligations.append(Obligation(en.root, 'stream', 'everything appended and no longer buffered '
                                                     'has been handed to the sink (sunk == appended - buffered) %s'
                                                     % when, held, fn.loc(node) if (fn is not None and node is not None)
                                                     else (fn.loc() if fn is not None else ''),
                                                     '' if held else 'sunk %r, appended %r, buffered %r; path [%s]' % (
                                                         t1, a1, w0, '; '.join(s_.trail[-6:]))))
                    check_window(en, s_, region, lin(0), w0, a1 - w0, 'the buffer holds the last mWritePos appended '
                                 'bytes, in order', when, node, fn)
        res.append(('write position mWritePos <= N', goals, post))
    return res


def bind_param(eng, st, f, p):
    # documented extent of the caller's memory: get( data, len) / append( data, len)
    if f.short in ('get', 'append') and '*' in p['t'] and p['name'] == 'data':
        ln = st.vars.get('len')
        if ln is None:
            ln = eng.named('len', st, 'unsigned long')
            st.vars['len'] = ln
        st.regions['data'] = ln
        st.vars['data'] = Ptr('data', 0)
        if f.short == 'append' and eng.cfg.get('track_content'):
            # the caller's block is the next len bytes of the byte stream to be written
            st.fields[('ghost', 'append_len')] = ln
            st.fields[('ghost', 'append_base')] = ghost(eng, st, 'appended')
        return True
    return False


def m_read_data(eng, n, st, func, want):
    """contract of the virtual source: writes at most `len` bytes at `data`, returns the number written"""
    objn, args = eng.args_of(n)
    out = []
    for (p, ln), s1 in _ev_all(eng, args[:2], st, func):
        if isinstance(ln, Lin):
            eng.access(s1, p, ln, 'readData( ptr, len) hand-off', n, func, write=True)
            # progress: a refill that cannot receive a single byte would never satisfy the request
            eng.oblige(s1, [ge(ln, 1)], 'progress', 'every refill asks the source for at least one byte '
                       '(the request can be satisfied)', n, func, 'requested length %r;' % ln)
            r = eng.fresh('data_read', s1, 'unsigned long')
            s1.assume(le(r, ln))
            eng.events.append(('readData', p, ln, s1))
            if eng.cfg.get('track_content') and isinstance(p, Ptr):
                # the source delivers the next r bytes of the stream
                fetched = ghost(eng, s1, 'fetched')
                eng.log_write(s1, ('opaque', p, r, ('stream', fetched)))
                s1.fields[('ghost', 'fetched')] = fetched + r
            out.append((r, s1))
        else:
            out.append((eng.fresh('data_read', s1, 'unsigned long'), s1))
    return out


def m_write_data(eng, n, st, func, want):
    objn, args = eng.args_of(n)
    out = []
    for (p, ln), s1 in _ev_all(eng, args[:2], st, func):
        if isinstance(ln, Lin):
            eng.access(s1, p, ln, 'writeData( ptr, len) hand-off', n, func, write=False)
            s1.fields[('ghost', 'sink_calls')] = s1.fields.get(('ghost', 'sink_calls'), lin(0)) + 1
            if eng.cfg.get('track_content') and isinstance(p, Ptr):
                # the bytes handed to the sink are the next ln bytes of the appended stream, in order
                t = ghost(eng, s1, 'sunk')
                j = eng.fresh('j', s1, 'unsigned long')
                s2 = s1.copy()
                s2.assume(ge(j, 0), lt(j, ln))
                bad = None
                if s2.ok():
                    for d, sa in eng.content_at(s2, p.region, p.off + j):
                        if not same_stream(sa, d, t + j):
                            bad = bad or 'byte %r handed to the sink is %r, expected stream[ %r]; path [%s]' % (
                                j, norm(d, sa), t + j, '; '.join(sa.trail[-6:]))
                eng.obligations.append(Obligation(eng.root, 'stream', 'the sink receives the appended bytes in order, '
                                                  'none lost, none twice', bad is None, func.loc(n), bad or ''))
                # a sink may refuse the bytes: the exception leaves the call before anything was consumed
                refused = s1.copy()
                refused.status = 'throw'
                refused.thrown = 'sink'
                refused.fields[('ghost', 'sink_refused')] = lin(1)
                refused.trail.append('the sink refuses the bytes (exception)')
                out.append((UNKNOWN, refused))
                s1.fields[('ghost', 'sunk')] = t + ln
        out.append((UNKNOWN, s1))
    return out


def get_ptr(eng, st, obj):
    return Ptr(obj + '.buf', 0)


def m_up_get(eng, n, st, func, want):
    """std::unique_ptr<unsigned char[]>::get / operator[] on the buffer member"""
    callee = n.get('callee', '')
    short = callee.split('::')[-1]
    objn, args = eng.args_of(n)
    if objn is None:
        return None
    out = []
    for ov, s1 in eng.ev(objn, st, func):
        if not isinstance(ov, Obj):
            return None
        base = Ptr(ov.name + '.buf', 0)
        if base.region not in s1.regions:
            return None
        if short == 'get':
            out.append((base, s1))
        elif short == 'operator[]':
            for (idx,), s2 in _ev_all(eng, args[:1], s1, func):
                out.append((('lvptr', Ptr(base.region, idx)) if isinstance(idx, Lin) else UNKNOWN, s2))
        else:
            return None
    return out


def loop_havoc(eng, head, func, loop):
    """ghost counters changed inside the refill loop are unknown at its head (the invariant relates them again)"""
    if ('ghost', 'fetched') in head.fields:
        f = eng.fresh('ghost.fetched', head, 'unsigned long')
        head.assume(le(f, 1 << 62))
        head.fields[('ghost', 'fetched')] = f


def make_engine(prog):
    cfg = {
        'invariants': invariants,
        'bind_param': bind_param,
        'inline': ('celma::common::',),
        'track_content': True, 'content_invariant_loops': True, 'loop_havoc': loop_havoc,
        'models': {'readData': m_read_data, 'writeData': m_write_data,
                   'std::unique_ptr<unsigned char[], std::default_delete<unsigned char[]>>::*': m_up_get},
    }
    eng = Engine(prog, cfg)
    eng.events = []
    return eng


def structural(chk, prog):
    """R2 / R3 on the AST/CFG"""
    appends = [f for f in prog.functions if (f.classq or '') == 'celma::common::WriteBuffer' and f.short == 'append']
    flushes = [f for f in prog.functions if (f.classq or '') == 'celma::common::WriteBuffer' and f.short == 'flush']
    for f in flushes:
        cfg = f.cfg
        sinks = [c for c in f.calls() if callee_is(c, 'writeData')]
        resets = [n for n in f.walk() if n.get('k') == 'BinaryOperator' and n.get('op') == '=' and
                  field_name(children(n)[0]) == 'mWritePos']
        ok = len(sinks) == 1 and len(resets) == 1
        if ok:
            a = call_args(sinks[0])
            ok = mentions_field(a[0], 'mpBuffer') and field_name(a[1]) == 'mWritePos' and \
                cfg.node_dominates(sinks[0], resets[0])
        chk.check(ok, 'R2', f.name, 'flush() hands exactly [0, mWritePos) to the sink before resetting the position',
                  f.loc())
    for f in appends:
        cfg = f.cfg
        lowers = [n for n in f.walk() if n.get('k') == 'BinaryOperator' and n.get('op') == '=' and
                  field_name(children(n)[0]) == 'mWritePos']
        fl = [c for c in f.calls() if c.get('callee', '').endswith('::flush')]
        for n in lowers:
            ok = any(cfg.node_dominates(c, n) for c in fl)
            chk.check(ok, 'R2', f.name, 'the write position is only lowered after flush()', f.loc(n))
        sinks = [c for c in f.calls() if callee_is(c, 'writeData')]
        for c in sinks:
            ok = any(cfg.node_dominates(x, c) for x in fl)
            a = call_args(c)
            ok = ok and any(x.get('k') == 'DeclRefExpr' and x['ref'].get('name') == 'data' for x in walk(a[0])) and \
                strip_all_casts(a[1]).get('ref', {}).get('name') == 'len'
            chk.check(ok, 'R2', f.name, 'oversized blocks are passed through completely, after flushing what was buffered',
                      f.loc(c))
        # every path that returns normally with len > 0 either copies len bytes into the buffer or passes them on
        copies = [c for c in f.calls() if callee_is(c, 'memcpy')]
        ids = {c['id'] for c in copies + sinks}
        early = set()
        for n in f.walk():
            if n.get('k') == 'ReturnStmt':
                early.add(n['id'])
        bad = cfg.can_reach_exit(cfg.entry_pos(), lambda p, e: isinstance(e, int) and (e in ids or e in early))
        chk.check(not bad and len(early) == 1, 'R2', f.name, 'every non-empty append is buffered or passed on',
                  f.loc(), 'a path returns without consuming the data' if bad else 'early returns: %d' % len(early))
    gets = [f for f in prog.functions if (f.classq or '') == 'celma::common::ReadBuffer' and f.short == 'get']
    for f in gets:
        cfg = f.cfg
        copies = [c for c in f.calls() if callee_is(c, 'memcpy')]
        chk.require(copies, 'ReadBuffer::get without memcpy')
        for c in copies:
            a = call_args(c)
            src_ok = mentions_field(a[1], 'mpBuffer') and mentions_field(a[1], 'mDataStart')
            ln = strip_all_casts(a[2]).get('ref', {}).get('name')
            adv = [n for n in f.walk() if n.get('k') == 'CompoundAssignOperator' and n.get('op') == '+=' and
                   field_name(children(n)[0]) == 'mDataStart' and
                   strip_all_casts(children(n)[1]).get('ref', {}).get('name') == ln]
            follows = any(cfg.node_dominates(c, n) and not any(
                cfg.reachable_from(cfg.position(c), cfg.position(c2)) and
                cfg.reachable_from(cfg.position(c2), cfg.position(n)) for c2 in copies if c2 is not c)
                for n in adv)
            chk.check(src_ok and follows, 'R3', f.name,
                      'bytes are copied from &buf[mDataStart] and mDataStart advances by exactly that length', f.loc(c))
    fills = [f for f in prog.functions if (f.classq or '') == 'celma::common::ReadBuffer' and f.short == 'fillBuffer']
    for f in fills:
        mm = [c for c in f.calls() if callee_is(c, 'memmove')]
        ok = len(mm) == 1
        if ok:
            a = call_args(mm[0])
            dst0 = any(x.get('k') == 'IntegerLiteral' and x.get('val') == 0 for x in walk(a[0]))
            src = mentions_field(a[1], 'mDataStart')
            cnt = strip_all_casts(a[2])
            cnt_ok = cnt.get('k') == 'BinaryOperator' and cnt.get('op') == '-' and \
                field_name(children(cnt)[0]) == 'mDataEnd' and field_name(children(cnt)[1]) == 'mDataStart'
            ok = dst0 and src and cnt_ok
        chk.check(ok, 'R3', f.name, 'compaction moves exactly [mDataStart, mDataEnd) to the start of the buffer', f.loc())
        if mm:
            cfg = f.cfg
            rebase_end = [n for n in f.walk() if n.get('k') == 'CompoundAssignOperator' and n.get('op') == '-=' and
                          field_name(children(n)[0]) == 'mDataEnd' and field_name(children(n)[1]) == 'mDataStart']
            zero = [n for n in f.walk() if n.get('k') == 'BinaryOperator' and n.get('op') == '=' and
                    field_name(children(n)[0]) == 'mDataStart' and
                    strip_all_casts(children(n)[1]).get('val', strip_all_casts(children(n)[1]).get('cv')) == 0 and
                    cfg.node_dominates(mm[0], n)]
            ok = len(rebase_end) == 1 and len(zero) == 1 and cfg.node_dominates(mm[0], rebase_end[0]) and \
                cfg.node_dominates(rebase_end[0], zero[0])
            chk.check(ok, 'R3', f.name, 'after compaction both indices are rebased: end -= start, then start = 0',
                      f.loc(mm[0]))


def o7_allocation(chk, prog):
    """Engine C takes the buffer as a region of N bytes.  That is a fact about the constructors, established here:
    every constructor instantiation of ReadBuffer<N,P>/WriteBuffer<N,P> initialises mpBuffer with
    `new unsigned char[ S]`, S a constant of at least N (the invariants allow mWritePos == N / mDataEnd == N, i.e.
    byte N-1 is used), and nothing re-seats mpBuffer afterwards."""
    n = 0
    for f in prog.functions:
        if (f.classq or '') not in ('celma::common::ReadBuffer', 'celma::common::WriteBuffer') or not f.inits:
            continue
        if f.short not in ('ReadBuffer', 'WriteBuffer'):
            continue
        N = template_n(f)
        if N is None:
            continue
        for i in f.inits:
            if i.get('kind') != 'member' or i.get('name') != 'mpBuffer':
                continue
            n += 1
            news = [x for x in walk(i.get('init') or {}) if x.get('k') == 'CXXNewExpr']
            size = None
            if len(news) == 1 and news[0].get('array'):
                kids = children(news[0])
                if kids and isinstance(kids[0], dict):
                    size = strip_all_casts(kids[0]).get('cv', kids[0].get('cv'))
            chk.check(size is not None and size >= N, 'O7', f.name,
                      'the internal buffer is allocated with at least N = %d bytes' % N, f.loc(),
                      'allocated size is %s: the invariants of O1 let the members use all bytes 0 .. N-1' % size)
    chk.require(n >= 4, 'buffer constructor instantiations with an mpBuffer initialiser: %d' % n)
    for f in prog.functions:
        if (f.classq or '') not in ('celma::common::ReadBuffer', 'celma::common::WriteBuffer'):
            continue
        for x in f.walk():
            if x.get('k') == 'BinaryOperator' and x.get('op') == '=' and field_name(children(x)[0]) == 'mpBuffer':
                chk.check(False, 'O7', f.name, 'mpBuffer is never re-seated after construction', f.loc(x))
            if x.get('k') in CALL_KINDS and (x.get('callee') or '').split('(')[0].endswith('::reset') and \
                    field_name(object_of(x)) == 'mpBuffer':
                chk.check(False, 'O7', f.name, 'mpBuffer is never re-seated after construction', f.loc(x))


def run(chk):
    drv = os.path.join(VERIF, 'drivers', 'buffers.cpp')
    extra = ['-DVERIF_THOROUGH'] if chk.tier == 'thorough' else []
    prog = load_program([drv], extra_args=extra)
    chk.units = [drv, os.path.join('/repo/src/celma/common', 'read_buffer.hpp'),
                 os.path.join('/repo/src/celma/common', 'write_buffer.hpp')]
    chk.explanation = (
        'Linear-inequality abstract interpretation (own Fourier-Motzkin engine, no solver) of every member of every '
        'ReadBuffer<N,P>/WriteBuffer<N,P> instantiation of the driver: the class invariants mDataStart <= mDataEnd <= N '
        'and mWritePos <= N are assumed at entry and proved at every exit and around the refill loop (induction); every '
        'memcpy/memmove, buffer subscript and the hand-off to the virtual source/sink raises bounds obligations against '
        'the N-byte buffer and the caller\'s len bytes. Plus structural rules for flush-before-overwrite and the read '
        'window. Decides memory safety and the invariants for all request sizes and all source chunkings; the byte '
        'stream equality itself is not decided.')
    chk.assumptions = ['the virtual source readData( p, n) writes at most n bytes at p and returns the number written '
                       '(<= n); the sink writeData( p, n) reads n bytes',
                       'the caller passes at least len bytes at data (documented extent)',
                       'new unsigned char[ S] yields S bytes (S >= N is established by rule O7)']
    chk.trusted_base = ['clang 14 front end', '/verif/tools/celma-facts.cc', '/verif/cv/bounds.py + lin.py']
    chk.rule('O1', 'bounds obligations and class invariants (Engine C)', 20)
    chk.rule('O4', 'byte-stream fidelity: in-order, exactly-once delivery proved by content invariants', 60)
    chk.rule('O5', 'read requests are refused exactly when they are larger than the buffer', 8)
    chk.rule('O6', 'a sink that throws loses nothing: buffered bytes stay buffered (invariants at the exceptional exit)', 4)
    chk.rule('O7', 'the internal buffer has the N bytes the bounds analysis relies on', 4)
    o7_allocation(chk, prog)
    eng = make_engine(prog)
    targets = [f for f in prog.functions if (f.classq or '') in ('celma::common::ReadBuffer', 'celma::common::WriteBuffer')
               and f.short in ('get', 'append', 'flush', 'buffered')]     # fillBuffer is private: analysed inlined
    chk.require(len(targets) >= 12, 'only %d buffer member instantiations found' % len(targets))
    for f in targets:
        before = len(eng.obligations)
        finals = eng.analyse(f)
        tag = f.cls.replace('celma::common::', '')
        if f.short == 'get':
            # the caller receives exactly the next len bytes of the source, in order
            ln = Lin.sym('len')
            for s_ in finals:
                if s_.status not in ('normal', 'return'):
                    continue
                got = delivered(s_)
                held = entails(s_.cons, ge(got, ln)) and entails(s_.cons, le(got, ln))
                eng.obligations.append(Obligation(f.name, 'stream', 'exactly len bytes are delivered to the caller',
                                                  held, f.loc(), '' if held else 'delivered %r of %r; path [%s]' % (
                                                      got, ln, '; '.join(s_.trail[-6:]))))
                check_window(eng, s_, 'data', lin(0), ln, ghost(eng, s_, 'consumed'),
                             'the caller receives the next len bytes of the source, in order', 'at exit', None, f)
            # requests are refused exactly when they are larger than the buffer: a request of up to N bytes is
            # served (for every buffer state and chunking), a larger one ends in the exception
            N = template_n(f)
            for s_ in finals:
                if s_.status == 'throw':
                    held = N is not None and entails(s_.cons, ge(ln, N + 1))
                    eng.obligations.append(Obligation(
                        f.name, 'refuse', 'a read request is refused only if it is larger than the buffer', held,
                        f.loc(), '' if held else 'an exception is reachable with len <= %s; path [%s]' % (
                            N, '; '.join(s_.trail[-6:]))))
                elif s_.status in ('normal', 'return'):
                    held = N is not None and entails(s_.cons, le(ln, N))
                    eng.obligations.append(Obligation(
                        f.name, 'refuse', 'a read request larger than the buffer is refused', held, f.loc(),
                        '' if held else 'a normal return is reachable with len > %s; path [%s]' % (
                            N, '; '.join(s_.trail[-6:]))))
        if f.short in ('append', 'flush') and 'WriteBuffer' in (f.classq or ''):
            # a sink that throws consumes nothing: what was buffered is still buffered afterwards (it reaches the sink
            # with the next flush) - the class and content invariants hold at the exceptional exit as well
            for s_ in finals:
                if s_.status == 'throw' and s_.fields.get(('ghost', 'sink_refused')) is not None:
                    mark = len(eng.obligations)
                    # an append() that ends in the exception has not accepted its block
                    if ('ghost', 'append_len') in s_.fields:
                        s_.fields[('ghost', 'append_len')] = lin(0)
                    eng.check_invariants(s_, f, None, 'when the sink refuses the bytes (exception)')
                    for o in eng.obligations[mark:]:
                        o.kind = 'refused'
        for o in eng.obligations[before:]:
            rule = 'O4' if o.kind == 'stream' else 'O5' if o.kind == 'refuse' else 'O6' if o.kind == 'refused' else 'O1'
            chk.check(o.held, rule, f.name, '%s [%s]' % (o.what, tag), o.where, o.detail)
    if eng.unsupported:
        chk.notes.append('constructs evaluated as opaque: %s' % sorted(set(eng.unsupported))[:10])
    chk.level = 'proof' if not chk.failures else 'other'
    # the former structural rules R2/R3 (flush before overwrite, read-window discipline - AST shapes) are subsumed
    # by the content invariants of O4 and were retired: they demanded particular statement forms and fired on
    # behaviour-preserving rewrites (e.g. resetting mWritePos through a temporary before the sink call)
