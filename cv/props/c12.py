"""C12 — Dynamic bitset behaves like a growable reference bit vector.

O1 grow-before-access (Engine C): in every member of DynamicBitset every mData[e] is proved
   e < mData.size() from guards, resize and loop conditions
O2 iterators stay in range: every call of the throwing accessor test(p) made by the iterator
   classes is proved in range, begin()/rbegin()/++/-- never throw, and the position stays in
   [-1, size]
O3 shift arithmetic: no wrapped unsigned expression feeds a loop start value or bound; the binary
   operators &,|,^ are defined by delegation to their compound forms
R4 summarising observers agree with the reference bit vector (c12_bits.py)
R5 mutating operators: size and every bit of the result (bit-level content model, cv/bits.py)
R6 iteration order: linear-search proof of forward()/reverse()
Not decided: histories (sequences of operations) beyond the per-operation contracts; the per-operation contracts
compose because every operation is specified for an arbitrary receiver state."""
import os

from ..bounds import Engine, Ptr, Obj, Obligation, UNKNOWN, St
from ..lin import Lin, lin, ge, le, lt, gt, eq, entails
from ..facts import VERIF, load_program, units_matching, children, strip_all_casts, walk, CALL_KINDS
from ..rules import callee_is, call_args

POS_MAX = None        # no bound on positions: the full size_t range is analysed


def bitset_size(eng, st, obj):
    key = (obj + '.mData', 'size')
    v = st.fields.get(key)
    if v is None:
        v = eng.named('%s.mData.size()' % obj, st, 'unsigned long')
        st.assume(le(v, (1 << 63) - 1))
        st.fields[key] = v
        st.fields[(obj, 'mData')] = Obj(obj + '.mData', 'std::vector<bool>')
    return v


def invariants(eng, st, func, obj='this'):
    if 'DynamicBitsetIterator' in (func.cls or '') or 'DynamicBitsetReverseIterator' in (func.cls or ''):
        cur = st.fields.get((obj, 'mCurrPos'))
        bs = st.fields.get((obj, 'mpDynBitset'))
        if isinstance(cur, Lin) and isinstance(bs, Obj):
            size = bitset_size(eng, st, bs.name)
            return [('iterator position in [-1, size]', [ge(cur, -1), le(cur, size)], None)]
    return []


def loop_invariants(eng, st, func, loop):
    if func.short in ('forward', 'reverse') and 'IteratorBase' in (func.cls or ''):
        cur = st.fields.get(('this', 'mCurrPos'))
        bs = st.fields.get(('this', 'mpDynBitset'))
        if isinstance(cur, Lin) and isinstance(bs, Obj):
            size = bitset_size(eng, st, bs.name)
            if func.short == 'forward':
                return [('search position 0 <= pos < size while scanning forward', [ge(cur, 0), lt(cur, size)])]
            return [('search position 0 <= pos <= size while scanning backward', [ge(cur, 0), le(cur, size)])]
    return []


def make_engine(prog):
    cfg = {
        'invariants': invariants, 'loop_invariants': loop_invariants,
        'inline': ('celma::container::',), 'inline_depth': 6, 'check_loop_bound_wrap': True,
    }
    eng = Engine(prog, cfg)
    eng.param_max = POS_MAX
    return eng


def no_throw(chk, eng, f, finals, rule, what):
    threw = [s for s in finals if s.status == 'throw']
    chk.check(not threw, rule, f.name, what, f.loc(),
              '' if not threw else 'an exception is reachable on the path [%s]' % '; '.join(threw[0].trail[-8:]))


def run(chk):
    drv = os.path.join(VERIF, 'drivers', 'dynamic_bitset.cpp')
    units = units_matching('library/container/dynamic_bitset.cpp') + [drv]
    prog = load_program(units)
    chk.units = units
    chk.explanation = (
        'Linear-inequality abstract interpretation (Engine C) of every member of DynamicBitset and of its iterator '
        'classes: std::vector<bool> is modelled by its size; every mData[i] raises the obligation 0 <= i < size() under '
        'the path condition (guards, resize, loop conditions, monotone counters); unsigned subtraction is linear only '
        'if it provably does not wrap, wrapped values feeding loop variables are reported; the iterator position '
        'invariant -1 <= pos <= size and the search-loop invariants are proved inductively; begin()/rbegin()/++/-- '
        'must not reach a throw. All positions and shift distances of the full size_t range are covered (positions beyond vector::max_size() must end in std::length_error). The summarising '
        'observers (R4), every mutating operator bit by bit (R5, bit-level content model of std::vector<bool>) and the '
        'iteration order (R6, linear-search proof) are decided against the reference bit vector per operation for an '
        'arbitrary receiver state.')
    chk.assumptions = ['shift distances are < 2^62 (positions are NOT bounded)', 'std::vector<bool>::max_size() <= 2^63-1; resize( n) with n > max_size() throws std::length_error',
                       'std::vector<bool>::resize( n) yields size() == n; (x * 1.5) converted to size_t is >= x for x >= 0']
    chk.trusted_base = ['clang 14 front end', '/verif/tools/celma-facts.cc', '/verif/cv/bounds.py + lin.py']
    chk.rule('O1', 'every element access is inside the vector (grow before access / throw)', 30)
    chk.rule('O2', 'iterators never address a position outside [0, size) and never throw', 12)
    chk.rule('O3', 'shift/iteration arithmetic does not rely on wrapped unsigned values', 6)
    eng = make_engine(prog)
    members = [f for f in prog.functions if f.classq == 'celma::container::DynamicBitset' and not f.d.get('dtor')]
    chk.require(len(members) >= 40, 'only %d DynamicBitset members found' % len(members))
    iter_roots = ('begin', 'end', 'cbegin', 'cend', 'rbegin', 'rend', 'crbegin', 'crend')
    for f in sorted(members, key=lambda x: (x.line, x.key)):
        before = len(eng.obligations)
        # shift distances are programmer-supplied counts: assumed < 2^62 (size + distance cannot wrap);
        # positions (set/reset/flip/test/[]) may come from the command line: full size_t range
        eng.param_max = (1 << 62) if f.short in ('operator<<', 'operator>>', 'operator<<=', 'operator>>=') else None
        def ctor_setup(e, st, func):
            # a constructor that builds the bit vector as vector<bool>( n [, value]): the vector has n elements when
            # the body runs
            if not func.d.get('ctor'):
                return
            for ini in func.inits:
                init = ini.get('init')
                if ini.get('name') != 'mData' or not isinstance(init, dict):
                    continue
                i0 = strip_all_casts(init)
                a = [x for x in children(i0) if not x.get('defarg')] if i0.get('k') == 'CXXConstructExpr' else []
                if a and ('long' in (a[0].get('t') or '') or 'int' in (a[0].get('t') or '')):
                    for v, s1 in e.ev(a[0], st, func):
                        if isinstance(v, Lin):
                            n_ = bitset_size(e, st, 'this')
                            st.assume(ge(n_, v), le(n_, v))
                        break
        finals = eng.analyse(f, ctor_setup)
        sig = '%s(%s)%s' % (f.short, ', '.join(p['t'].replace('celma::container::', '') for p in f.params),
                            ' const' if f.d.get('const') else '')
        for o in eng.obligations[before:]:
            rule = 'O3' if o.kind == 'wrap' else ('O2' if f.short in iter_roots or o.kind == 'invariant' else 'O1')
            chk.check(o.held, rule, f.name, '%s [%s]' % (o.what, sig), o.where, o.detail)
        if f.short in iter_roots:
            no_throw(chk, eng, f, finals, 'O2', 'creating the iterator never throws (also for an empty or all-zero '
                     'bitset) [%s]' % sig)
    # iterator operators: analysed with a symbolic bitset and the position invariant assumed
    ops = [f for f in prog.functions if (f.classq or '').startswith('celma::container::detail::DynamicBitset')
           and f.short in ('operator++', 'operator--')]
    chk.require(len(ops) >= 8, 'only %d iterator operators instantiated' % len(ops))

    def setup(e, st, func):
        st.fields[('this', 'mpDynBitset')] = Obj('bs', 'DynamicBitset')
        size = bitset_size(e, st, 'bs')
        cur = e.named('this.mCurrPos', st, 'long')
        st.fields[('this', 'mCurrPos')] = cur
        st.ftypes[('this', 'mCurrPos')] = 'long'
        st.assume(ge(cur, -1), le(cur, size))
    for f in sorted(ops, key=lambda x: (x.cls, x.line, x.key)):
        before = len(eng.obligations)
        finals = eng.analyse(f, setup)
        tag = '%s %s(%s)' % (f.cls.replace('celma::container::detail::', '').replace('celma::container::', ''),
                             f.short, ', '.join(p['t'] for p in f.params))
        for o in eng.obligations[before:]:
            chk.check(o.held, 'O3' if o.kind == 'wrap' else 'O2', f.name, '%s [%s]' % (o.what, tag), o.where, o.detail)
        no_throw(chk, eng, f, finals, 'O2', 'stepping the iterator never throws [%s]' % tag)
    # shifts: the compound operator and its binary counterpart must produce the same size under every
    # jointly satisfiable path condition (sibling agreement on the abstract result)
    from ..lin import feasible, TooBig
    for comp, binop in (('operator<<=', 'operator<<'), ('operator>>=', 'operator>>')):
        fc = [f for f in members if f.short == comp]
        fb = [f for f in members if f.short == binop and f.d.get('const')]
        chk.require(fc and fb, 'shift operators %s / %s not found' % (comp, binop))

        def results(f, compound):
            eng.param_max = 1 << 62
            mark = len(eng.obligations)
            finals = eng.analyse(f)
            del eng.obligations[mark:]
            res = []
            for s in finals:
                if s.status not in ('normal', 'return'):
                    continue
                if compound:
                    size = bitset_size(eng, s, 'this')
                else:
                    rv = s.ret
                    size = None
                    if isinstance(rv, Obj):
                        size = s.fields.get((rv.name + '.mData', 'size'))
                        if size is None and rv.name.startswith('copy@'):
                            size = bitset_size(eng, s, 'this')     # an untouched copy of *this
                res.append((s, size))
            return res
        rc, rb = results(fc[0], True), results(fb[0], False)
        bad = None
        npairs = 0
        for s1, z1 in rc:
            for s2, z2 in rb:
                try:
                    joint = feasible(s1.cons + s2.cons)
                except TooBig:
                    joint = True
                if not joint:
                    continue
                npairs += 1
                if z1 is None or z2 is None:
                    bad = bad or ('result size not tracked', s1.trail[-4:], s2.trail[-4:])
                    continue
                cons = s1.cons + s2.cons
                if not (entails(cons, ge(z1, z2)) and entails(cons, le(z1, z2))):
                    bad = bad or ('%r vs %r' % (z1, z2), s1.trail[-4:], s2.trail[-4:])
        chk.check(bad is None and npairs > 0, 'O3', fc[0].name,
                  '%s and %s yield bitsets of the same size for every operand and distance' % (comp, binop),
                  fc[0].loc(), '' if bad is None else
                  'sizes differ (%s) on the compound path %s / binary path %s' % bad)
    # binary operators delegate to the compound forms
    for op, comp in (('operator&', 'operator&='), ('operator|', 'operator|='), ('operator^', 'operator^=')):
        fs = [f for f in prog.functions if f.name == 'celma::container::' + op and f.cls is None]
        chk.require(fs, 'free %s not found' % op)
        for f in fs:
            ok = any(callee_is(c, comp) for c in f.calls())
            chk.check(ok, 'O3', f.name, '%s is defined through %s (so both agree by construction)' % (op, comp), f.loc())
    chk.rule('R4', 'summarising observers (all/any/none/count/to_ulong/to_string) agree with a reference bit vector', 12)
    from . import c12_bits
    c12_bits.run(chk, prog)
    chk.rule('R5', 'mutating operators: size and every bit of the result agree with the reference bit vector', 20)
    c12_bits.mutators(chk, prog)
    c12_bits.from_std_bitset(chk, prog)
    chk.rule('R6', 'iteration visits exactly the set positions in order (linear-search proof of forward()/reverse())', 10)
    c12_bits.iteration_order(chk, prog)
    if eng.unsupported:
        chk.notes.append('constructs evaluated as opaque: %s' % sorted(set(eng.unsupported))[:10])
    if eng.notes:
        chk.notes.extend(eng.notes[:5])
