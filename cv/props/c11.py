"""C11 — Fixed-capacity string equals std::string cut off at the capacity.

Equality of contents with std::string over all texts is a behavioural statement; what is decided
here is the part of it that is visible in the code of every member, for every argument value of
the documented domain and every content at once (nothing is executed):

 R1 equality and inequality are complementary (truth table of the free operators over their atoms,
    structural negation for the iterator classes) and operator== means 'same length and same bytes'
 R4 every mutator, on every path: the new length is min( capacity, length of the std::string
    result) and the byte at EVERY position below the new length has the provenance the std::string
    operation prescribes (old text at the right offset, the right byte of the right source argument,
    the fill character) - decided by resolving a symbolic position through the ordered log of
    memmove/memcpy/memset/element writes of the path (Engine C) against a per-family specification
 R5 simple observers return what std::string returns: length/size/empty, at/front/back (element of
    the own buffer at the right index), substr (pointer/length pair), copy (bytes and result)
 R6 iteration: begin/rbegin start at the first/last character, ++ moves by exactly one position and
    reaches the end marker exactly after the last/first character, * yields the element at the index
 R3 const members perform no write into the buffer or the length

 R7 searching observers (find family, starts_with/ends_with/contains): linear-search proof of the scan
 R8 compare(): sign of memcmp over the common length, else sign of the length difference

Not decided: sprintf's formatted text, overloads taking iterators of std::string."""
import os
import re

from ..bounds import Engine, Ptr, Obj, Obligation, UNKNOWN, St, btype
from ..lin import Lin, lin, ge, le, lt, gt, eq, entails, feasible, TooBig
from ..facts import VERIF, load_program, children, walk, strip_casts, strip_all_casts, CALL_KINDS, AnalysisBroken
from ..boolshape import truth_table, Unsupported
from . import c10

NPOS = (1 << 64) - 1


def make_engine(prog):
    eng = c10.make_engine(prog)
    eng.cfg['track_content'] = True
    return eng


def sym(name):
    return Lin.sym(name)


def kind_of(p):
    t = p['t']
    base = btype(t.rstrip('&').strip())
    if base in ('unsigned long', 'unsigned long long'):
        return 'n'
    if base == 'char':
        return 'ch'
    if t.replace('const ', '').strip() == 'char *':
        return 'cstr'
    if base.startswith('std::basic_string<char') and not base.endswith('iterator'):
        return 'string'
    if re.match(r'celma::common::FixedString<\d+>$', base):
        return 'fs&&' if t.rstrip().endswith('&&') else 'fs'
    return '?'


def source(p):
    """(region, length symbol) of the text a source parameter stands for"""
    k = kind_of(p)
    n = p['name']
    if k == 'cstr':
        return n, sym('strlen(%s)' % n)
    if k == 'string':
        return n + '.data', sym('%s.length()' % n)
    if k in ('fs', 'fs&&'):
        return n + '.mString', sym('%s.mLength' % n)
    raise KeyError(k)


def sub_range(region, ln, pos, count):
    """variants of the piece  src.substr( pos, count)  (domain pos <= len): [(assumptions, piece)]"""
    return [([le(pos, ln), le(count, ln - pos)], ('src', region, pos, count)),
            ([le(pos, ln), ge(count, ln - pos)], ('src', region, pos, ln - pos))]


def specs(f):
    """std::string semantics of the mutator f as a list of variants (assumptions, pieces) in terms of the entry
    length n and the entry values of the parameters; None if f is not a specified mutator"""
    ks = tuple(kind_of(p) for p in f.params)
    nm = [p['name'] for p in f.params]
    v = [sym(x) for x in nm]
    n = sym('this.mLength')
    old = lambda a, b: ('old', a, b)            # noqa: E731   old[ a, a+b)
    short = f.short
    if f.d.get('ctor'):
        if ks in (('fs',), ('cstr',), ('string',), ('fs&&',)):
            r, ln = source(f.params[0])
            return [([], [('src', r, lin(0), ln)])]
        return None
    if short in ('assign', 'operator=') and ks in (('fs',), ('cstr',), ('string',)):
        r, ln = source(f.params[0])
        return [([], [('src', r, lin(0), ln)])]
    if short in ('append', 'operator+='):
        if ks in (('fs',), ('cstr',), ('string',)):
            r, ln = source(f.params[0])
            return [([], [old(lin(0), n), ('src', r, lin(0), ln)])]
        if ks == ('n', 'ch'):
            return [([], [old(lin(0), n), ('fill', v[1], v[0])])]
        if ks == ('ch',):
            return [([], [old(lin(0), n), ('fill', v[0], lin(1))])]
        if ks in (('fs', 'n', 'n'), ('string', 'n', 'n')):
            r, ln = source(f.params[0])
            return [(a, [old(lin(0), n), pc]) for a, pc in sub_range(r, ln, v[1], v[2])]
        if ks == ('cstr', 'n'):
            r, ln = source(f.params[0])
            return [([le(v[1], ln)], [old(lin(0), n), ('src', r, lin(0), v[1])])]
        return None
    if short == 'push_back' and ks == ('ch',):
        return [([], [old(lin(0), n), ('fill', v[0], lin(1))])]
    if short == 'pop_back' and ks == ():
        return [([ge(n, 1)], [old(lin(0), n - 1)])]
    if short == 'clear' and ks == ():
        return [([], [])]
    if short == 'erase' and ks == ('n', 'n'):
        i, c = v
        return [([le(i, n), le(c, n - i)], [old(lin(0), i), old(i + c, n - i - c)]),
                ([le(i, n), ge(c, n - i)], [old(lin(0), i)])]
    if short == 'insert':
        i = v[0] if v else None
        if ks == ('n', 'n', 'ch'):
            return [([le(i, n)], [old(lin(0), i), ('fill', v[2], v[1]), old(i, n - i)])]
        if ks in (('n', 'cstr'), ('n', 'string'), ('n', 'fs')):
            r, ln = source(f.params[1])
            return [([le(i, n)], [old(lin(0), i), ('src', r, lin(0), ln), old(i, n - i)])]
        if ks == ('n', 'cstr', 'n'):
            r, ln = source(f.params[1])
            return [([le(i, n), le(v[2], ln)], [old(lin(0), i), ('src', r, lin(0), v[2]), old(i, n - i)])]
        if ks in (('n', 'string', 'n', 'n'), ('n', 'fs', 'n', 'n')):
            r, ln = source(f.params[1])
            return [([le(i, n)] + a, [old(lin(0), i), pc, old(i, n - i)]) for a, pc in sub_range(r, ln, v[2], v[3])]
        return None
    if short == 'replace' and ks[:2] == ('n', 'n'):
        p, c = v[0], v[1]
        heads = [([le(p, n - 1), le(c, n - p)], c), ([le(p, n - 1), ge(c, n - p)], n - p)]
        mids = None
        if ks[2:] in (('fs',), ('string',), ('cstr',)):
            r, ln = source(f.params[2])
            mids = [([], ('src', r, lin(0), ln))]
        elif ks[2:] in (('fs', 'n', 'n'), ('string', 'n', 'n')):
            r, ln = source(f.params[2])
            mids = sub_range(r, ln, v[3], v[4])
        elif ks[2:] == ('cstr', 'n'):
            r, ln = source(f.params[2])
            mids = [([le(v[3], ln)], ('src', r, lin(0), v[3]))]
        elif ks[2:] == ('n', 'ch'):
            mids = [([], ('fill', v[3], v[2]))]
        if mids is None:
            return None
        return [(a1 + a2, [old(lin(0), p), pc, old(p + k, n - p - k)]) for a1, k in heads for a2, pc in mids]
    return None


def iter_specs(f, cases):
    """the overloads that take iterators of the string itself: specified through the index they stand for
    ('in': position <name>.mIndex inside the text, 'end': the end marker) - the same std::string result as the
    index overloads, an iterator at the end marker of a modifying position leaves the text unchanged (documented)"""
    names = [p['name'] for p in f.params]
    ks = []
    for p in f.params:
        base = btype(p['t'].rstrip('&').strip())
        ks.append('it' if c10.ITER.match(base) else kind_of(p))
    ks = tuple(ks)
    n = sym('this.mLength')
    old = lambda a, b: ('old', a, b)            # noqa: E731
    same_text = [([], [old(lin(0), n)])]

    def ix(name):
        return sym('%s.mIndex' % name)
    short = f.short
    if short == 'insert' and ks in (('it', 'ch'), ('it', 'n', 'ch')):
        if cases[names[0]] == 'end':
            return same_text
        i = ix(names[0])
        cnt = lin(1) if ks == ('it', 'ch') else sym(names[1])
        ch = sym(names[-1])
        return [([], [old(lin(0), i), ('fill', ch, cnt), old(i, n - i)])]
    if short == 'erase' and ks == ('it',):
        if cases[names[0]] == 'end':
            return same_text
        i = ix(names[0])
        return [([], [old(lin(0), i), old(i + 1, n - i - 1)])]
    if short == 'erase' and ks == ('it', 'it'):
        if cases[names[0]] == 'end':
            return same_text
        i = ix(names[0])
        if cases[names[1]] == 'end':
            return [([], [old(lin(0), i)])]
        j = ix(names[1])
        return [([], [old(lin(0), i), old(j, n - j)])]
    if short == 'replace' and ks[:2] == ('it', 'it') and ks[2:] in (('cstr', 'n'), ('cstr',), ('n', 'ch')):
        if cases[names[0]] == 'end' and ks[2:] == ('n', 'ch'):
            return same_text
        if cases[names[0]] == 'end':
            return None         # first == end with a C string: position length(), outside the documented domain
        i = ix(names[0])
        k = (n - i) if cases[names[1]] == 'end' else (ix(names[1]) - i)
        if ks[2:] == ('n', 'ch'):
            cnt, ch = sym(names[2]), sym(names[3])
            # count2 == 0 leaves the text unchanged as well
            return [([ge(cnt, 1), ge(k, 1)], [old(lin(0), i), ('fill', ch, cnt), old(i + k, n - i - k)]),
                    ([le(cnt, 0)], [old(lin(0), n)]), ([le(k, 0)], [old(lin(0), n)])]
        r, ln = source(f.params[2])
        if ks[2:] == ('cstr', 'n'):
            cnt = sym(names[3])
            return [([le(cnt, ln), ge(cnt, 1), ge(k, 1)], [old(lin(0), i), ('src', r, lin(0), cnt), old(i + k, n - i - k)]),
                    ([le(cnt, 0)], [old(lin(0), n)]), ([le(k, 0)], [old(lin(0), n)])]
        return [([ge(ln, 1), ge(k, 1)], [old(lin(0), i), ('src', r, lin(0), ln), old(i + k, n - i - k)]),
                ([le(ln, 0)], [old(lin(0), n)]), ([le(k, 0)], [old(lin(0), n)])]
    return None


def piece_len(pc):
    return pc[2] if pc[0] in ('old', 'fill') else pc[3]


def expected_at(pc, k):
    """descriptor of byte k of a piece"""
    if pc[0] == 'old':
        return ('init', 'this.mString', pc[1] + k)
    if pc[0] == 'src':
        return ('init', pc[1], pc[2] + k)
    return ('const', pc[1])


def same(eng, st, a, b):
    if a[0] != b[0]:
        return False
    if a[0] == 'const':
        return isinstance(a[1], Lin) and isinstance(b[1], Lin) and entails(st.cons, ge(a[1], b[1])) and \
            entails(st.cons, le(a[1], b[1]))
    if a[0] == 'init':
        return a[1] == b[1] and entails(st.cons, ge(a[2], b[2])) and entails(st.cons, le(a[2], b[2]))
    return False


def show(d):
    if d[0] == 'init':
        return '%s[ %r]' % ('old text' if d[1] == 'this.mString' else d[1], d[2])
    if d[0] == 'const':
        return 'the byte %r' % (d[1],)
    return d[0]


def check_result(chk, eng, s, f, tag, region, newlen, pieces, L, what='content'):
    """length == min( L, total) and provenance of every byte below the new length on the final state s"""
    total = lin(0)
    for pc in pieces:
        total = total + piece_len(pc)
    ok_len = True
    detail = ''
    for extra, want in (([le(total, L)], total), ([ge(total, L + 1)], lin(L))):
        s1 = s.copy()
        s1.assume(*extra)
        if not s1.ok():
            continue
        if not (entails(s1.cons, ge(newlen, want)) and entails(s1.cons, le(newlen, want))):
            ok_len = False
            detail = 'length %r, expected %r when the std::string result has %r characters; path [%s]' % (
                newlen, want, total, '; '.join(s.trail[-6:]))
    chk.check(ok_len, 'R4', f.name, 'new length is min( capacity, length of the std::string result) [%s]' % tag,
              f.loc(), detail)
    # provenance of a symbolic position
    i = eng.fresh('pos', s, 'unsigned long')
    s2 = s.copy()
    s2.assume(ge(i, 0), lt(i, newlen))
    bad = None
    undecided = 0
    ncases = 0
    if s2.ok():
        for act, sa in eng.content_at(s2, region, i):
            cum = lin(0)
            for pc in pieces:
                ln = piece_len(pc)
                sb = sa.copy()
                sb.assume(ge(i, cum), lt(i, cum + ln))
                if sb.ok():
                    ncases += 1
                    exp = expected_at(pc, i - cum)
                    if act[0] in ('unknown', 'opaque'):
                        undecided += 1
                    elif not same(eng, sb, act, exp):
                        bad = bad or 'position %r holds %s, std::string has %s there; path [%s]' % (
                            i, show(act), show(exp), '; '.join(sb.trail[-6:]))
                cum = cum + ln
            sb = sa.copy()
            sb.assume(ge(i, cum))
            if sb.ok():
                # a position below the new length but beyond the std::string result
                bad = bad or 'length exceeds the std::string result'
    chk.check(bad is None, 'R4', f.name, 'every character below the new length is the one std::string has there '
              '[%s]' % tag, f.loc(), bad or '')
    return ncases, undecided


def entry_domain(st, assumptions):
    st.assume(*assumptions)
    return st.ok()


def r4_mutators(chk, prog, eng, L):
    cls = 'celma::common::FixedString<%d>' % L
    members = [f for f in c10.members_to_analyse(prog, L)]
    n_spec = 0
    n_cases = 0
    und = 0
    unspecified = []
    for f in sorted(members, key=lambda x: (x.line, x.key)):
        if f.d.get('const'):
            continue
        if f.short in ('swap', 'sprintf', 'at', 'operator[]', 'front', 'back', 'data', 'begin', 'end', 'rbegin',
                       'rend', 'substr', 'copy'):
            continue
        iters = [p['name'] for p in f.params if c10.ITER.match(btype(p['t'].rstrip('&').strip()))]
        if iters:
            import itertools
            combos = []
            for combo in itertools.product(('in', 'end'), repeat=len(iters)):
                cases = dict(zip(iters, combo))
                if cases.get('first') == 'end' and cases.get('last') == 'in':
                    continue
                combos.append(cases)
            if not any(iter_specs(f, c_) for c_ in combos):
                unspecified.append(c10.sig(f))
                continue
            n_spec += 1
            variants = []
            for cases in combos:
                for vi, (assume, pieces) in enumerate(iter_specs(f, cases) or []):
                    extra = []
                    if cases.get('first') == 'in' and cases.get('last') == 'in':
                        extra = [le(sym('first.mIndex'), sym('last.mIndex'))]
                    variants.append((cases, assume + extra, pieces, '%s, case %d' % (
                        ', '.join('%s %s' % (k_, 'at end' if v_ == 'end' else 'inside') for k_, v_ in cases.items()),
                        vi + 1)))
        else:
            sp = specs(f)
            if sp is None:
                unspecified.append(c10.sig(f))
                continue
            n_spec += 1
            variants = [({}, assume, pieces, 'case %d' % (vi + 1)) for vi, (assume, pieces) in enumerate(sp)]
        for cases, assume, pieces, vtag in variants:
            eng.iter_cases = cases
            tag = '%s, L=%d, %s' % (c10.sig(f).replace(
                'detail::FixedStringIterator<const char, const FixedString<%d>>' % L, 'const_iterator'), L, vtag)
            mark = len(eng.obligations)
            try:
                if f.d.get('ctor'):
                    eng.root = f.name
                    st = St()
                    for p in f.params:
                        eng.bind_param(st, f, p)
                    c10.fs_fields(eng, st, 'this', L)
                    st.fields[('this', 'mLength')] = lin(0)
                    eng.add_nul(st, 'this.mString', lin(0))
                    if not entry_domain(st, assume):
                        continue
                    finals = eng.run_ctor(f, st, [st.vars.get(p['name'] or 'arg', UNKNOWN) for p in f.params])
                else:
                    dead = []

                    def setup(e, st, func, assume=assume, dead=dead):
                        if not entry_domain(st, assume):
                            dead.append(1)
                    finals = eng.analyse(f, setup)
                    if dead:
                        continue
            except RecursionError:
                chk.notes.append('recursion limit in %s' % f.key)
                continue
            finally:
                eng.iter_cases = {}
                del eng.obligations[mark:]        # bounds obligations belong to C10
            for s in finals:
                if s.status not in ('normal', 'return'):
                    continue
                newlen = s.fields.get(('this', 'mLength'))
                if not isinstance(newlen, Lin):
                    chk.check(False, 'R4', f.name, 'length is tracked at exit [%s]' % tag, f.loc(), repr(newlen))
                    continue
                a, b = check_result(chk, eng, s, f, tag, 'this.mString', newlen, pieces, L)
                n_cases += a
                und += b
    chk.require(n_spec >= (40 if L == 10 else 30), 'only %d mutators of FixedString<%d> matched a specification (unspecified: %s)' % (
        n_spec, L, unspecified))
    return n_spec, n_cases, und, unspecified


def r4_sprintf(chk, prog, eng, L):
    """sprintf(): the text is what vsnprintf produced, cut at the capacity: length == min( L, result) (0 for an
    error result) and byte i of the string is byte i of the formatter's output"""
    cls = 'celma::common::FixedString<%d>' % L
    fs = [f for f in prog.functions if f.cls == cls and f.short == 'sprintf']
    if not fs:
        return 0
    f = fs[0]
    mark = len(eng.obligations)
    finals = eng.analyse(f)
    del eng.obligations[mark:]
    tag = 'sprintf(const char *, ...), L=%d' % L
    for s in finals:
        if s.status not in ('normal', 'return'):
            continue
        vs = s.fields.get(('ghost', 'vsn'))
        newlen = s.fields.get(('this', 'mLength'))
        if not vs or not isinstance(newlen, Lin):
            chk.check(False, 'R4', f.name, 'the formatter result is tracked [%s]' % tag, f.loc(), repr(vs))
            continue
        r = vs[0]
        exact(chk, 'R4', f, tag, 'length is min( capacity, length of the formatted text), 0 on error', s, newlen,
              [([le(r, -1)], lin(0)), ([ge(r, 0), le(r, L)], r), ([ge(r, L + 1)], lin(L))])
        i = eng.fresh('pos', s, 'unsigned long')
        s2 = s.copy()
        s2.assume(ge(i, 0), lt(i, newlen))
        bad = None
        if s2.ok():
            for d, sa in eng.content_at(s2, 'this.mString', i):
                ok = d[0] == 'opaque' and d[1] == 'vsnprintf' and entails(sa.cons, ge(d[2], i)) and \
                    entails(sa.cons, le(d[2], i))
                if not ok:
                    bad = bad or 'character %r is %r, not byte %r of the formatted text' % (i, d, i)
        chk.check(bad is None, 'R4', f.name, 'every character is the corresponding byte of the formatted text [%s]' % tag,
                  f.loc(), bad or '')
    return 1


def r4_swap(chk, prog, eng, L):
    cls = 'celma::common::FixedString<%d>' % L
    fs = [f for f in prog.functions if f.cls == cls and f.short == 'swap']
    chk.require(len(fs) == 1, 'swap of FixedString<%d> not found' % L)
    f = fs[0]
    other = f.params[0]['name']
    mark = len(eng.obligations)
    finals = eng.analyse(f)
    del eng.obligations[mark:]
    n = sym('this.mLength')
    m = sym('%s.mLength' % other)
    for s in finals:
        if s.status not in ('normal', 'return'):
            continue
        tag = 'swap(FixedString<%d> &), L=%d' % (L, L)
        check_result(chk, eng, s, f, tag + ', this', 'this.mString', s.fields[('this', 'mLength')],
                     [('src', other + '.mString', lin(0), m)], L)
        check_result(chk, eng, s, f, tag + ', argument', other + '.mString', s.fields[(other, 'mLength')],
                     [('old', lin(0), n)], L)


# --------------------------------------------------------------------------- R1

def negated_equality(g):
    """the body is  return !( a == b);  with a call of an operator== on the two operands"""
    rets = [x for x in g.walk() if x.get('k') == 'ReturnStmt']
    if len(rets) != 1 or not children(rets[0]):
        return False
    x = strip_all_casts(children(rets[0])[0])
    while x.get('k') in ('ParenExpr', 'ExprWithCleanups'):
        x = strip_all_casts(children(x)[0])
    if not (x.get('k') == 'UnaryOperator' and x.get('op') == '!'):
        return False
    inner = strip_all_casts(children(x)[0])
    while inner.get('k') == 'ParenExpr':
        inner = strip_all_casts(children(inner)[0])
    return inner.get('k') in CALL_KINDS and (inner.get('callee') or '').endswith('operator==')


def r1_complementary(chk, prog):
    eqs = [f for f in prog.functions if f.cls is None and f.name == 'celma::common::operator==']
    nes = [f for f in prog.functions if f.cls is None and f.name == 'celma::common::operator!=']
    chk.require(len(eqs) >= 3 and len(nes) >= 3, 'free comparison operators not instantiated')
    for e in eqs:
        ne = [g for g in nes if [p['t'] for p in g.params] == [p['t'] for p in e.params]]
        chk.require(len(ne) == 1, 'no operator!= for %s' % [p['t'] for p in e.params])
        g = ne[0]
        try:
            atoms_e, rows_e = truth_table(e)
            atoms_n, rows_n = truth_table(g, prog=prog)
        except Unsupported as u:
            raise AnalysisBroken('comparison operators not interpretable: %s' % u)
        tag = 'FixedString<%s> x FixedString<%s>' % tuple(c10.capacity(btype(p['t'].rstrip('&').strip()))
                                                          for p in e.params)
        keys_e = [a for a, _ in atoms_e]
        keys_n = [a for a, _ in atoms_n]
        mem = [k for k in keys_e if k.startswith('memcmp(')]
        lhs, rhs = e.params[0]['name'], e.params[1]['name']
        want_mem = 'memcmp(%s.c_str(),%s.c_str(),%s.length())' % (lhs, rhs, lhs)
        alt_mem = 'memcmp(%s.c_str(),%s.c_str(),%s.length())' % (lhs, rhs, rhs)
        shape = set(keys_e) <= {lhs, rhs, want_mem, alt_mem} and len(mem) == 1
        # meaning of ==
        bad = None
        if shape:
            for env, out, _ in rows_e:
                expect = env[lhs] == env[rhs] and env[mem[0]] == 0
                if bool(out[1]) != expect:
                    bad = bad or (env, out[1])
        chk.check(shape and bad is None, 'R1', e.name, 'operator== is true exactly for equal lengths and equal bytes '
                  'over the whole length [%s]' % tag, e.loc(),
                  ('atoms %s' % keys_e) if not shape else 'counter example %s' % (bad,))
        # complementarity
        if negated_equality(g):
            chk.check(True, 'R1', g.name, 'operator!= is the negation of operator== [%s]' % tag, g.loc())
        elif set(keys_n) <= set(keys_e):
            table = {}
            for env, out, _ in rows_e:
                table[tuple(env.get(k) for k in keys_e)] = bool(out[1])
            bad = None
            for env, out, _ in rows_n:
                # every completion of the atoms the != body did not need
                for ke, ve in table.items():
                    if all(env.get(k) == kv for k, kv in zip(keys_e, ke) if k in keys_n):
                        if bool(out[1]) == ve:
                            bad = bad or (dict(zip(keys_e, ke)), ve, bool(out[1]))
            chk.check(bad is None, 'R1', g.name, 'operator!= is the negation of operator== for every combination of '
                      'lengths and byte comparison results [%s]' % tag, g.loc(),
                      '' if bad is None else 'for %s: == yields %s, != yields %s' % bad)
        else:
            chk.check(False, 'R1', g.name, 'operator!= is the negation of operator== [%s]' % tag, g.loc(),
                      'atoms %s are neither those of operator== nor a negated call of it' % keys_n)
    # iterator classes: != is written as the negation of ==
    its = [f for f in prog.functions if c10.ITER.match(f.cls or '') and f.short == 'operator!=']
    chk.require(len(its) >= 4, 'iterator operator!= not instantiated')
    for g in its:
        neg = negated_equality(g)
        if not neg:
            # fall back to the truth tables of both bodies
            e = [f for f in prog.functions if f.cls == g.cls and f.short == 'operator==']
            try:
                ae, re_ = truth_table(e[0])
                an, rn = truth_table(g)
                te = {tuple(sorted(env.items())): bool(out[1]) for env, out, _ in re_}
                neg = [a for a, _ in ae] == [a for a, _ in an] and all(
                    te.get(tuple(sorted(env.items()))) == (not bool(out[1])) for env, out, _ in rn)
            except (Unsupported, IndexError):
                neg = False
        chk.check(neg, 'R1', g.name, 'iterator operator!= is the negation of operator== [%s]' % g.cls.split('::')[-1],
                  g.loc())


# --------------------------------------------------------------------------- R7 / R8

def scan_spec(f):
    """std::string semantics of a searching observer as a c11_scan.Spec (None: not specified)"""
    from .c11_scan import Spec
    ks = tuple(kind_of(p) for p in f.params)
    v = [sym(p['name']) for p in f.params]
    n = sym('this.mLength')
    short = f.short

    def needle(i):
        r, m = source(f.params[i])
        return r, m

    if short in ('find', 'rfind') and ks and ks[0] in ('fs', 'string', 'cstr'):
        r, m = needle(0)
        dom = [ge(m, 1)]
        pos = v[1] if len(v) > 1 else None
        if ks == ('cstr', 'n', 'n'):
            dom = [ge(v[2], 1), le(v[2], m)]
            m = v[2]
        elif ks not in (('fs', 'n'), ('string', 'n'), ('cstr', 'n')):
            return None
        if short == 'find':
            return Spec('first', lambda j: [ge(j, pos), le(j + m, n), ge(j, 0)], ('substr', r, m), 'index', dom)
        return Spec('last', lambda j: [le(j, pos), le(j + m, n), ge(j, 0)], ('substr', r, m), 'index', dom)
    if short in ('find', 'find_first_of') and ks == ('ch', 'n'):
        return Spec('first', lambda j: [ge(j, v[1]), lt(j, n), ge(j, 0)], ('char_eq', v[0]), 'index', [])
    if short in ('rfind', 'find_last_of') and ks == ('ch', 'n'):
        return Spec('last', lambda j: [le(j, v[1]), lt(j, n), ge(j, 0)], ('char_eq', v[0]), 'index', [])
    if short == 'find_first_not_of' and ks == ('ch', 'n'):
        return Spec('first', lambda j: [ge(j, v[1]), lt(j, n), ge(j, 0)], ('char_ne', v[0]), 'index', [])
    if short == 'find_last_not_of' and ks == ('ch', 'n'):
        return Spec('last', lambda j: [le(j, v[1]), lt(j, n), ge(j, 0)], ('char_ne', v[0]), 'index', [])
    if short in ('find_first_of', 'find_first_not_of', 'find_last_of', 'find_last_not_of') and \
            ks in (('fs', 'n'), ('string', 'n'), ('cstr', 'n')):
        r, m = needle(0)
        test = ('in_set', r) if short.endswith('_of') and 'not' not in short else ('not_in_set', r)
        if 'first' in short:
            return Spec('first', lambda j: [ge(j, v[1]), lt(j, n), ge(j, 0)], test, 'index', [ge(m, 1)])
        return Spec('last', lambda j: [le(j, v[1]), lt(j, n), ge(j, 0)], test, 'index', [ge(m, 1)])
    if short in ('find_first_of', 'find_first_not_of', 'find_last_of', 'find_last_not_of') and ks == ('cstr', 'n', 'n'):
        # the set is the first `count` characters of str (it may contain NUL characters)
        r, m = needle(0)
        test = ('in_set_n', r, v[2]) if 'not' not in short else ('not_in_set_n', r, v[2])
        if 'first' in short:
            return Spec('first', lambda j: [ge(j, v[1]), lt(j, n), ge(j, 0)], test, 'index', [ge(v[2], 1)])
        return Spec('last', lambda j: [le(j, v[1]), lt(j, n), ge(j, 0)], test, 'index', [ge(v[2], 1)])
    if short == 'contains':
        if ks in (('fs',), ('string',), ('cstr',)):
            r, m = needle(0)
            return Spec('first', lambda j: [ge(j, 0), le(j + m, n)], ('substr', r, m), 'bool', [ge(m, 1)])
        if ks == ('ch',):
            return Spec('first', lambda j: [ge(j, 0), lt(j, n)], ('char_eq', v[0]), 'bool', [])
    if short in ('starts_with', 'ends_with'):
        if ks in (('fs',), ('string',), ('cstr',)):
            r, m = needle(0)
            t0 = lin(0) if short == 'starts_with' else n - m
            return Spec('at', lambda j: [le(m, n), ge(j, 0)], ('substr', r, m), 'bool', [ge(m, 1)], at=t0)
        if ks == ('ch',):
            t0 = lin(0) if short == 'starts_with' else n - 1
            return Spec('at', lambda j: [ge(n, 1), ge(j, 0)], ('char_eq', v[0]), 'bool', [], at=t0)
    return None


def compare_spec(f):
    """( a_off, a_len variants ...) of compare(): list of (domain, a_off, a_len, b_region, b_off, b_len)"""
    ks = tuple(kind_of(p) for p in f.params)
    v = [sym(p['name']) for p in f.params]
    n = sym('this.mLength')
    if f.short != 'compare':
        return None

    def sub(total, pos, count):
        """substr( pos, count) of a text of length total, domain pos < total: [(assumptions, length)]"""
        return [([lt(pos, total), le(count, total - pos)], count), ([lt(pos, total), ge(count, total - pos)], total - pos)]
    if ks in (('fs',), ('string',), ('cstr',)):
        r, m = source(f.params[0])
        return [([], lin(0), n, r, lin(0), m)]
    if ks in (('n', 'n', 'fs'), ('n', 'n', 'string'), ('n', 'n', 'cstr')):
        r, m = source(f.params[2])
        return [(a, v[0], la, r, lin(0), m) for a, la in sub(n, v[0], v[1])]
    if ks in (('n', 'n', 'fs', 'n', 'n'), ('n', 'n', 'string', 'n', 'n')):
        r, m = source(f.params[2])
        return [(a1 + a2, v[0], la, r, v[3], lb) for a1, la in sub(n, v[0], v[1]) for a2, lb in sub(m, v[3], v[4])]
    if ks == ('n', 'n', 'cstr', 'n'):
        r, m = source(f.params[2])
        return [(a1 + a2 + [ge(m, 1)], v[0], la, r, lin(0), lb) for a1, la in sub(n, v[0], v[1])
                for a2, lb in sub(m, lin(0), v[3])]
    return None


def r7_observers(chk, prog, L):
    from .c11_scan import Scan, check_compare
    eng = make_engine(prog)
    eng.cfg['track_reads'] = True
    eng.cfg['track_content'] = False
    members = [f for f in c10.members_to_analyse(prog, L) if f.d.get('const')]
    n_scan = n_cmp = 0
    unspecified = []
    for f in sorted(members, key=lambda x: (x.line, x.key)):
        tag = '%s, L=%d' % (c10.sig(f), L)
        sp = scan_spec(f)
        if sp is not None:
            # searching backwards: the documented start position is a position of the text or 'not set' (npos)
            doms = [sp.domain]
            if sp.order == 'last':
                pos = sym(f.params[1]['name'])
                doms = [sp.domain + [ge(pos, NPOS)], sp.domain + [le(pos, sym('this.mLength') - 1)]]
            loops = 0
            for di, dom in enumerate(doms):
                sp.domain = dom
                sc = Scan(chk, eng, f, sp, tag + (', start %s' % ('not set', 'inside the text')[di]
                                                  if len(doms) > 1 else ''))
                sc.run()
                loops += sc.n_loops
            chk.check(sp.order == 'at' or loops >= 1, 'R7', f.name, 'the search is a scan over candidate '
                      'positions [%s]' % tag, f.loc(), 'no scan loop found')
            n_scan += 1
            continue
        cs = compare_spec(f)
        if cs is not None:
            for i, (dom, a_off, a_len, b_region, b_off, b_len) in enumerate(cs):
                check_compare(chk, eng, f, '%s, case %d' % (tag, i + 1), a_off, a_len, b_region, b_off, b_len, dom)
            n_cmp += 1
            continue
        if f.short in ('find', 'rfind', 'find_first_of', 'find_first_not_of', 'find_last_of', 'find_last_not_of',
                       'contains', 'starts_with', 'ends_with', 'compare'):
            unspecified.append(c10.sig(f))
    chk.require(n_scan >= (30 if L == 10 else 25) and n_cmp >= (8 if L == 10 else 6), 'only %d searching and %d comparing observers matched a specification' % (
        n_scan, n_cmp))
    return n_scan, n_cmp, unspecified


# --------------------------------------------------------------------------- R5 / R6

def exact(chk, rule, f, tag, what, s, v, cases):
    """v has exactly the value the case table prescribes: cases = [(assumptions, expected Lin)]"""
    ok = isinstance(v, Lin)
    detail = '' if ok else 'value %r' % (v,)
    hit = 0
    if ok:
        for assume, want in cases:
            s1 = s.copy()
            s1.assume(*assume)
            if not s1.ok():
                continue
            hit += 1
            if not (entails(s1.cons, ge(v, want)) and entails(s1.cons, le(v, want))):
                ok = False
                detail = 'value %r, expected %r on the path [%s]' % (v, want, '; '.join(s1.trail[-6:]))
    chk.check(ok, rule, f.name, '%s [%s]' % (what, tag), f.loc(), detail)
    return hit


def is_elem(s, v, region, off):
    return isinstance(v, tuple) and v and v[0] == 'lvptr' and v[1].region == region and \
        entails(s.cons, ge(v[1].off, off)) and entails(s.cons, le(v[1].off, off))


def r5_simple(chk, prog, eng, L):
    cls = 'celma::common::FixedString<%d>' % L
    n = sym('this.mLength')
    text = 'this.mString'
    count = 0
    for f in sorted([g for g in prog.functions if g.cls == cls], key=lambda x: (x.line, x.key)):
        short = f.short
        ks = tuple(kind_of(p) for p in f.params)
        v = [sym(p['name']) for p in f.params]
        tag = '%s, L=%d' % (c10.sig(f), L)
        dom = []
        if short in ('at', 'operator[]') and ks == ('n',):
            dom = [lt(v[0], n)]
        elif short in ('front', 'back') and ks == ():
            dom = [ge(n, 1)]
        elif short == 'substr' and ks == ('n', 'n'):
            dom = [le(v[0], n)]
        elif short == 'copy' and len(ks) == 3:
            dom = [le(v[2], n)]
        elif short not in ('length', 'size', 'empty', 'c_str', 'data', 'str') or ks != ():
            continue
        count += 1
        mark = len(eng.obligations)

        def setup(e, st, func, dom=dom):
            st.assume(*dom)
        finals = eng.analyse(f, setup)
        del eng.obligations[mark:]
        for s in finals:
            if s.status == 'throw':
                chk.check(False, 'R5', f.name, 'no exception for arguments inside the domain [%s]' % tag, f.loc(),
                          'throws on the path [%s]' % '; '.join(s.trail[-5:]))
                continue
            if s.status not in ('return', 'normal'):
                continue
            r = s.ret
            if short in ('length', 'size'):
                exact(chk, 'R5', f, tag, 'returns the number of characters', s, r, [([], n)])
            elif short == 'empty':
                exact(chk, 'R5', f, tag, 'true exactly for the empty text', s, r, [([le(n, 0)], lin(1)),
                                                                                    ([ge(n, 1)], lin(0))])
            elif short in ('c_str', 'data'):
                ok = isinstance(r, Ptr) and r.region == text and entails(s.cons, ge(r.off, 0)) and \
                    entails(s.cons, le(r.off, 0))
                chk.check(ok, 'R5', f.name, 'returns the start of the own buffer [%s]' % tag, f.loc(), repr(r))
            elif short in ('at', 'operator[]'):
                chk.check(is_elem(s, r, text, v[0]), 'R5', f.name, 'returns the character at the index [%s]' % tag,
                          f.loc(), repr(r))
            elif short == 'front':
                chk.check(is_elem(s, r, text, lin(0)), 'R5', f.name, 'returns the first character [%s]' % tag, f.loc(),
                          repr(r))
            elif short == 'back':
                chk.check(is_elem(s, r, text, n - 1), 'R5', f.name, 'returns the last character [%s]' % tag, f.loc(),
                          repr(r))
            elif short in ('str', 'substr'):
                pos, cnt = (lin(0), n) if short == 'str' else (v[0], v[1])
                if not isinstance(r, Obj):
                    chk.check(False, 'R5', f.name, 'returns a string [%s]' % tag, f.loc(), repr(r))
                    continue
                ln = s.fields.get((r.name, 'length'))
                exact(chk, 'R5', f, tag, 'length of the returned string is min( count, length - pos)', s, ln,
                      [([le(cnt, n - pos)], cnt), ([ge(cnt, n - pos)], n - pos)])
                s1 = s.copy()
                if isinstance(ln, Lin):
                    s1.assume(ge(ln, 1))
                    if s1.ok():
                        src = s.fields.get((r.name, 'source'))
                        ok = isinstance(src, Ptr) and src.region == text and entails(s1.cons, ge(src.off, pos)) and \
                            entails(s1.cons, le(src.off, pos))
                        chk.check(ok, 'R5', f.name, 'the returned string is taken from the own text at pos [%s]' % tag,
                                  f.loc(), repr(src))
            elif short == 'copy':
                cnt, pos = v[1], v[2]
                hit = exact(chk, 'R5', f, tag, 'returns min( count, length - pos)', s, r,
                            [([le(cnt, n - pos)], cnt), ([ge(cnt, n - pos)], n - pos)])
                if isinstance(r, Lin):
                    i = eng.fresh('pos', s, 'unsigned long')
                    s2 = s.copy()
                    s2.assume(ge(i, 0), lt(i, r))
                    bad = None
                    if s2.ok():
                        for act, sa in eng.content_at(s2, f.params[0]['name'], i):
                            if act[0] in ('unknown', 'opaque'):
                                continue
                            if not same(eng, sa, act, ('init', text, pos + i)):
                                bad = 'dest[ %r] holds %s' % (i, show(act))
                    chk.check(bad is None, 'R5', f.name, 'the copied characters are text[ pos + i] [%s]' % tag, f.loc(),
                              bad or '')
                    # ... and nothing else is written: std::string::copy() appends no NUL, the caller's bytes from
                    # the returned count on keep their content
                    j = eng.fresh('behind', s, 'unsigned long')
                    s3 = s.copy()
                    s3.assume(ge(j, r), lt(j, cnt))
                    bad = None
                    dest = f.params[0]['name']
                    if s3.ok():
                        for act, sa in eng.content_at(s3, dest, j):
                            if not same(eng, sa, act, ('init', dest, j)):
                                bad = 'dest[ %r] (behind the %r copied characters) is overwritten with %s' % (
                                    j, r, show(act))
                    chk.check(bad is None, 'R5', f.name, 'copy() writes the copied characters only, the rest of the '
                              'destination keeps its content [%s]' % tag, f.loc(), bad or '')
    chk.require(count >= 14, 'only %d simple observers of FixedString<%d> found' % (count, L))
    return count


def r6_iteration(chk, prog, eng, L):
    """begin/end/rbegin/rend and the stepping of the iterator classes: exact positions"""
    cls = 'celma::common::FixedString<%d>' % L
    n = sym('this.mLength')
    END = c10.END
    count = 0
    for f in sorted([g for g in prog.functions if g.cls == cls and g.short in (
            'begin', 'cbegin', 'end', 'cend', 'rbegin', 'crbegin', 'rend', 'crend') and not g.params],
            key=lambda x: (x.line, x.key)):
        tag = '%s, L=%d' % (c10.sig(f), L)
        mark = len(eng.obligations)
        finals = eng.analyse(f)
        del eng.obligations[mark:]
        count += 1
        for s in finals:
            if s.status not in ('return', 'normal'):
                continue
            r = s.ret
            if not isinstance(r, Obj):
                chk.check(False, 'R6', f.name, 'returns an iterator object [%s]' % tag, f.loc(), repr(r))
                continue
            po = s.fields.get((r.name, 'mpObject'))
            chk.check(isinstance(po, Obj) and po.name == 'this', 'R6', f.name, 'the iterator refers to this string '
                      '[%s]' % tag, f.loc(), repr(po))
            ix = s.fields.get((r.name, 'mIndex'))
            if f.short in ('begin', 'cbegin'):
                cases = [([ge(n, 1)], lin(0)), ([le(n, 0)], lin(END))]
                what = 'starts at the first character (end marker for an empty text)'
            elif f.short in ('rbegin', 'crbegin'):
                cases = [([ge(n, 1)], n - 1), ([le(n, 0)], lin(END))]
                what = 'starts at the last character (end marker for an empty text)'
            else:
                cases = [([], lin(END))]
                what = 'is the end marker'
            exact(chk, 'R6', f, tag, what, s, ix, cases)
    its = [f for f in prog.functions if c10.ITER.match(f.cls or '') and
           f.short in ('operator++', 'operator--', 'operator*') and not f.d.get('defaulted')]
    chk.require(count >= 12 and len(its) >= 20, 'iteration members missing (%d, %d)' % (count, len(its)))
    for f in sorted(its, key=lambda x: (x.cls, x.line, x.key)):
        m = c10.ITER.match(f.cls)
        rev = bool(m.group(1))
        tag = 'FixedString%sIterator<%schar>::%s(%s)' % (m.group(1) or '', m.group(2) or '', f.short,
                                                        ', '.join(p['t'] for p in f.params))
        fsn = 'fs@this'

        def setup(e, st, func):
            st.fields[('this', 'mpObject')] = Obj(fsn, 'celma::common::FixedString<%d>' % L)
            ln, region = c10.fs_fields(e, st, fsn, L)
            st.assume(ge(ln, 0), le(ln, L))
            e.add_nul(st, region, ln)
            ix = e.named('this.mIndex', st, 'unsigned long')
            st.assume(lt(ix, ln))
            st.fields[('this', 'mIndex')] = ix
            st.ftypes[('this', 'mIndex')] = 'unsigned long'
        mark = len(eng.obligations)
        finals = eng.analyse(f, setup)
        del eng.obligations[mark:]
        i = sym('this.mIndex')
        ln = sym('%s.mLength' % fsn)
        for s in finals:
            if s.status == 'throw':
                chk.check(False, 'R6', f.name, 'no exception for an iterator inside the text [%s]' % tag, f.loc(),
                          '; '.join(s.trail[-4:]))
                continue
            if s.status not in ('return', 'normal'):
                continue
            if f.short == 'operator*':
                chk.check(is_elem(s, s.ret, fsn + '.mString', i), 'R6', f.name, 'yields the character at the '
                          'iterator position [%s]' % tag, f.loc(), repr(s.ret))
                continue
            towards_end = (f.short == 'operator++') != rev       # index grows
            new = s.fields.get(('this', 'mIndex'))
            if towards_end:
                cases = [([le(i + 1, ln - 1)], i + 1), ([ge(i + 1, ln)], lin(END))]
                what = 'moves to the next higher index, to the end marker after the last character'
            else:
                cases = [([ge(i, 1)], i - 1), ([le(i, 0)], lin(END))]
                what = 'moves to the next lower index, to the end marker after the first character'
            exact(chk, 'R6', f, tag, what, s, new, cases)
            if f.params:      # postfix: the returned copy keeps the old position
                r = s.ret
                old = s.fields.get((r.name, 'mIndex')) if isinstance(r, Obj) else None
                exact(chk, 'R6', f, tag, 'the postfix form returns the old position', s, old, [([], i)])
    return count + len(its)


def r9_iterator_distance(chk, prog):
    """operator -( it1, it2) of the four iterator classes is the distance in iteration order, as for std::string
    iterators: with position( it) = index (forward) / length - 1 - index (reverse) and position( end) = length, the
    result is position( lhs) - position( rhs) whenever that is not negative.  The friend operators are evaluated
    (Engine B) for every pair of positions of every text length 0 .. 4."""
    from ..boolshape import Interp, NeedAtom, Unsupported, Throw, Return
    fs = [f for f in prog.functions if f.short == 'operator-' and len(f.params) == 2 and f.body is not None and
          all(c10.ITER.search((p.get('t') or '').replace('const ', '').replace(' &', '')) or
              'FixedString' in (p.get('t') or '') and 'Iterator' in (p.get('t') or '') for p in f.params)]
    chk.require(len(fs) >= 4, 'iterator difference operators found: %d' % len(fs))
    END = c10.END
    n_ok = 0
    for f in sorted(fs, key=lambda x: (x.file, x.line, x.key)):
        rev = 'ReverseIterator' in f.params[0]['t']
        a, b = f.params[0]['name'], f.params[1]['name']
        bad = None
        for n in range(0, 5):
            idx = list(range(n)) + [END]
            for li in idx:
                for ri in idx:
                    def pos(i):
                        return n if i == END else (n - 1 - i if rev else i)
                    want = pos(li) - pos(ri)
                    if want < 0:
                        continue
                    env = {a + '.mIndex': li, b + '.mIndex': ri, a + '.mpObject': 7, b + '.mpObject': 7}
                    cbs = {'length': lambda i_, c, n=n: n, 'size': lambda i_, c, n=n: n}
                    it = Interp(f, env, callbacks=cbs, prog=None)
                    try:
                        out = it.run(f.body)
                    except Throw:
                        out = ('throw', None)
                    except (NeedAtom, Unsupported) as e:
                        raise AnalysisBroken('%s is not interpretable: %s' % (f.key, getattr(e, 'key', e)))
                    got = out[1] if out and out[0] == 'return' else out
                    if isinstance(got, int):
                        got &= (1 << 64) - 1
                    if got != want and bad is None:
                        bad = 'length %d, lhs at %s, rhs at %s: result %s, std::string gives %d' % (
                            n, 'end' if li == END else li, 'end' if ri == END else ri, got, want)
        n_ok += 1
        chk.check(bad is None, 'R9', f.name, 'iterator difference is the distance in iteration order [%s]' % (
            'reverse' if rev else 'forward'), f.loc(), bad or '')
    return n_ok


def run(chk):
    drv = os.path.join(VERIF, 'drivers', 'fixed_string.cpp')
    extra = ['-DVERIF_THOROUGH'] if chk.tier == 'thorough' else []
    prog = load_program([drv], extra_args=extra)
    chk.units = [drv, '/repo/src/celma/common/fixed_string.hpp']
    grid = [10] if chk.tier == 'quick' else [1, 2, 10, 255, 256, 65535, 65536]
    chk.explanation = (
        'Static decision of the structural part of "equals std::string cut off at the capacity" for the capacity grid '
        '%s: (R4) every mutator of FixedString<L> is executed symbolically on every path (Engine C: linear '
        'constraints, exact Fourier-Motzkin, exact modular unsigned arithmetic) with an ordered log of its '
        'memmove/memcpy/memset/element writes; for the arguments of the documented domain the new length is proved '
        'to be min( L, length of the std::string result) and a symbolic position below the new length is resolved '
        'backwards through the log and proved to hold the byte std::string has there (old text at the right offset, '
        'the right byte of the right source, the fill character), for every content and every argument value at '
        'once; (R1) truth table of operator==/!=; (R5/R6) simple observers and iteration; (R7) the find family, '
        'starts_with/ends_with/contains by a linear-search proof of their scan loops (first/last matching candidate, '
        'else npos/false); (R8) compare(): sign of memcmp over the common length, else sign of the length difference. '
        "sprintf's formatted text is not decided."
        % grid)
    chk.assumptions = ['documented domain: insert index <= length, erase index <= length, replace pos < length, '
                       'sub-range positions <= source length, ( const char*, count): count <= strlen',
                       'searching: needles and character sets are not empty; a backward search starts at a position of '
                       'the text or at npos ("not set"); compare(): positions address a character',
                       'source arguments do not alias the destination buffer',
                       'memcpy/memmove/memset/std::string( n, ch)/substr have their standard meaning']
    chk.trusted_base = ['clang 14 front end', '/verif/tools/celma-facts.cc', '/verif/cv/bounds.py + lin.py',
                        '/verif/cv/boolshape.py', 'the specification table in cv/props/c11.py (std::string semantics)']
    chk.rule('R1', 'equality and inequality are complementary; == means same length and same bytes', 10)
    chk.rule('R4', 'mutators: new length and the provenance of every byte agree with std::string cut at the capacity',
             200)
    r1_complementary(chk, prog)
    eng = make_engine(prog)
    for L in grid:
        n_spec, n_cases, und, unspecified = r4_mutators(chk, prog, eng, L)
        r4_swap(chk, prog, eng, L)
        r4_sprintf(chk, prog, eng, L)
        chk.samples.append({'capacity': L, 'mutators_specified': n_spec, 'position_cases': n_cases,
                            'undecided_position_cases': und, 'unspecified': unspecified})
        if und:
            # every position case of every specified mutator is decided on the reference tree: a case that can no
            # longer be resolved is not a pass
            raise AnalysisBroken('%d position case(s) of the specified mutators can not be resolved any more (L=%d)'
                                 % (und, L))
    chk.rule('R5', 'simple observers return what std::string returns (length, element access, substr, copy)', 24)
    chk.rule('R6', 'iteration: begin/rbegin positions, exact stepping, dereference at the position', 60)
    for L in grid[:1] if chk.tier == 'quick' else grid:
        r5_simple(chk, prog, eng, L)
    r6_iteration(chk, prog, eng, 10)
    chk.rule('R7', 'searching observers: first/last matching candidate position, else npos/false (linear-search proof)',
             150)
    chk.rule('R8', 'compare(): sign of memcmp over the common length, else sign of the length difference', 30)
    for L in grid[:1] if chk.tier == 'quick' else grid:
        n_scan, n_cmp, unspec = r7_observers(chk, prog, L)
        chk.samples.append({'capacity': L, 'searching_observers_specified': n_scan, 'compare_overloads': n_cmp,
                            'observers_without_specification': unspec})
    chk.rule('R9', 'iterator difference is the distance in iteration order', 4)
    r9_iterator_distance(chk, prog)
    if eng.unsupported:
        chk.notes.append('constructs evaluated as opaque: %s' % sorted(set(eng.unsupported))[:12])
    chk.level = 'other'
