"""C20 — Concurrency helpers keep their contract under every schedule.

Decided (structural, necessary conditions; no schedule is executed):
 R1a every access to the singleton's shared pointer object in
     Singleton<T>::instance/reset is synchronised (lock on the static mutex
     held, atomic, call_once, or language-level thread-safe static init)
 R1b the object is constructed at exactly one site that is reached only
     after a null test evaluated under the same lock (or call_once / magic static)
 R2a ManagedThread: the sub-object that starts the thread is initialised after
     the flag its thread function captures
 R2b the flag is a std::atomic
 R2c the thread function sets the flag before and clears it after the user
     function on every normal path
 R2d isActive() reads the flag through the atomic interface
"""
import os

from .. import effects
from ..facts import REPO, VERIF, load_program, library_units, walk, children, strip_casts, CALL_KINDS


def sync_status(prog, f, node, locks, once_lambdas):
    """why an access is synchronised, or None"""
    cfg = f.cfg
    pos = cfg.position(node)
    if f.key in once_lambdas:
        return 'inside std::call_once callable'
    if pos is not None:
        held = locks.held_at(pos)
        if held:
            return 'lock on %s held' % held[0].get('q')
        # dominated by a call to std::call_once
        for c in f.calls_to('std::call_once', 'call_once'):
            cp = cfg.position(c)
            if cp is not None and cp != pos and cfg.dominates(cp, pos):
                return 'after std::call_once'
    return None


def check_singleton(chk, prog):
    # R1c: the static members of the singleton (pointer, mutex) are CONSTANT-initialised.  With dynamic
    # initialisation (a constructor that is not constexpr, e.g. unique_ptr( pointer, deleter)) the initialiser runs at
    # some point during program start-up - an instance created before that (from the constructor of another
    # namespace-scope object, or by a thread it started) is overwritten with the initial value: the object is
    # constructed a second time and early callers hold another object than late ones
    n_static = 0
    for (q, f_, l_), v in sorted(prog.vars.items()):
        if not q.startswith('celma::common::Singleton<') or v.get('kind') != 'static_member' or not v.get('isdef'):
            continue
        n_static += 1
        chk.check(bool(v.get('constinit')), 'R1c', q, 'the static member %s of the singleton is constant-initialised'
                  % v.get('name'), '%s:%s' % (os.path.relpath(v.get('file', ''), REPO) if v.get('file', '').startswith(REPO) else v.get('file', ''), v.get('line')),
                  'type %s is initialised dynamically: an instance created earlier during start-up is overwritten'
                  % v.get('t'))
    chk.require(n_static >= 2, 'static members of Singleton<> instantiations: %d' % n_static)
    # R1d: the accessor keeps no state besides the instance pointer: a flag that is set before the constructor runs
    # and cleared after it stays set when the constructor throws - every later access fails and the object is never
    # constructed ("constructs it exactly once" also after a failed attempt)
    for f in prog.functions:
        if f.classq != 'celma::common::Singleton' or f.short != 'instance' or f.body is None:
            continue
        extra = set()
        for ref, kind, node in effects.accesses(f):
            vid = effects.var_id(ref)
            if kind == 'write' and vid.startswith('celma::common::Singleton<') and not vid.endswith('::mpObject') and \
                    not effects.is_self_synchronised(ref.get('dt', '')):
                extra.add(vid.split('::')[-1])
        chk.check(not extra, 'R1d', f.name, 'instance() writes no static state besides the instance pointer', f.loc(),
                  'it also writes %s: an exception of the constructor leaves it behind' % sorted(extra))
    fns = [f for f in prog.functions if f.classq == 'celma::common::Singleton'
           and f.short in ('instance', 'reset')]
    chk.require(fns, 'no Singleton<T>::instance/reset instantiation found')
    for f in fns:
        locks = effects.LockInfo(f)
        once_lambdas = set()
        for c in f.calls_to('std::call_once', 'call_once'):
            for n in walk(c):
                if n.get('k') == 'LambdaExpr' and n.get('lambda'):
                    once_lambdas.add(n['lambda'])
        bodies = [f] + [g for k in once_lambdas for g in prog.by_key.get(k, [])]
        n_constructions = 0
        for g in bodies:
            glocks = effects.LockInfo(g) if g is not f else locks
            for ref, kind, node in effects.accesses(g):
                vid = effects.var_id(ref)
                if effects.is_self_synchronised(ref.get('dt')):
                    continue
                what = '%s of %s is synchronised' % ('access', vid.split('::')[-1])
                if ref.get('sto') == 'static_local':
                    # magic static: initialisation is thread-safe; handing out a
                    # reference is fine, mutation is not
                    p = g.parent(node)
                    mutating = kind == 'write' and not (p is not None and p.get('k') in ('ReturnStmt',))
                    chk.check(not mutating, 'R1a', f.name, what, g.loc(node),
                              'function-local static mutated without synchronisation')
                    continue
                why = sync_status(prog, g, node, glocks, once_lambdas)
                chk.check(why is not None, 'R1a', f.name, what, g.loc(node),
                          '%s of %s in %s: no lock on a static mutex is held and the object is not '
                          'atomic / call_once protected' % (kind, vid, g.key))
            # construction sites
            for n in g.walk():
                is_new = n.get('k') == 'CXXNewExpr'
                is_mk = n.get('k') == 'CallExpr' and n.get('callee', '').startswith('std::make_unique')
                is_static_obj = False
                if n.get('k') == 'DeclStmt':
                    for d in n.get('decls', []):
                        if d.get('static') and not d.get('const'):
                            is_static_obj = True
                if not (is_new or is_mk or is_static_obj):
                    continue
                n_constructions += 1
                what = 'single construction site, null test under the same lock'
                if is_static_obj or g.key in once_lambdas:
                    chk.ok('R1b', f.name, what, g.loc(n))
                    continue
                cfg = g.cfg
                pos = cfg.position(n)
                held = glocks.held_at(pos) if pos else []
                guarded = False
                for bid, cond in cfg.cond_blocks():
                    if cond is None:
                        continue
                    if not any(effects.static_ref(x) is not None and
                               not effects.is_self_synchronised(effects.static_ref(x).get('dt'))
                               for x in walk(cond)):
                        continue
                    cpos = (bid, len(cfg.elems(bid)))
                    cheld = glocks.held_at(cfg.position(cond) or cpos)
                    if not cheld:
                        continue
                    if cfg.guarded_by_edge(pos, bid, 0) or cfg.guarded_by_edge(pos, bid, 1):
                        guarded = True
                chk.check(bool(held) and guarded, 'R1b', f.name, what, g.loc(n),
                          'construction not under lock (%s) or not guarded by a null test evaluated '
                          'under the lock (%s)' % (bool(held), guarded))
        if f.short == 'instance':
            chk.check(n_constructions == 1, 'R1b', f.name, 'exactly one construction site', f.loc(),
                      '%d construction sites' % n_constructions)


def field_owner(q):
    return q.rsplit('::', 1)[0]


def class_has_base(prog, cls, base, depth=0):
    if cls == base:
        return True
    c = prog.classes.get(cls)
    if not c or depth > 10:
        return False
    return any(class_has_base(prog, b['t'], base, depth + 1) for b in c['bases'])


def check_managed_thread(chk, prog):
    ctors = [f for f in prog.functions if f.classq == 'celma::common::ManagedThread' and f.d.get('ctor')]
    chk.require(ctors, 'no ManagedThread constructor instantiation found')
    cls = prog.classes.get('celma::common::ManagedThread')
    chk.require(cls is not None, 'class ManagedThread not found')
    for f in ctors:
        # the lambda(s) created in the ctor-initialisers / body and the flag they capture
        lambdas = [n for n in f.walk() if n.get('k') == 'LambdaExpr']
        chk.require(lambdas, 'ManagedThread ctor without a thread function lambda: ' + f.key)
        inits = f.inits
        for lam in lambdas:
            # which init entry contains the lambda (starts the thread)
            start_idx = None
            for i, ini in enumerate(inits):
                if isinstance(ini.get('init'), dict) and any(x is lam for x in walk(ini['init'])):
                    start_idx = i
            in_body = start_idx is None
            # fields referenced by capture initialisers
            flags = []
            for x in walk(lam):
                if x.get('k') == 'MemberExpr' and x.get('ref', {}).get('dk') == 'Field':
                    flags.append(x['ref'])
            chk.require(flags, 'thread lambda captures no member flag: ' + f.key)
            for fr in flags:
                owner = field_owner(fr['q'])
                what = 'flag %s initialised before the thread is started' % fr['name']
                if in_body:
                    chk.ok('R2a', f.name, what, f.loc(lam))
                    continue
                flag_idx = None
                for i, ini in enumerate(inits):
                    if ini['kind'] == 'member' and ini['name'] == fr['name'] and owner == f.classq:
                        flag_idx = i
                    elif ini['kind'] == 'base' and owner != f.classq:
                        bname = ini['name']
                        bq = prog.classes.get(bname, {}).get('q', bname)
                        if bq == owner or class_has_base(prog, bname, owner):
                            flag_idx = i
                chk.check(flag_idx is not None and flag_idx < start_idx, 'R2a', f.name, what, f.loc(lam),
                          'initialisation order: %s; the thread is started by entry %s, the flag is '
                          'initialised by entry %s' % (
                              [(i['kind'], i['name']) for i in inits], start_idx, flag_idx))
                # R2b atomic flag
                ftype = None
                for cn, c in prog.classes.items():
                    if c['q'] == owner:
                        for fld in c['fields']:
                            if fld['name'] == fr['name']:
                                ftype = fld['t']
                chk.check(bool(ftype) and ftype.startswith('std::atomic<'), 'R2b', f.name,
                          'flag %s is std::atomic' % fr['name'], f.loc(lam), 'type is %s' % ftype)
            # R2c bracket in the lambda's call operator
            ops = prog.by_key.get(lam.get('lambda'), [])
            chk.require(ops, 'lambda call operator not extracted: %s' % lam.get('lambda'))
            op = ops[0]
            cfg = op.cfg
            stores = []
            asserted = []
            order_sites = chk.__dict__.setdefault('_c20_order_sites', [])
            user_calls = []
            for c in op.walk():
                if c.get('k') not in CALL_KINDS:
                    continue
                callee = c.get('callee', '')
                if callee.startswith('std::') and 'atomic' in callee and (
                        callee.endswith('::store') or callee.endswith('::exchange') or callee.endswith('::operator=')):
                    args = children(c)[1:]
                    v = strip_casts(args[0]) if args else None
                    val = v.get('val') if isinstance(v, dict) else None
                    if val is None and args and isinstance(args[0], dict):
                        val = args[0].get('cv')
                    # a write that is the operand of assert() exists only in builds without NDEBUG: clang (run with
                    # -UNDEBUG) shows it as the condition of `cond ? void( 0) : __assert_fail( ...)`
                    in_assert = any(a.get('k') == 'ConditionalOperator' and any(
                        y.get('k') in CALL_KINDS and (y.get('callee') or '').split('::')[-1] in (
                            '__assert_fail', '__assert', '__assert_perror_fail', '_assert') for y in walk(a))
                        for a in op.ancestors(c))
                    if in_assert:
                        asserted.append(c)
                        continue
                    stores.append((bool(val), c))
                    order_sites.append((op, c, 'store', args[1] if len(args) > 1 else None))
                elif callee in ('std::forward', 'std::move') or c.get('k') == 'CXXConstructExpr':
                    continue
                else:
                    # anything else the thread function calls is (part of) the user function
                    user_calls.append(c)
            sets = [c for v, c in stores if v]
            clears = [c for v, c in stores if not v]
            what = 'flag set before and cleared after the user function on every normal path'
            good = bool(sets) and bool(clears) and bool(user_calls)
            detail = 'sets=%d clears=%d user calls=%d' % (len(sets), len(clears), len(user_calls))
            if asserted:
                detail += '; %d write(s) of the flag are operands of assert() and vanish with -DNDEBUG' % len(asserted)
            if good:
                for uc in user_calls:
                    if not any(cfg.node_dominates(s, uc) for s in sets):
                        good = False
                        detail = 'store(true) does not dominate the user call'
                    # every return path after the user call passes a clear
                    up = cfg.position(uc)
                    clear_ids = {c['id'] for c in clears}
                    bad = cfg.can_reach_exit((up[0], up[1] + 1),
                                             lambda p, e: isinstance(e, int) and e in clear_ids)
                    if bad:
                        good = False
                        detail = 'a return path after the user call skips store(false)'
                    # no clear before the user call
                    for cl in clears:
                        if cfg.reachable_from(cfg.position(cl), up):
                            good = False
                            detail = 'store(false) can precede the user call'
            chk.check(good, 'R2c', f.name, what, op.loc(), detail)
    # R2d
    for f in prog.funcs(cls='celma::common::ManagedThread', short='isActive'):
        for c in f.calls():
            q = c.get('callee', '')
            if q.startswith('std::') and 'atomic' in q and q.split('(')[0].endswith('::load'):
                a = children(c)[1:]
                chk.__dict__.setdefault('_c20_order_sites', []).append((f, c, 'load', a[0] if a else None))
        atomic_read = any(c.get('callee', '').startswith('std::') and
                          ('::load' in c['callee'] or 'operator' in c['callee']) and
                          any(x.get('k') == 'MemberExpr' and x.get('ref', {}).get('dk') == 'Field'
                              for x in walk(c))
                          for c in f.calls())
        chk.check(atomic_read, 'R2d', f.name, 'isActive reads the flag atomically', f.loc())
        # ... and reports nothing but the flag: any other state it consults (the std::thread handle via joinable() /
        # get_id(), other members) is not synchronised with join()/detach()/swap() of the owner and changes the
        # answer while the function is still running
        others = []
        for c in f.calls():
            q = c.get('callee', '')
            if q.startswith('std::atomic') or q.startswith('std::__atomic_base') or 'atomic' in q.split('::')[1:2]:
                continue
            others.append(q.split('(')[0])
        for x in f.walk():
            if x.get('k') == 'MemberExpr' and x.get('ref', {}).get('dk') == 'Field' and \
                    'atomic' not in (x.get('t') or '') and 'atomic' not in (x.get('ref', {}).get('dt') or ''):
                others.append('member ' + x['ref'].get('name', '?'))
        # ... it is a pure observer of that ONE flag: it writes nothing (an answer that is remembered makes a query
        # before the thread has set the flag decide all later answers) and reads no second atomic
        writes = [(c.get('callee') or '').split('::')[-1] for c in f.calls()
                  if (c.get('callee') or '').split('::')[-1] in ('store', 'exchange', 'fetch_or', 'fetch_and', 'fetch_xor',
                                                                 'fetch_add', 'fetch_sub', 'compare_exchange_strong',
                                                                 'compare_exchange_weak', 'operator=', 'test_and_set',
                                                                 'clear')]
        flds = {x['ref'].get('name') for x in f.walk() if x.get('k') == 'MemberExpr' and x.get('ref', {}).get('dk') == 'Field'}
        chk.check(not writes and len(flds) <= 1, 'R2d', f.name, 'isActive is a pure observer of the one flag the thread '
                  'function sets', f.loc(), 'it %s' % ('writes (%s)' % ', '.join(sorted(set(writes))) if writes else
                                                        'reads the members %s' % sorted(flds)))
        chk.check(not others, 'R2d', f.name, 'isActive reports the atomic flag and nothing else', f.loc(),
                  'it also consults %s: unsynchronised with join()/detach()/swap() of the thread handle, and the '
                  'answer no longer follows the running function' % ', '.join(sorted(set(others))))

    # R2e: the destructor waits for the thread whenever the handle is joinable - whatever the flag says (a thread
    # whose function has not yet started, or has just cleared the flag, still runs code that uses the flag member)
    # - and never detaches it
    from ..rules import implied_edges
    dts = [f for f in prog.functions if f.classq == 'celma::common::ManagedThread' and f.short.startswith('~')
           and f.body is not None]
    chk.require(dts, 'destructor of ManagedThread not found')
    for f in dts:
        def is_joinable(c):
            return c.get('k') in CALL_KINDS and (c.get('callee') or '').endswith('::joinable')
        joins = [c for c in f.calls() if (c.get('callee') or '') == 'std::thread::join']
        det = [c for c in f.calls() if (c.get('callee') or '') == 'std::thread::detach']
        chk.check(not det, 'R2e', f.name, 'the destructor never detaches the thread', f.loc(det[0]) if det else f.loc(),
                  'a detached thread goes on using the flag member of the destroyed object')
        off = f.cfg.must_pass_through(lambda n: n in joins, blocked_edges=implied_edges(f, is_joinable, False))
        chk.check(bool(joins) and not off, 'R2e', f.name, 'the destructor joins the thread on every path on which the '
                  'handle is joinable', f.loc(), '; '.join(str(o) for o in off[:3]) if off else 'no join()')

def memory_order_of(arg):
    """name of the std::memory_order enumerator an argument denotes; None = defaulted (seq_cst); '?' = not a constant"""
    if arg is None or arg.get('k') == 'CXXDefaultArgExpr':
        return None
    for x in walk(arg):
        if x.get('k') == 'DeclRefExpr' and x.get('ref', {}).get('dk') == 'EnumConstant':
            return x['ref'].get('name') or x['ref'].get('q', '').split('::')[-1]
    return '?'


def r2f_flag_ordering(chk):
    """The flag is the only channel through which another thread learns, without joining, that the function has
    started / has returned.  `neither involves a data race`: what the observer does after it saw the flag must be
    ordered behind what the thread did before it wrote the flag - every store of the flag in the thread function
    releases and the load in isActive() acquires (or both are sequentially consistent)."""
    sites = chk.__dict__.get('_c20_order_sites', [])
    chk.require(len([s for s in sites if s[2] == 'store']) >= 2 and any(s[2] == 'load' for s in sites),
                'flag stores/loads with a memory order: %d' % len(sites))
    for f, c, kind, arg in sites:
        mo = memory_order_of(arg)
        good = {'store': (None, 'memory_order_release', 'memory_order_seq_cst', 'memory_order_acq_rel', 'release',
                          'seq_cst', 'acq_rel'),
                'load': (None, 'memory_order_acquire', 'memory_order_seq_cst', 'acquire', 'seq_cst')}[kind]
        chk.check(mo in good, 'R2f', f.name,
                  'the %s of the active flag %s' % (kind, 'releases' if kind == 'store' else 'acquires'), f.loc(c),
                  'memory order is %s: an observer that sees the new flag value is not ordered behind the writes of '
                  'the thread function (data race on whatever the function produced)' % mo)


def run(chk):
    units = [os.path.join(VERIF, 'drivers', 'concurrency.cpp')]
    # every Singleton<> instantiation in the library
    units += [u for u in library_units()
              if any(s in u for s in ('prog_args/groups.cpp', 'log/logging.cpp', 'appl/project_root.cpp',
                                      'prog_args/handler.cpp'))]
    if chk.tier == 'thorough':
        units = [units[0]] + library_units()
    prog = load_program(units)
    chk.units = units
    chk.explanation = (
        'Structural necessary conditions of the concurrency contracts, decided on the resolved AST/CFG '
        'of every Singleton<T>::instance/reset instantiation and every ManagedThread constructor '
        'instantiation: lockset-by-dominance for every access to the shared singleton pointer, '
        'single guarded construction site, base/member initialisation order of the thread-starting '
        'sub-object vs. the captured atomic flag, set/clear bracketing of the user function. '
        'Not decided: behaviour under actual schedules (nothing is executed).')
    chk.assumptions = ['std::mutex/std::lock_guard/std::atomic/std::call_once behave as specified',
                       'initialisation order of bases and members as given by clang (bases in declaration '
                       'order, then fields in declaration order)']
    chk.rule('R1a', 'every access to the singleton pointer is synchronised', 4)
    chk.rule('R1b', 'exactly one construction site, null-tested under the lock', 2)
    chk.rule('R1c', 'the static members of the singleton are constant-initialised', 2)
    chk.rule('R1d', 'instance() keeps no state besides the instance pointer', 2)
    chk.rule('R2a', 'thread-starting sub-object initialised after the captured flag', 2)
    chk.rule('R2b', 'flag is std::atomic', 2)
    chk.rule('R2c', 'flag set/cleared around the user function on every normal path', 4)
    chk.rule('R2d', 'isActive() reads the flag through the atomic', 1)
    chk.rule('R2e', 'the destructor joins a joinable thread and never detaches', 2)
    chk.rule('R2f', 'release/acquire pairing of the active flag', 3)
    check_singleton(chk, prog)
    check_managed_thread(chk, prog)
    r2f_flag_ordering(chk)
