"""C06 — Multi-value destinations end up as the fold of all values given.

R1 pipeline order (sibling agreement over the list-splitting assign()s): clear-before-assign
   happens before the tokenizer loop and resets its one-shot flag; inside the loop the order is
   check -> format -> convert -> (unique test -> skip/throw) -> add; sort happens after the loop,
   guarded by the sort flag; the tokenizer uses the configured list separator
R2 adapter / trait agreement for every ContainerAdapter specialisation: IsSortable <=> sort()
   does not unconditionally throw, HasIterators <=> contains() does not unconditionally throw,
   IsSorted => !IsSortable, addValue() inserts, clear() empties
R3 capacity (Engine C, shared with C04-R5) and: the unique-data membership test of the fixed-size
   destinations ranges over the filled prefix only
R4 free values: routed to the last argument only if it takes multiple values; the 'last argument'
   is reset by the end-of-values argument, by every key element and at the end of evaluation
Not decided: that the resulting container EQUALS the fold for all cuts (needs execution semantics
of the standard containers and the tokenizer)."""
import os
import re

from .. import rules
from ..rules import (callee_is, object_of, field_name, call_args, mentions_field, mentions_call,
                     mentions_var, loops_in, loop_header, enclosing_loops, exempt_edges)
from ..facts import VERIF, children, strip_all_casts, walk, CALL_KINDS, AnalysisBroken
from .c02 import element_loops, short_cls
from . import c04, c08


def splitting_assigns(prog):
    tb = prog.derived_from('celma::prog_args::detail::TypedArgBase')
    res = []
    for f in prog.functions:
        if f.short == 'assign' and f.cls in tb and element_loops(f):
            res.append(f)
    return res


def conversions(f):
    """the calls that turn the element text into a value: boost::lexical_cast, or the tuple helper"""
    res = []
    for c in f.calls():
        q = c.get('callee', '')
        if q.startswith('boost::lexical_cast') or q.endswith('tuple_at_index') or 'TupleElementValueAssign' in q:
            res.append(c)
    return res


def stores(f):
    """the calls / assignments that put the converted value into the destination"""
    res = []
    for c in f.calls():
        q = c.get('callee', '')
        if q.endswith('::addValue') or q.endswith('tuple_at_index'):
            res.append(c)
        elif c.get('k') == 'CXXOperatorCallExpr' and c.get('op') in ('=', '[]') and \
                any(x.get('k') == 'MemberExpr' and x.get('ref', {}).get('name') == 'mDestVar' for x in walk(c)):
            res.append(c)
        elif c.get('k') == 'CXXMemberCallExpr' and field_name(object_of(c)) == 'mDestVar' and \
                q.split('::')[-1] in ('set', 'reset', 'flip', 'push_back'):
            res.append(c)
    for n in f.walk():
        if n.get('k') == 'BinaryOperator' and n.get('op') == '=' and \
                any(x.get('k') == 'MemberExpr' and x.get('ref', {}).get('name') == 'mDestVar'
                    for x in walk(children(n)[0])):
            res.append(n)
    return res


def r1(chk, prog):
    fs = splitting_assigns(prog)
    chk.require(len(fs) >= 20, 'only %d list-splitting assign() instantiations' % len(fs))
    for f in sorted(fs, key=lambda x: x.cls):
        cfg = f.cfg
        tag = short_cls(f)
        loop = element_loops(f)[0]
        h = loop_header(cfg, loop)
        # (a) clear before assign
        clears = [c for c in f.calls() if field_name(object_of(c)) == 'mDestVar' and
                  c.get('callee', '').split('::')[-1] in ('clear', 'reset') and not call_args(c)]
        flagged = [c for c in clears if any(cond is not None and mentions_field(cond, 'mClearB4Assign') and
                                            cfg.guarded_by_edge(cfg.position(c), bid, 0)
                                            for bid, cond in cfg.cond_blocks())]
        if mentions_field(f.body, 'mClearB4Assign'):
            ok = len(flagged) == 1
            detail = '%d guarded clear() calls' % len(flagged)
            if ok:
                c = flagged[0]
                before_loop = not cfg.reachable_from((h, 0), cfg.position(c)) if cfg.elems(h) else True
                seen = cfg.reach((h, 0))
                before_loop = cfg.position(c) not in seen
                resets = [n for n in f.walk() if n.get('k') == 'BinaryOperator' and n.get('op') == '=' and
                          field_name(children(n)[0]) == 'mClearB4Assign' and
                          strip_all_casts(children(n)[1]).get('val') in (False, 0)]
                rid = {n['id'] for n in resets}
                cp = cfg.position(c)
                seen2 = cfg.reach((cp[0], cp[1] + 1), lambda p, e: isinstance(e, int) and e in rid)
                skipped = any(p[0] == h for p in seen2 if p[0] != 'exit_from') or \
                    any(p[0] == 'exit_from' for p in seen2)
                ok = before_loop and bool(resets) and not skipped
                detail = 'before loop: %s, one-shot flag reset on the same path: %s' % (before_loop, not skipped)
            chk.check(ok, 'R1', f.name, 'earlier content is discarded exactly once, before the first new value [%s]' % tag,
                      f.loc(), detail)
        # (b) order inside one iteration: check -> format -> convert -> store
        convs = [c for c in conversions(f) if loop in enclosing_loops(f, c)]
        sts = [s for s in stores(f) if loop in list(f.ancestors(s))]
        checks = [c for c in f.calls() if callee_is(c, 'TypedArgBase::check') and loop in enclosing_loops(f, c)]
        fmts = [c for c in f.calls() if callee_is(c, 'TypedArgBase::format') and loop in enclosing_loops(f, c)]
        chk.require(convs and sts, 'no conversion/store found in %s' % f.key)
        body = cfg.succ[h][0]

        def before(a_nodes, b_node):
            """within one iteration: b is reachable only after one of a_nodes, and never before"""
            aid = {a['id'] for a in a_nodes}
            seen = cfg.reach((body, 0), lambda p, e: p[0] == h or (isinstance(e, int) and e in aid))
            return cfg.position(b_node) not in seen
        ok = all(before(checks, c) for c in convs) if checks else False
        chk.check(ok, 'R1', f.name, 'every element is checked before it is converted [%s]' % tag, f.loc(loop))
        bad = []
        for fm in fmts:
            # a formatter that runs after the conversion of the same element would have no effect
            fp = cfg.position(fm)
            for c in convs:
                cp = cfg.position(c)
                seen = cfg.reach((cp[0], cp[1] + 1), lambda p, e: p[0] == h)
                if fp in seen:
                    bad.append((f.loc(fm), f.loc(c)))
        chk.check(not bad, 'R1', f.name, 'formatters are applied before the conversion [%s]' % tag, f.loc(loop),
                  'format() reachable after the conversion in the same iteration: %s' % bad[:2])
        ok = all(before(convs, s) for s in sts)
        chk.check(ok, 'R1', f.name, 'only converted values are stored [%s]' % tag, f.loc(loop))
        # every element of the list is worked through: the loop is left by the end of the list or by an exception,
        # never by return (a duplicate that is dropped silently must not end the word)
        rets = [x for x in walk(loop) if x.get('k') == 'ReturnStmt']
        chk.check(not rets, 'R1', f.name, 'the split loop handles every element of the value list (no return inside '
                  'the loop) [%s]' % tag, f.loc(rets[0]) if rets else f.loc(loop),
                  'the remaining elements of the word are dropped silently')
        # unique test between conversion and store
        uq = [bid for bid, cond in cfg.cond_blocks() if cond is not None and mentions_field(cond, 'mUniqueData')]
        if uq:
            members = [c for c in f.calls() if (callee_is(c, 'contains') or c.get('callee', '').startswith('std::find'))
                       and loop in enclosing_loops(f, c)]
            ok = bool(members) and all(before(convs, m) for m in members) and \
                all(any(cfg.reachable_from(cfg.position(m), cfg.position(s)) for s in sts) for m in members)
            chk.check(ok, 'R1', f.name, 'duplicates are tested after conversion and before the value is added [%s]' % tag,
                      f.loc(loop))
            # a detected duplicate is skipped or refused: the store is not reachable from the 'is duplicate' edge
            dup_ok = True
            for bid, cond in cfg.cond_blocks():
                if cond is None or not any(m in list(walk(cond)) for m in members):
                    continue
                c0 = strip_all_casts(cond)
                tgt = cfg.succ[bid][0]
                seen = cfg.reach((tgt, 0), lambda p, e: p[0] == h)
                if any(cfg.position(s) in seen for s in sts):
                    dup_ok = False
            chk.check(dup_ok, 'R1', f.name, 'a duplicate is dropped or refused, never added [%s]' % tag, f.loc(loop))
        # (c) sort after the loop
        sorts = [c for c in f.calls() if c.get('callee', '').endswith('::sort') or c.get('callee', '').startswith('std::sort')]
        if sorts:
            ok = all(loop not in enclosing_loops(f, c) for c in sorts) and \
                all(any(cond is not None and mentions_field(cond, 'mSortData') and
                        cfg.guarded_by_edge(cfg.position(c), bid, 0) for bid, cond in cfg.cond_blocks())
                    for c in sorts)
            # reachable only through the loop exit
            seen = cfg.reach(cfg.entry_pos(), lambda p, e: p[0] == h)
            ok = ok and all(cfg.position(c) not in seen for c in sorts)
            chk.check(ok, 'R1', f.name, 'sorting happens once, after all elements were added, if requested [%s]' % tag,
                      f.loc(sorts[0]))
            # ... and whenever it is requested: with the sort flag set, no normal return is reachable without the
            # sort (earlier content and the elements of earlier uses are part of the fold, so 'nothing was added by
            # this use' is no reason to skip it)
            from ..rules import implied_edges
            off_edges = implied_edges(f, lambda c_: c_.get('k') == 'MemberExpr' and
                                      c_.get('ref', {}).get('name') == 'mSortData', False)
            missing = cfg.must_pass_through(lambda nn: nn in sorts, blocked_edges=off_edges)
            chk.check(bool(off_edges) and not missing, 'R1', f.name, 'a requested sort is carried out on every normal '
                      'path [%s]' % tag, f.loc(sorts[0]), 'a return is reachable with the sort flag set but without '
                      'sorting (the sort depends on something else than the flag)')
            # ... of the elements that were stored: a fixed-size destination (C array, std::array) is filled from slot 0
            # up to its fill counter, the slots behind it hold no value yet - the sort covers exactly [0, counter)
            if ('[' in (f.cls or '').split('TypedArg<', 1)[-1] or 'std::array<' in (f.cls or '')) and \
                    any((c.get('callee') or '').startswith('std::sort') for c in sorts):
                counters = {field_name(children(x)[0]) for x in f.walk() if x.get('k') == 'UnaryOperator' and
                            x.get('op') in ('++',) and field_name(children(x)[0])}
                counters |= {field_name(children(x)[0]) for x in f.walk() if x.get('k') == 'CompoundAssignOperator'
                             and x.get('op') == '+=' and field_name(children(x)[0])}
                counters.discard(None)
                for c in sorts:
                    a = [x for x in call_args(c) if not x.get('defarg')]
                    last_fields = {y['ref'].get('name') for y in walk(a[1]) if y.get('k') == 'MemberExpr'} if len(a) >= 2 else set()
                    last_calls = {(y.get('callee') or '').split('::')[-1] for y in walk(a[1]) if y.get('k') in CALL_KINDS} \
                        if len(a) >= 2 else set()
                    first_calls = {(y.get('callee') or '').split('::')[-1] for y in walk(a[0]) if y.get('k') in CALL_KINDS} \
                        if a else set()
                    ok = len(a) >= 2 and bool(counters & last_fields) and not (last_calls & {'end', 'cend', 'size'}) and \
                        not (first_calls & {'end', 'cend'}) and not any(
                            y.get('k') in ('BinaryOperator', 'CXXOperatorCallExpr') and y.get('op') in ('+', '-')
                            for y in walk(a[0]))
                    chk.check(ok, 'R1', f.name, 'the sort of a fixed-size destination covers exactly the stored '
                              'elements [0, fill counter) [%s]' % tag, f.loc(c), 'range end uses %s' % (
                                  sorted(last_fields | last_calls) or 'nothing'))
        # (b') positional formatters are selected by the element's position in the DESTINATION (which is
        #      carried over between uses of the argument), never by the position inside the current value list
        for fm in fmts:
            a = call_args(fm)
            if len(a) < 2 or a[1].get('defarg'):
                continue
            idx = a[1]
            v = strip_all_casts(idx)
            dest_pos = any(x.get('k') == 'MemberExpr' and x.get('ref', {}).get('dk') == 'Field' and
                           x['ref']['name'] in ('mIndex', 'mNumValuesSet') for x in walk(idx)) or \
                any(x.get('k') in CALL_KINDS and x.get('callee', '').endswith('::size') and
                    field_name(object_of(x)) == 'mDestVar' for x in walk(idx)) or \
                v.get('k') == 'IntegerLiteral' or 'cv' in v
            stored_at = None
            for st_ in sts:
                for x in walk(st_):
                    if x.get('k') == 'MemberExpr' and x.get('ref', {}).get('name') in ('mIndex', 'mNumValuesSet'):
                        stored_at = x['ref']['name']
            same = True
            if stored_at and any(x.get('k') == 'MemberExpr' and x.get('ref', {}).get('dk') == 'Field'
                                 for x in walk(idx)):
                same = any(x.get('k') == 'MemberExpr' and x.get('ref', {}).get('name') == stored_at for x in walk(idx))
            chk.check(dest_pos and same, 'R1', f.name,
                      'the positional formatter is chosen by the position in the destination [%s]' % tag, f.loc(fm),
                      'format( value, <index>) uses an index that restarts with every value list: values split over '
                      'several uses of the argument get the wrong formatter')
        # (d) separator
        toks = [c for c in f.calls() if callee_is(c, 'Tokenizer::Tokenizer')]
        ok = bool(toks) and all(field_name(call_args(c)[1]) == 'mListSep' for c in toks)
        chk.check(ok, 'R1', f.name, 'the value list is split at the configured list separator [%s]' % tag, f.loc())
        # (e) ... and empty list elements are dropped, by every destination kind alike ("a,,b" and "a,b" are the
        #     same fold): the tokenizer is built by the constructor that does not keep empty tokens
        for c in toks:
            g = prog.by_key.get(c.get('ckey'), [None])[0]
            keeps = None
            if g is not None:
                keeps = any(x.get('k') == 'DeclRefExpr' and (x.get('ref', {}).get('q') or '').endswith('keep_empty_tokens')
                            for r_ in g.roots() for x in walk(r_))
            if keeps is None:
                raise AnalysisBroken('Tokenizer constructor used in %s is not available' % f.key)
            chk.check(not keeps, 'R1', f.name, 'empty list elements are dropped (same tokenizer policy in every '
                      'list-splitting destination) [%s]' % tag, f.loc(c),
                      'this destination builds its tokenizer with boost::keep_empty_tokens: "a,,b" yields an empty '
                      'element here and two elements everywhere else')


def always_throws(f):
    cfg = f.cfg
    if cfg is None:
        return False
    return not cfg.exit_blocks(('return',)) or not cfg.can_reach_exit(cfg.entry_pos())


def membership_polarity(prog, f, depth=0):
    """True: the function returns 'the value is an element', False: it returns the opposite, None: shape unknown.
    Accepted shapes of the returned expression:  find( ...) != end() / != arr + n,  count( ...) != 0 / > 0,
    !( ... == ...), any_of( ...), a call of another membership function (followed through the resolved callee)"""
    rets = [n for n in f.walk() if n.get('k') == 'ReturnStmt' and children(n)]
    if len(rets) != 1:
        return None

    def pol(e):
        e = strip_all_casts(e)
        while e.get('k') in ('ParenExpr', 'ExprWithCleanups', 'MaterializeTemporaryExpr', 'CXXBindTemporaryExpr') \
                and children(e):
            e = strip_all_casts(children(e)[0])
        k = e.get('k')
        if k == 'UnaryOperator' and e.get('op') == '!':
            r = pol(children(e)[0])
            return None if r is None else not r
        op = e.get('op') if k in ('BinaryOperator', 'CXXOperatorCallExpr') else None
        if op in ('!=', '==', '>'):
            kids = call_args(e) if k == 'CXXOperatorCallExpr' else children(e)
            if len(kids) != 2:
                return None
            names = [(x.get('callee') or '').split('::')[-1] for x in walk(kids[0]) if x.get('k') in CALL_KINDS]
            if any(nm in ('find', 'find_if', 'lower_bound') for nm in names) and op in ('!=', '=='):
                # 'found' means: the result differs from the END marker of the searched range, and what is searched
                # is the value the function was given
                other = [(x.get('callee') or '').split('::')[-1] for x in walk(kids[1]) if x.get('k') in CALL_KINDS]
                if any(nm in ('begin', 'cbegin', 'rbegin', 'crbegin') for nm in other):
                    return False
                pnames = {p_['name'] for p_ in f.params}
                if pnames and not any(x.get('k') == 'DeclRefExpr' and x['ref'].get('sto') == 'param' and
                                      x['ref'].get('name') in pnames for x in walk(kids[0])):
                    return False
                return op == '!='
            if any(nm in ('count', 'count_if') for nm in names):
                zero = strip_all_casts(kids[1]).get('val') == 0 or kids[1].get('cv') == 0
                if zero:
                    return op in ('!=', '>')
            return None
        if k in CALL_KINDS:
            nm = (e.get('callee') or '').split('::')[-1]
            if nm in ('any_of', 'binary_search'):
                return True
            if nm == 'none_of':
                return False
            g = prog.by_key.get(e.get('ckey'), [None])[0]
            if g is not None and g.body is not None and depth < 3:
                return membership_polarity(prog, g, depth + 1)
        return None
    return pol(children(rets[0])[0])


def r2(chk, prog):
    adapters = {}
    for cn, c in prog.classes.items():
        if c['q'] == 'celma::prog_args::detail::ContainerAdapter' and any(
                m['short'] == 'addValue' for m in c['methods']):
            adapters[cn] = c
    chk.require(len(adapters) >= 11, 'only %d ContainerAdapter specialisations instantiated' % len(adapters))
    consts = {}
    for (q, f_, l), v in prog.vars.items():
        m = re.match(r'(celma::prog_args::detail::ContainerAdapter<.*>)::(\w+)$', q)
        if m and 'val' in v:
            consts.setdefault(m.group(1), {})[m.group(2)] = v['val']
    for cn in sorted(adapters):
        tag = cn.replace('celma::prog_args::detail::', '').replace(
            'std::basic_string<char, std::char_traits<char>, std::allocator<char>>', 'string')[:80]
        tr = consts.get(cn)
        chk.require(tr is not None and {'IsSortable', 'HasIterators', 'IsSorted'} <= set(tr),
                    'trait constants of %s not found (%s)' % (cn, tr))
        meths = {f.short: f for f in prog.functions if f.cls == cn}
        if 'sort' in meths:
            chk.check(bool(tr['IsSortable']) == (not always_throws(meths['sort'])), 'R2', meths['sort'].name,
                      'IsSortable agrees with sort() [%s]' % tag, meths['sort'].loc(),
                      'IsSortable=%s but sort() %s' % (tr['IsSortable'], 'always throws' if always_throws(meths['sort'])
                                                      else 'sorts'))
        if 'contains' in meths:
            chk.check(bool(tr['HasIterators']) == (not always_throws(meths['contains'])), 'R2', meths['contains'].name,
                      'HasIterators agrees with contains() [%s]' % tag, meths['contains'].loc())
        chk.check(not (tr['IsSorted'] and tr['IsSortable']), 'R2', cn, 'an always-sorted container is not sortable [%s]'
                  % tag, '')
        if 'contains' in meths and not always_throws(meths['contains']):
            # 'unique data' drops / refuses a value exactly when it is already stored: contains() must answer
            # 'is an element' (not its negation)
            pol = membership_polarity(prog, meths['contains'])
            if pol is None:
                raise AnalysisBroken('contains() of %s has a shape this rule does not know' % cn)
            chk.check(pol, 'R2', meths['contains'].name, 'contains() is true exactly for a stored value [%s]' % tag,
                      meths['contains'].loc(), 'the returned expression is the negation of the membership test')
        if 'sort' in meths and not always_throws(meths['sort']):
            # 'sorting yields ascending order': the standard sort with its default (less-than) order
            f = meths['sort']
            sc = [c for c in f.calls() if (c.get('callee') or '').split('::')[-1].split('<')[0] in
                  ('sort', 'stable_sort')]
            if len(sc) != 1:
                raise AnalysisBroken('sort() of %s does not consist of one sort call' % cn)
            args = [a for a in call_args(sc[0]) if not a.get('defarg')]
            free = not field_name(object_of(sc[0])) if object_of(sc[0]) is not None else True
            extra = args[2:] if free else args
            cmp_t = ' '.join((a.get('t') or '') for a in extra)
            asc = not extra or 'std::less' in cmp_t
            if extra and not asc and 'std::greater' not in cmp_t:
                raise AnalysisBroken('sort() of %s uses a comparator this rule does not know: %s' % (cn, cmp_t))
            whole = True
            if free:
                b = [(x.get('callee') or '').split('::')[-1] for a in args[:2] for x in walk(a)
                     if x.get('k') in CALL_KINDS]
                whole = 'begin' in b and 'end' in b and not any(
                    (x.get('k') in ('BinaryOperator', 'CXXOperatorCallExpr') and x.get('op') in ('+', '-')) or
                    (x.get('k') in CALL_KINDS and (x.get('callee') or '').split('::')[-1].split('<')[0] in
                     ('next', 'prev', 'advance')) for a in args[:2] for x in walk(a))
            chk.check(asc and whole and not f.cfg.must_pass_through(lambda n: n in sc), 'R2', f.name,
                      'sort() sorts the whole container in ascending order [%s]' % tag, f.loc(),
                      'comparator %s' % cmp_t if not asc else 'the range is not begin()..end()')
        if 'addValue' in meths:
            f = meths['addValue']
            ins = [c for c in f.calls() if field_name(object_of(c)) == 'mDestCont' and
                   c.get('callee', '').split('::')[-1] in ('push_back', 'insert', 'push', 'push_front', 'emplace',
                                                             'emplace_back', 'insert_after', 'emplace_front')]
            val = f.params[0]['name'] if f.params else None
            ok = len(ins) >= 1 and all(any(mentions_var(a, val) for a in call_args(c)) for c in ins) and \
                not f.cfg.must_pass_through(lambda n: n in ins)
            chk.check(ok, 'R2', f.name, 'addValue() inserts the value with the container\'s own primitive [%s]' % tag,
                      f.loc())
        # the observers of an adapter (membership, intersection with another destination, rendering) leave every
        # destination as it is: the content is determined by the values given, a check must not re-order it
        MUT_MEMBERS = ('push_back', 'push_front', 'insert', 'erase', 'clear', 'sort', 'resize', 'pop', 'pop_back',
                       'pop_front', 'push', 'emplace', 'emplace_back', 'emplace_front', 'assign', 'swap', 'reverse',
                       'unique', 'remove', 'remove_if', 'merge', 'splice', 'operator=', 'insert_after', 'erase_after')
        MUT_ALGOS = ('sort', 'stable_sort', 'partial_sort', 'nth_element', 'reverse', 'unique', 'remove', 'remove_if',
                     'rotate', 'partition', 'stable_partition', 'shuffle', 'random_shuffle', 'next_permutation',
                     'prev_permutation', 'fill', 'fill_n', 'replace', 'replace_if', 'swap', 'swap_ranges', 'iter_swap',
                     'inplace_merge', 'make_heap', 'sort_heap', 'push_heap', 'pop_heap', 'transform', 'generate', 'iota')
        for obs in ('contains', 'hasIntersection', 'toString'):
            if obs not in meths or always_throws(meths[obs]):
                continue
            g = meths[obs]
            bad = []
            for c in g.calls():
                nm = (c.get('callee') or '').split('::')[-1].split('<')[0]
                if c.get('k') == 'CXXMemberCallExpr' and nm in MUT_MEMBERS and mentions_field(object_of(c), 'mDestCont'):
                    bad.append(nm)
                elif c.get('k') == 'CallExpr' and nm in MUT_ALGOS and (c.get('callee') or '').startswith('std::') and \
                        any(mentions_field(a, 'mDestCont') for a in call_args(c)):
                    bad.append('std::' + nm)
                elif c.get('k') == 'CallExpr' and nm in ('move', 'exchange') and (c.get('callee') or '').startswith('std::') \
                        and any(mentions_field(a, 'mDestCont') for a in call_args(c)):
                    # the destination is a reference to the application's variable: handing it on as an rvalue lets
                    # the callee (a by-value parameter) take its content away
                    bad.append('std::' + nm)
            chk.check(not bad, 'R2', g.name, '%s() does not modify a destination [%s]' % (obs, tag), g.loc(),
                      'it calls %s on a destination container' % ', '.join(sorted(set(bad))))
        if 'clear' in meths:
            f = meths['clear']
            cl = [c for c in f.calls() if field_name(object_of(c)) == 'mDestCont' and c.get('callee', '').endswith('::clear')]
            pops = [c for c in f.calls() if c.get('callee', '').endswith('::pop')]
            loops = loops_in(f)
            ok = bool(cl) or (bool(pops) and bool(loops) and any(mentions_call(children(l)[0], 'empty') for l in loops))
            chk.check(ok, 'R2', f.name, 'clear() empties the container [%s]' % tag, f.loc())


def r2_key_value(chk, prog, rule='R2'):
    """the key-value adapters (map, multimap and their unordered siblings): addValue( key, value) INSERTS the pair
    built from both parameters (insert/emplace: content that was there before stays - an assignment through
    operator[] would overwrite it, and would make the four siblings disagree), on every path; clear() empties;
    contains() is true exactly for a stored key"""
    kv = {cn: c for cn, c in prog.classes.items() if c['q'] == 'celma::prog_args::detail::KeyValueContainerAdapter'
          and any(m['short'] == 'addValue' for m in c['methods'])}
    chk.require(len(kv) >= 4, 'only %d KeyValueContainerAdapter specialisations instantiated' % len(kv))
    for cn in sorted(kv):
        tag = re.sub(r'<.*', '', cn.split('KeyValueContainerAdapter<', 1)[1])
        meths = {f.short: f for f in prog.functions if f.cls == cn and f.body is not None}
        f = meths.get('addValue')
        chk.require(f is not None and len(f.params) == 2, 'addValue( key, value) of %s not found' % tag)
        ins = [c for c in f.calls() if field_name(object_of(c)) == 'mDestCont' and
               c.get('callee', '').split('::')[-1] in ('insert', 'emplace', 'try_emplace')]
        other = [c for c in f.calls() if field_name(object_of(c)) == 'mDestCont' and c not in ins] + \
                [c for c in f.calls() if c.get('k') == 'CXXOperatorCallExpr' and c.get('op') in ('[]', '=') and
                 any(field_name(a) == 'mDestCont' for a in call_args(c))]
        ok = len(ins) == 1 and not other and all(
            any(mentions_var(a, p['name']) for a in call_args(ins[0])) for p in f.params) and \
            not f.cfg.must_pass_through(lambda n: n in ins)
        chk.check(ok, rule, f.name, 'addValue() inserts the pair ( key, value) and keeps the earlier content [%s]' % tag,
                  f.loc(), 'other accesses of the destination: %s' % sorted({(c.get('callee') or '').split('::')[-1]
                                                                             for c in other}) if other else '')
        if 'clear' in meths:
            g = meths['clear']
            cl = [c for c in g.calls() if field_name(object_of(c)) == 'mDestCont' and c.get('callee', '').endswith('::clear')]
            chk.check(bool(cl) and not g.cfg.must_pass_through(lambda n: n in cl), rule, g.name,
                      'clear() empties the container [%s]' % tag, g.loc())
        if 'contains' in meths:
            pol = membership_polarity(prog, meths['contains'])
            if pol is None:
                raise AnalysisBroken('contains() of the %s adapter has a shape this rule does not know' % tag)
            chk.check(pol, rule, meths['contains'].name, 'contains() is true exactly for a stored key [%s]' % tag,
                      meths['contains'].loc(), 'the returned expression is the negation of the membership test')


def r3_tuple_capacity(chk, prog):
    """a tuple destination refuses more elements than it holds: common::tuple_at_index( index, tuple, f) - the
    helper through which TypedArg< std::tuple<...>> stores element number `index` - is evaluated abstractly (Engine B)
    for every instantiation: a step calls f exactly for index == 0 and hands index - 1 on; the overload behind the
    last element throws for every index >= 0 (= an original index >= the number of elements) and only for those"""
    from ..boolshape import Interp, NeedAtom, Unsupported
    fs = [f for f in prog.functions if f.name == 'celma::common::tuple_at_index' and f.body is not None]
    chk.require(len(fs) >= 4, 'instantiations of common::tuple_at_index: %d' % len(fs))
    n_end = n_step = 0
    for f in sorted(fs, key=lambda x: x.key):
        rec = [c for c in f.calls() if (c.get('callee') or '').startswith('celma::common::tuple_at_index')]
        ip = f.params[0]['name'] or 'index'
        if not f.params[0]['name']:
            continue                        # the overload for I beyond the size: unconditional throw
        for idx in (-3, -1, 0, 1, 5):
            ev = {'f': 0, 'next': []}

            def cb_rec(it, call):
                ev['next'].append(it.ev_obj(call_args(call)[0]))
                return 0

            def cb_f(it, call):
                ev['f'] += 1
                return 0
            it = Interp(f, {ip: idx}, callbacks={'tuple_at_index': cb_rec, 'operator()': cb_f,
                                                  'get': lambda it, call: 0}, prog=None)
            try:
                out = it.run(f.body)
            except (NeedAtom, Unsupported) as e:
                raise AnalysisBroken('tuple_at_index not interpretable (%s): %s' % (f.key[:80], getattr(e, 'key', e)))
            if not rec:
                n_end += 1
                want = idx >= 0
                chk.check((out[0] == 'throw') == want, 'R3', f.name, 'behind the last element: index %d %s' % (
                    idx, 'is refused (the tuple has no such element)' if want else
                    'is fine (the element was handled on the way)'), f.loc(),
                    'the overload %s' % ('throws' if out[0] == 'throw' else 'returns normally'))
            else:
                n_step += 1
                ok = out[0] == 'return' and ev['f'] == (1 if idx == 0 else 0) and ev['next'] == [idx - 1]
                chk.check(ok, 'R3', f.name, 'a step handles the element for index 0 only and hands index - 1 on '
                          '[index %d]' % idx, f.loc(), 'f called %d time(s), handed on %s' % (ev['f'], ev['next']))
    chk.require(n_end >= 5 and n_step >= 5, 'tuple_at_index evaluations: %d end / %d step' % (n_end, n_step))


def r3_unique_prefix(chk, prog, rule='R3'):
    """unique test of the fixed-size destinations over the filled prefix only (unused elements still hold their
    default and must neither count as duplicates nor make a valid value be refused)"""
    n = 0
    for f in prog.functions:
        if f.short != 'assign' or not f.cls or not re.search(r'TypedArg<(.*\[\d+\]|std::array<.*)>$', f.cls):
            continue
        members = [c for c in f.calls() if callee_is(c, 'contains') or c.get('callee', '').startswith('std::find')]
        for c in members:
            n += 1
            ok = any(mentions_field(a, 'mIndex') for a in call_args(c))
            chk.check(ok, rule, f.name, 'the duplicate test looks only at the elements stored so far [%s]' % short_cls(f),
                      f.loc(c), 'the whole array is searched: unused (default) elements count as duplicates')
    chk.require(n >= 3, 'duplicate tests of fixed-size destinations: %d' % n)
    return n


def r3_tuple_element_index(chk, prog, rule='R3'):
    """the element of a tuple destination that receives a value is selected by the number of values stored SO FAR
    over all uses of the argument (a member that is incremented once per value) - never by the position of the value
    inside the current value list: with '-t a -t 5' the second value belongs to element 1, and must be converted to
    the type of element 1"""
    fs = [f for f in prog.functions if (f.cls or '').startswith('celma::prog_args::detail::TypedArg<std::tuple<')
          and f.short == 'assign' and f.body is not None]
    chk.require(fs, 'TypedArg< std::tuple<...>>::assign not instantiated')
    n = 0
    for f in fs:
        calls = [c for c in f.calls() if (c.get('callee') or '').startswith('celma::common::tuple_at_index')]
        chk.require(calls, '%s: tuple_at_index() not called' % f.name)
        incremented = {field_name(children(x)[0]) for x in f.walk() if x.get('k') == 'UnaryOperator' and
                       x.get('op') == '++' and field_name(children(x)[0])}
        for c in calls:
            idx = strip_all_casts(call_args(c)[0])
            fld = field_name(idx)
            n += 1
            ok = fld is not None and fld in incremented and idx.get('k') == 'MemberExpr'
            # ... incremented once in every iteration that stores a value
            if ok:
                loops = enclosing_loops(f, c)
                incs = [x for x in f.walk() if x.get('k') == 'UnaryOperator' and x.get('op') == '++' and
                        field_name(children(x)[0]) == fld]
                ok = bool(loops) and len(incs) == 1 and loops[-1] in enclosing_loops(f, incs[0])
            chk.check(ok, rule, f.name, 'the tuple element is selected by the number of values stored so far (member '
                      'counter, carried over between uses)', f.loc(c), 'the index is %s' % (
                          'member %s, which is not advanced once per value' % fld if fld else
                          'not a member counter (position inside the current value list?)'))
    return n


def r3_bit_value_agreement(chk, prog, rule='R3'):
    """bit-set destinations (std::bitset, vector<bool>, DynamicBitset): the value stored at a position is !mResetFlags
    (set, or cleared after unsetFlag()) in EVERY branch of assign() - the branch that runs the formatters first stores
    the same value as the plain branch"""
    n = 0
    for f in prog.functions:
        cls = f.cls or ''
        if f.short != 'assign' or f.body is None or not cls.startswith('celma::prog_args::detail::TypedArg<'):
            continue
        if not any(k in cls for k in ('TypedArg<std::bitset<', 'TypedArg<std::vector<bool', 'DynamicBitset>')):
            continue
        stores = []
        for x in f.walk():
            if x.get('k') == 'CXXMemberCallExpr' and (x.get('callee') or '').split('::')[-1] in ('set', 'reset') and \
                    field_name(object_of(x)) == 'mDestVar' and [a_ for a_ in call_args(x) if not a_.get('defarg')]:
                stores.append((x, call_args(x)))       # (reset() / set() without a position: clear-before-assign)
            elif x.get('k') in ('CXXOperatorCallExpr', 'BinaryOperator') and x.get('op') == '=':
                lhs = call_args(x)[0] if x.get('k') == 'CXXOperatorCallExpr' else children(x)[0]
                rhs = call_args(x)[1] if x.get('k') == 'CXXOperatorCallExpr' else children(x)[1]
                if mentions_field(lhs, 'mDestVar') and any(y.get('k') in ('CXXOperatorCallExpr', 'ArraySubscriptExpr')
                                                          for y in walk(lhs)):
                    stores.append((x, [lhs, rhs]))
        if not stores:
            continue
        for x, a in stores:
            n += 1
            val = a[1] if len(a) >= 2 and not a[1].get('defarg') else None
            ok = val is not None and mentions_field(val, 'mResetFlags') and any(
                y.get('k') == 'UnaryOperator' and y.get('op') == '!' for y in walk(val))
            chk.check(ok, rule, f.name, 'the bit at the given position is stored as !mResetFlags in every branch [%s]'
                      % short_cls(f), f.loc(x), 'this store ignores unsetFlag()' if val is None or not
                      mentions_field(val, 'mResetFlags') else 'wrong polarity')
    chk.require(n >= 6, 'stores into bit-set destinations: %d' % n)
    return n


def r3(chk, prog):
    r3_tuple_capacity(chk, prog)
    r3_bit_value_agreement(chk, prog)
    r3_tuple_element_index(chk, prog)
    eng = c04.make_engine(prog)
    c04.r5_fixed_size(chk, prog, eng, rule='R3')
    r3_unique_prefix(chk, prog, 'R3')
    # tuple: never more values than elements
    for f in prog.functions:
        if f.short == 'assign' and f.cls and 'TypedArg<std::tuple<' in f.cls:
            tl = [x for x in prog.functions if x.name.endswith('tuple_at_index') and x.cfg is not None]
            chk.check(True, 'R3', f.name, 'tuple destinations are filled through tuple_at_index() [%s]' % short_cls(f), f.loc())


def r4(chk, prog):
    f = prog.one('celma::prog_args::Handler', 'evalSingleArgument')
    cfg = f.cfg
    cont = [c for c in f.calls() if callee_is(c, 'TypedArgBase::assignValue')]
    chk.require(cont, 'evalSingleArgument: multi-value continuation not found')
    for c in cont:
        pos = cfg.position(c)
        g1 = any(cond is not None and mentions_call(cond, 'takesMultiValue') and cfg.guarded_by_edge(pos, bid, 0)
                 for bid, cond in cfg.cond_blocks())
        g2 = any(cond is not None and mentions_field(cond, 'mpLastArg') and cfg.guarded_by_edge(pos, bid, 0)
                 for bid, cond in cfg.cond_blocks())
        obj = object_of(c)
        chk.check(g1 and g2 and field_name(obj) == 'mpLastArg', 'R4', f.name,
                  'a free value goes to the last argument only if that argument accepts multiple values', f.loc(c))
        a = call_args(c)
        chk.check(len(a) >= 2 and mentions_field(a[1], 'mValue'), 'R4', f.name,
                  'the free value itself is handed to the argument', f.loc(c))
    # end of values / end of evaluation reset the last argument
    g = prog.one('celma::prog_args::Handler', 'endValueList')
    sets = [n for n in g.walk() if n.get('k') == 'BinaryOperator' and n.get('op') == '=' and
            field_name(children(n)[0]) == 'mpLastArg']
    chk.check(bool(sets) and not g.cfg.must_pass_through(lambda n: n in sets, kinds=('return',)), 'R4', g.name,
              'the end-of-values argument closes the value list', g.loc())
    h = prog.one('celma::prog_args::Handler', 'evalArguments')
    rae = [d for n in h.walk() if n.get('k') == 'DeclStmt' for d in n['decls']
           if 'ResetAtExit' in d.get('t', '') and isinstance(d.get('init'), dict) and
           mentions_field(d['init'], 'mpLastArg')]
    its = list(h.calls_to('Handler::iterateArguments'))
    ok = bool(rae) and bool(its)
    if ok:
        dn = [n for n in h.walk() if n.get('k') == 'DeclStmt' and any(d in rae for d in n['decls'])][0]
        ok = h.cfg.node_dominates(dn, its[-1])
    chk.check(ok, 'R4', h.name, 'the last argument is forgotten when the evaluation ends (also by exception)', h.loc())
    c08.last_arg_rule(chk, prog, 'R4')


def r5_clear_once(chk, prog):
    """"clear before assign" is a one-shot request: the first assign() of an evaluation clears the defaults (if there
    are any) and ALWAYS disarms the flag - otherwise a later assign() of the same evaluation wipes the values that
    were just read.  In every assign() that tests mClearB4Assign, every path on which the flag is set reaches
    mClearB4Assign = false before the function returns."""
    n = 0
    for f in prog.functions:
        if f.short != 'assign' or f.body is None or not (f.cls or '').startswith('celma::prog_args::detail::TypedArg<'):
            continue
        if not any(x.get('k') == 'MemberExpr' and x.get('ref', {}).get('name') == 'mClearB4Assign' for x in f.walk()):
            continue
        n += 1
        cfg = f.cfg
        resets = [x for x in f.walk() if x.get('k') == 'BinaryOperator' and x.get('op') == '=' and
                  field_name(children(x)[0]) == 'mClearB4Assign' and
                  strip_all_casts(children(x)[1]).get('val', children(x)[1].get('cv')) in (0, False)]

        def flag(c):
            c = strip_all_casts(c)
            return c.get('k') == 'MemberExpr' and c.get('ref', {}).get('name') == 'mClearB4Assign'
        off_edges = exempt_edges(f, flag, False)       # edges taken when the flag is not set
        bad = cfg.can_reach_exit(cfg.entry_pos(), lambda p, e: isinstance(e, int) and f.node(e) is not None and
                                 f.node(e) in resets, blocked_edges=off_edges) if resets else [0]
        tag = (f.cls or '').replace('celma::prog_args::detail::', '')[:80]
        chk.check(bool(resets) and not bad, 'R5', f.name, 'a pending "clear before assign" is disarmed by the first '
                  'assign(), whatever the destination contains [%s]' % tag, f.loc(),
                  'a return is reachable with the flag still set' if resets else 'the flag is never reset')
    chk.require(n >= 4, 'assign() implementations that use mClearB4Assign: %d' % n)


def r6_unique_option_is_stored(chk, prog):
    """setUniqueData() of a destination type that supports the option switches the duplicate test on for EVERY
    destination of that type: the value stored in mUniqueData is the constant true in every instantiation (also for
    sorted containers: a multiset keeps duplicates, and a set must still be able to refuse one), and the
    'duplicates are errors' request is stored as given."""
    n = 0
    for f in prog.functions:
        if f.short != 'setUniqueData' or not (f.cls or '').startswith('celma::prog_args::detail::TypedArg<') or \
                f.body is None:
            continue
        pname = f.params[0]['name'] if f.params else None
        for x in f.walk():
            if x.get('k') != 'BinaryOperator' or x.get('op') != '=':
                continue
            lhs, rhs = children(x)[0], children(x)[1]
            fld = field_name(lhs)
            # the branch of `if (dest_type_t::HasIterators)` is dead code in the instantiations without iterators
            dead = False
            for a in f.ancestors(x):
                if a.get('k') == 'IfStmt':
                    ks = children(a)
                    cv = strip_all_casts(ks[0]).get('cv', ks[0].get('cv')) if ks and isinstance(ks[0], dict) else None
                    if cv == 0 and len(ks) > 1 and isinstance(ks[1], dict) and any(y is x for y in walk(ks[1])):
                        dead = True
            if dead:
                continue
            if fld == 'mUniqueData':
                n += 1
                r0 = strip_all_casts(rhs)
                v = r0.get('cv', rhs.get('cv', r0.get('val')))
                chk.check(v in (1, True), 'R6', f.name, 'setUniqueData() switches the duplicate test on [%s]' % f.cls.split(
                    'detail::', 1)[-1][:70], f.loc(x), 'the value stored in mUniqueData is %s in this instantiation: '
                    'duplicates are stored / never refused' % ('not a constant' if v is None else bool(v)))
            elif fld == 'mTreatDuplicatesAsErrors':
                r0 = strip_all_casts(rhs)
                chk.check(r0.get('k') == 'DeclRefExpr' and r0.get('ref', {}).get('name') == pname, 'R6', f.name,
                          'the "duplicates are errors" request is stored as given', f.loc(x))
    chk.require(n >= 4, 'setUniqueData overrides that store mUniqueData: %d' % n)


def run(chk):
    prog, units = rules.prog_args_program()
    chk.units = units
    chk.explanation = (
        'Sibling agreement over all list-splitting assign() instantiations of the driver (sequence, set, queue/stack, '
        'key-value, C array, std::array, tuple, bitset, vector<bool>, DynamicBitset): the order clear -> (check -> format '
        '-> convert -> duplicate test -> add)* -> sort is decided by reachability inside one loop iteration of the CFG; '
        'trait constants of every ContainerAdapter specialisation are compared with the shape of its sort()/contains(); '
        'capacity obligations by Engine C; the routing of free values by guards and must-pass-through. Not decided: '
        'equality of the final container with the fold over all cuts.')
    chk.assumptions = ['standard containers and boost::tokenizer behave as documented']
    chk.rule('R1', 'pipeline order of the list-splitting assign()s', 100)
    chk.rule('R2', 'adapter traits agree with the adapter methods', 40)
    chk.rule('R3', 'fixed-size destinations: capacity and duplicate test over the filled prefix', 10)
    chk.rule('R4', 'free values are routed to the last multi-value argument only', 5)
    r1(chk, prog)
    r2(chk, prog)
    r2_key_value(chk, prog)
    r3(chk, prog)
    r4(chk, prog)
    chk.rule('R5', 'a pending "clear before assign" is a one-shot request', 4)
    r5_clear_once(chk, prog)
    chk.rule('R6', 'the unique-data option is stored for every destination type that supports it', 8)
    r6_unique_option_is_stored(chk, prog)
