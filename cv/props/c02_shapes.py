"""C02-R7/R8 placeholder; filled once Engine B exists"""


def run(chk, prog):
    pass
