"""C02-R7 / C03-R2: comparison shapes of the value checks and cardinalities
(Engine B): the throw condition, evaluated over all orderings of value and
bound(s), equals the table the property states (lower bound inclusive, upper
bound exclusive, lengths inclusive, count > max)."""
from ..boolshape import truth_table, Unsupported
from ..facts import AnalysisBroken


def _val(env, suffix):
    for k, v in env.items():
        if k.endswith(suffix):
            return v
    raise KeyError(suffix)


def _conv(env):
    for k, v in env.items():
        if k.startswith('lexical_cast(') or k == 'native':
            return v
    raise KeyError('converted value')


SPECS = [
    # (class q-name, method, human spec, oracle(env_before) -> True if it must throw, min instances)
    ('celma::prog_args::detail::CheckLower', 'checkValue', 'rejects exactly value < lower bound (bound itself accepted)',
     lambda e: _conv(e) < _val(e, 'mCheckValue'), 2),
    ('celma::prog_args::detail::CheckUpper', 'checkValue', 'rejects exactly value >= upper bound (exclusive upper bound)',
     lambda e: _conv(e) >= _val(e, 'mCheckValue'), 1),
    ('celma::prog_args::detail::CheckRange', 'checkValue', 'rejects exactly value < lower or value >= upper',
     lambda e: _conv(e) < _val(e, 'mLower') or _conv(e) >= _val(e, 'mUpper'), 2),
    ('celma::prog_args::detail::CheckMinLength', 'checkValue', 'rejects exactly length < minimum',
     lambda e: _val(e, 'val') < _val(e, 'mMinLength'), 1),
    ('celma::prog_args::detail::CheckMaxLength', 'checkValue', 'rejects exactly length > maximum',
     lambda e: _val(e, 'val') > _val(e, 'mMaxLength'), 1),
    ('celma::prog_args::detail::CardinalityMax', 'gotValue', 'throws exactly when the new count exceeds the maximum (-1: unlimited)',
     lambda e: _val(e, 'mMaxNumAcceptedValues') != -1 and _val(e, 'mNumValues') + 1 > _val(e, 'mMaxNumAcceptedValues'), 1),
    ('celma::prog_args::detail::CardinalityExact', 'gotValue', 'throws exactly when the new count exceeds the expected number',
     lambda e: _val(e, 'mNumValues') + 1 > _val(e, 'mNumExpectedValues'), 1),
    ('celma::prog_args::detail::CardinalityRange', 'gotValue', 'throws exactly when the new count exceeds the maximum (-1: unlimited)',
     lambda e: _val(e, 'mMaxNumValues') != -1 and _val(e, 'mNumValues') + 1 > _val(e, 'mMaxNumValues'), 1),
    ('celma::prog_args::detail::CardinalityExact', 'check', 'used argument must have exactly the expected number of values',
     lambda e: _val(e, 'mNumValues') > 0 and _val(e, 'mNumValues') != _val(e, 'mNumExpectedValues'), 1),
    ('celma::prog_args::detail::CardinalityRange', 'check', 'used argument must have at least the minimum number of values',
     lambda e: _val(e, 'mNumValues') != 0 and _val(e, 'mNumValues') < _val(e, 'mMinNumValues'), 1),
]


def run(chk, prog, rule='R7', accept_direction=False):
    chk.rule(rule, 'comparison shapes of value checks and cardinalities equal the documented tables '
             '(exhaustive over all orderings)', 10)
    for clsq, meth, spec, oracle, minimum in SPECS:
        fs = [f for f in prog.functions if f.classq == clsq and f.short == meth]
        chk.require(len(fs) >= minimum, '%s::%s: %d instantiations found, expected >= %d' % (clsq, meth, len(fs), minimum))
        for f in fs:
            try:
                atoms, rows = truth_table(f)
            except Unsupported as u:
                raise AnalysisBroken('%s: shape not interpretable (%s)' % (f.key, u))
            bad = None
            counted_ok = True
            for env, out, env_after in rows:
                try:
                    must_throw = bool(oracle(env))
                except KeyError as ke:
                    raise AnalysisBroken('%s: atom %s not found among %s' % (f.key, ke, sorted(env)))
                threw = out[0] == 'throw'
                if threw != must_throw:
                    bad = (env, out, must_throw)
                    break
                if meth == 'gotValue' and not threw:
                    # an accepted value must have been counted
                    unlimited = any(k.endswith(('mMaxNumAcceptedValues', 'mMaxNumValues')) and v == -1
                                    for k, v in env.items())
                    if not unlimited and _val(env_after, 'mNumValues') != _val(env, 'mNumValues') + 1:
                        counted_ok = False
                        bad = (env, ('not counted', _val(env_after, 'mNumValues')), must_throw)
                        break
            cls_short = (f.cls or clsq).replace('celma::prog_args::detail::', '')
            chk.check(bad is None, rule, f.name, '%s [%s]' % (spec, cls_short), f.loc(),
                      '' if bad is None else 'for %s the code %s but the documented rule says %s' % (
                          {k: v for k, v in bad[0].items()}, bad[1], 'reject' if bad[2] else 'accept'))
            if bad is None and len(chk.samples) < 12:
                chk.samples.append({'function': f.name, 'atoms': [a for a, _ in atoms], 'rows': len(rows),
                                    'example_row': {'env': rows[len(rows) // 2][0],
                                                    'outcome': rows[len(rows) // 2][1][0]}})
