"""C05 — A key designates exactly one argument, independent of definition order.

R1 add-time refusal (Storage<>::addArgument compares the new key with every
   stored entry by == and mismatch(), each hit throws; nobody else writes the
   container; the handler's containers forbid duplicates; every add* entry of
   the handler reaches it)
R2 lookup structure (exact match wins regardless of definition order;
   abbreviation only when enabled; an ambiguous prefix throws)
R3 key algebra: truth tables of ArgumentKey::operator== / mismatch()"""
from .. import rules
from ..rules import (callee_is, object_of, field_name, call_args, mentions_field, mentions_call,
                     mentions_var, Wrapper, exempt_edges, loops_in, loop_header,
                     loop_iteration_must_pass, enclosing_loops)
from ..facts import children, strip_all_casts, walk, CALL_KINDS, AnalysisBroken
from ..boolshape import truth_table, Unsupported, Interp, NeedAtom, Throw
import itertools


def is_key_eq(c):
    """comparison of a stored entry / key with a key: Data::operator==(ArgumentKey) or
    ArgumentKey::operator=="""
    if c.get('k') not in CALL_KINDS:
        return False
    q = c.get('callee', '')
    return q.endswith('::operator==') and ('prog_args::detail::Data<' in q or 'ArgumentKey::operator==' in q)


def is_mismatch(c):
    return c.get('k') in CALL_KINDS and callee_is(c, 'mismatch') and 'prog_args::detail' in c.get('callee', '')


def cond_blocks_with(cfg, pred):
    for bid, cond in cfg.cond_blocks():
        if cond is not None and any(pred(x) for x in walk(cond)):
            yield bid, cond


def true_edge_only_throws(cfg, bid, loops):
    """taking the true edge of block bid never reaches a return, nor the next iteration"""
    tgt = cfg.succ[bid][0]
    if tgt is None:
        return False
    seen = cfg.reach((tgt, 0))
    if any(('exit_from', p) in seen for p in cfg.pred[cfg.exit] if cfg.exit_kind(p) == 'return'):
        return False
    for l in loops:
        h = loop_header(cfg, l)
        if h is not None and any(p[0] == h for p in seen if p[0] != 'exit_from'):
            return False
    return True


def r1(chk, prog):
    adds = [f for f in prog.functions if f.classq == 'celma::prog_args::detail::Storage'
            and f.short == 'addArgument' and len(f.params) == 2 and 'ArgumentKey' in f.params[1]['t']]
    chk.require(adds, 'no Storage<>::addArgument( T, const ArgumentKey&) instantiation')
    for f in adds:
        cfg = f.cfg
        pushes = [c for c in f.calls() if field_name(object_of(c)) == 'mArgs' and not c.get('cconst')]
        chk.require(pushes, 'Storage::addArgument does not store into mArgs: ' + f.key)
        ex = exempt_edges(f, lambda c: c.get('k') == 'MemberExpr' and c['ref']['name'] == 'mAllowDuplicates', True)
        loops = [l for l in loops_in(f) if any(mentions_field(h, 'mArgs') for h in children(l)[:-1])]
        sname = f.cls.replace('celma::prog_args::detail::', '')[:60]
        for p in pushes:
            ppos = cfg.position(p)
            for what, pred in (('compared with == against every stored key', is_key_eq),
                               ('tested with mismatch() against every stored key', is_mismatch)):
                ok = False
                detail = 'no loop over the stored entries performs this comparison'
                for l in loops:
                    if not any(pred(x) for x in walk(l)):
                        continue
                    off = loop_iteration_must_pass(cfg, l, pred)
                    h = loop_header(cfg, l)
                    seen = cfg.reach(cfg.entry_pos(), lambda pos, e: pos[0] == h, blocked_edges=ex)
                    bypass = ppos in seen
                    hits_throw = all(true_edge_only_throws(cfg, bid, loops)
                                     for bid, _ in cond_blocks_with(cfg, pred))
                    if not off and not bypass and hits_throw:
                        ok = True
                    else:
                        detail = '; '.join(off + (['the store is reachable without running the loop '
                                                   '(duplicates not allowed)'] if bypass else []) +
                                           ([] if hits_throw else ['a positive comparison does not end in throw']))
                chk.check(ok, 'R1', f.name, 'new key is %s [%s]' % (what, sname), f.loc(p), detail)
    # ... and each comparison relates a STORED entry with the NEW key (a key compared with itself is always equal and
    # never mismatches): in addArgument one operand refers to the loop variable only, the other to the key parameter
    # only; in the forwarding members of the stored entry (Data< T>::operator==( key) / mismatch( key)) one operand
    # is the own key member, the other the parameter
    def operand_refs(c):
        ops = call_args(c) if c.get('k') == 'CXXOperatorCallExpr' else [object_of(c)] + call_args(c)
        res = []
        for o in ops:
            refs = set()
            for x in walk(o) if o is not None else []:
                if x.get('k') == 'DeclRefExpr' and x['ref'].get('sto') in ('local', 'param'):
                    refs.add((x['ref'].get('sto'), x['ref'].get('name')))
                elif x.get('k') == 'MemberExpr' and x['ref'].get('dk') == 'Field':
                    refs.add(('field', x['ref'].get('name')))
                elif x.get('k') == 'CXXThisExpr' and o.get('k') == 'UnaryOperator':
                    refs.add(('field', '*this'))
            res.append(refs)
        return res
    for f in adds:
        key_param = f.params[1]['name']
        for l in loops_in(f):
            if l.get('k') != 'CXXForRangeStmt':
                continue
            lv = children(l)[1]['decls'][0]['name']
            for c in walk(l):
                if is_key_eq(c) or is_mismatch(c):
                    sides = operand_refs(c)
                    want = [{('local', lv)}, {('param', key_param)}]
                    ok = len(sides) == 2 and (sides == want or sides == want[::-1])
                    chk.check(ok, 'R1', f.name, '%s relates a stored entry with the new key' % (
                        'operator==' if is_key_eq(c) else 'mismatch()'), f.loc(c), 'operands refer to %s' % [
                            sorted(n for _, n in s_) for s_ in sides])
    n_fw = 0
    for f in prog.functions:
        if (f.classq or '') != 'celma::prog_args::detail::Data' or f.body is None or len(f.params) != 1 or \
                'ArgumentKey' not in f.params[0]['t'] or f.short not in ('operator==', 'mismatch'):
            continue
        cs = [c for c in f.calls() if is_key_eq(c) or is_mismatch(c)]
        n_fw += 1
        ok = False
        sides = []
        if len(cs) == 1:
            sides = operand_refs(cs[0])
            kinds = sorted(sorted(k for k, _ in s_) for s_ in sides)
            ok = len(sides) == 2 and kinds == [['field'], ['param']]
        chk.check(ok, 'R1', f.name, 'the stored entry compares its OWN key with the key it is given (%s)' % f.short,
                  f.loc(), 'operands refer to %s' % [sorted(n for _, n in s_) for s_ in sides])
    chk.require(n_fw >= 2, 'forwarding comparisons of the stored entry (Data< T>): %d' % n_fw)
    # who may write mArgs
    for f in prog.functions:
        if f.classq != 'celma::prog_args::detail::Storage':
            continue
        for c in f.calls():
            if field_name(object_of(c)) == 'mArgs' and not c.get('cconst'):
                chk.check(f.short in ('addArgument', 'erase'), 'R1', f.name,
                          'only addArgument/erase modify the key container', f.loc(c),
                          'non-const call %s on mArgs' % c.get('callee'))
    # the handler's containers forbid duplicates
    for f in prog.functions:
        if f.classq == 'celma::prog_args::detail::ArgumentContainer' and f.d.get('ctor'):
            for ini in f.inits:
                if ini.get('name') != 'mArguments':
                    continue
                init = ini.get('init')
                args = children(init) if init else []
                val = None
                if args:
                    a = strip_all_casts(args[0])
                    val = a.get('cv', a.get('val'))
                chk.check(init is not None and (not args or val in (0, False)), 'R1', f.name,
                          'argument storage is constructed with duplicates forbidden', f.loc(),
                          'allow_dups argument evaluates to %r' % (val,))
    # every add* entry point of the handler stores through ArgumentContainer::addArgument
    w = Wrapper(prog, lambda c: callee_is(c, 'ArgumentContainer::addArgument'))
    n = 0
    for f in prog.functions:
        if f.classq != 'celma::prog_args::Handler' or not f.short.startswith('add') or \
                f.d.get('access', 0) != 0:
            continue
        if not f.d.get('ret', '').endswith('TypedArgBase *'):
            continue
        n += 1
        bad = f.cfg.must_pass_through(w.node_is)
        chk.check(not bad, 'R1', f.name, 'argument is registered through ArgumentContainer::addArgument '
                  '[%d params]' % len(f.params), f.loc())
    chk.require(n >= 8, 'only %d Handler::add* entry points found' % n)


def r2_lookup_operands(chk, prog, rule='R2'):
    """findArg()/findExactArg(): every comparison relates the entry under examination (loop variable) with the key
    that is looked up (parameter) - the prefix test in the direction 'stored key starts with the given key' - and
    what the lookup hands out is that entry: a return value / a remembered partial match refers to the loop variable
    (or a local that was set from it, or null), never to another element of the container"""
    n = 0
    for short in ('findArg', 'findExactArg'):
        f = prog.one('celma::prog_args::detail::ArgumentContainer', short)
        key_param = f.params[0]['name']
        loops = [l for l in loops_in(f) if l.get('k') == 'CXXForRangeStmt']
        if short == 'findExactArg':
            # the exact lookup answers 'defined / not defined' for every key: it never ends in an exception - in
            # particular it is not routed through the abbreviation lookup, which throws for an ambiguous abbreviation
            # although an argument with exactly this key may exist elsewhere (sub-group container, other member)
            via = [c for c in f.calls() if callee_is(c, 'ArgumentContainer::findArg')]
            thr = [x for x in f.walk() if x.get('k') == 'CXXThrowExpr']
            n += 1
            chk.check(not via and not thr, rule, f.name, 'the exact lookup never throws (it does not go through the '
                      'abbreviation lookup)', f.loc(via[0]) if via else f.loc(), 'findArg() throws "matches more than one '
                      'argument" for a key that is an ambiguous abbreviation of other arguments')
            if via and not loops:
                continue
        chk.require(loops, '%s: search loop not found' % short)

        def refs(o):
            r = set()
            for x in walk(o) if o is not None else []:
                if x.get('k') == 'DeclRefExpr' and x['ref'].get('sto') in ('local', 'param'):
                    r.add(x['ref'].get('name'))
                elif x.get('k') == 'MemberExpr' and x['ref'].get('dk') == 'Field':
                    r.add('this.' + x['ref'].get('name'))
            return r

        def loop_var_at(node):
            """the variable of the innermost search loop around node (None outside the loops)"""
            best = None
            for l in loops:
                if any(x is node for x in walk(children(l)[-1])):
                    best = children(l)[1]['decls'][0]['name']
            return best
        for c in f.calls():
            lv = loop_var_at(c)
            if is_key_eq(c):
                sides = [refs(a) for a in call_args(c)]
                n += 1
                chk.check(lv is not None and sorted(map(sorted, sides)) == sorted([[lv], [key_param]]), rule, f.name,
                          'the exact comparison relates the examined entry with the given key', f.loc(c),
                          'operands refer to %s' % [sorted(s_) for s_ in sides])
            elif callee_is(c, 'ArgumentKey::startsWith'):
                obj, arg = refs(object_of(c)), refs(call_args(c)[0]) if call_args(c) else set()
                n += 1
                chk.check(lv is not None and obj == {lv} and arg == {key_param}, rule, f.name,
                          'prefix test: the stored key starts with the given key', f.loc(c),
                          'tests whether %s starts with %s' % (sorted(obj), sorted(arg)))
        ptr_locals = {d['name'] for ds in f.walk() if ds.get('k') == 'DeclStmt' for d in ds.get('decls', [])
                      if (d.get('t') or '').rstrip().endswith('*')}
        outs = [(x, children(x)[0]) for x in f.walk() if x.get('k') == 'ReturnStmt' and children(x)]
        outs += [(x, children(x)[1]) for x in f.walk() if x.get('k') == 'BinaryOperator' and x.get('op') == '=' and
                 strip_all_casts(children(x)[0]).get('ref', {}).get('name') in ptr_locals]
        for node, e in outs:
            r = refs(e)
            lv = loop_var_at(node)
            n += 1
            chk.check(r <= (({lv} if lv else set()) | ptr_locals), rule, f.name, 'the lookup hands out the examined '
                      'entry (or a match remembered from one, or null)', f.loc(node), 'the value refers to %s' % sorted(r))
    return n


def r2(chk, prog, rule='R2'):
    f = prog.one('celma::prog_args::detail::ArgumentContainer', 'findArg')
    cfg = f.cfg
    loops = loops_in(f)
    exact = list(cond_blocks_with(cfg, is_key_eq))
    chk.require(exact, 'findArg: exact key comparison not found')
    r2_lookup_operands(chk, prog, rule)
    # (a) exact match wins: inside a loop that performs the exact comparison there is no exit other
    #     than returning the exact match while elements remain
    for bid, cond in exact:
        ls = [l for l in loops if any(x is cond or x.get('id') == cond.get('id') for x in walk(l))]
        chk.require(ls, 'findArg: exact comparison is not inside a loop')
        l = ls[-1]
        h = loop_header(cfg, l)
        body = cfg.succ[h][0]
        true_edge = cfg.edge_guard(bid, 0)
        seen = cfg.reach((body, 0), lambda pos, e: pos[0] == h, blocked_edges={true_edge})
        exits = [p for p in cfg.pred[cfg.exit] if ('exit_from', p) in seen]
        kinds = sorted({cfg.exit_kind(p) for p in exits})
        chk.check(not exits, rule, f.name, 'exact key match wins whatever the definition order', f.loc(cond),
                  'the search loop can be left by %s before all arguments were compared for an exact match'
                  % '/'.join(kinds))
        # the exact edge returns the matched entry
        tgt = true_edge[1]
        seen_t = cfg.reach((tgt, 0))
        chk.check(any(('exit_from', p) in seen_t and cfg.exit_kind(p) == 'return' for p in cfg.pred[cfg.exit]) and
                  not any(p[0] == h for p in seen_t if p[0] != 'exit_from'),
                  rule, f.name, 'an exact match is returned at once', f.loc(cond))
    # (b) abbreviation only when enabled
    sw = [c for c in f.calls() if callee_is(c, 'ArgumentKey::startsWith')]
    chk.require(sw, 'findArg: startsWith() not found')
    abbr_conds = [bid for bid, c in cfg.cond_blocks() if c is not None and mentions_field(c, 'mAbbrAllowed')]
    for c in sw:
        pos = cfg.position(c)
        chk.check(any(cfg.guarded_by_edge(pos, b, 0) for b in abbr_conds), rule, f.name,
                  'prefix matching only when abbreviations are enabled', f.loc(c))
    # (c) ambiguity throws: a throw that depends on a prefix match
    sw_edges = set()
    for bid, cond in cfg.cond_blocks():
        if cond is not None and any(x in sw for x in walk(cond)):
            e = cfg.edge_guard(bid, 0)
            if e:
                sw_edges.add(e)
    throws = [n for n in f.walk() if n.get('k') == 'CXXThrowExpr']
    seen_wo = cfg.reach(cfg.entry_pos(), blocked_edges=sw_edges)
    dep = False
    for t in throws:
        tpos = cfg.position(t)
        if tpos not in seen_wo:
            dep = True
            continue
        # guarded by a local flag that is only set under a prefix match
        for bid, cond in cfg.cond_blocks():
            c0 = strip_all_casts(cond) if cond else None
            if c0 and c0.get('k') == 'DeclRefExpr' and c0['ref'].get('sto') == 'local' and \
                    cfg.guarded_by_edge(tpos, bid, 0):
                name = c0['ref']['name']
                sets = [n for n in f.walk() if n.get('k') == 'BinaryOperator' and n.get('op') == '=' and
                        strip_all_casts(children(n)[0]).get('ref', {}).get('name') == name]
                if sets and all(cfg.position(s) not in seen_wo for s in sets):
                    dep = True
    chk.check(dep, rule, f.name, 'a second prefix match is reported as ambiguous (exception)', f.loc(),
              'no throw in findArg depends on a prefix match')
    # (d) first prefix match is remembered only if none was found before (no silent overwrite by order)
    # (e) 'enabled' is what the user configured: every key container of a handler is constructed with
    #     abbreviations allowed exactly when the flag hfNoAbbr is absent, and the container stores that parameter
    en = prog.enums.get('celma::prog_args::Handler::HandleFlags')
    if en is None:
        raise AnalysisBroken('enum Handler::HandleFlags not found')
    flags = {e['name']: e['val'] for e in en['enumerators']}
    if 'hfNoAbbr' not in flags:
        raise AnalysisBroken('Handler::hfNoAbbr not found')
    ctor = [g for g in prog.functions if g.classq == 'celma::prog_args::detail::ArgumentContainer' and g.d.get('ctor')
            and g.params and not g.d.get('defaulted')]
    chk.require(ctor, 'ArgumentContainer constructor not found')
    ac = ctor[0]
    pidx = None
    for i in ac.inits:
        if i.get('name') == 'mAbbrAllowed' and isinstance(i.get('init'), dict):
            for k, p_ in enumerate(ac.params):
                if mentions_var(i['init'], p_['name']) and strip_all_casts(i['init']).get('k') in ('DeclRefExpr',):
                    pidx = k
    chk.check(pidx is not None, rule, ac.name, 'the container stores the abbreviation switch it is constructed with',
              ac.loc())
    from ..boolshape import Interp, NeedAtom
    n_cont = 0
    for g in prog.functions:
        if g.classq != 'celma::prog_args::Handler' or not g.d.get('ctor') or pidx is None:
            continue
        for i in g.inits:
            init = i.get('init')
            if not isinstance(init, dict) or not (init.get('callee') or '').endswith('ArgumentContainer::ArgumentContainer'):
                continue
            args = children(init)
            if len(args) <= pidx:
                continue
            n_cont += 1
            fparam = [p_['name'] for p_ in g.params if p_['t'].replace('const ', '').strip() == 'int']
            bad = None
            for fs in (0, flags['hfNoAbbr'], flags['hfNoAbbr'] | 1, 1, ~flags['hfNoAbbr'] & 0xffff):
                it = Interp(g, {nm: fs for nm in fparam})
                try:
                    v = it.ev(args[pidx])
                except (NeedAtom, Unsupported) as e_:
                    raise AnalysisBroken('abbreviation switch of %s in %s not interpretable: %s' % (i['name'], g.key, e_))
                if bool(v) != ((fs & flags['hfNoAbbr']) == 0):
                    bad = (fs, v)
                    break
            chk.check(bad is None, rule, g.name, 'container %s allows abbreviations exactly when hfNoAbbr is not set'
                      % i['name'], g.loc(init), '' if bad is None else 'for flags %#x the switch is %s' % bad)
    chk.require(n_cont >= 4, 'key containers constructed by Handler constructors: %d' % n_cont)
    return f


def r3(chk, prog, rule='R3'):
    eq = prog.one('celma::prog_args::detail::ArgumentKey', 'operator==')
    mm = prog.one('celma::prog_args::detail::ArgumentKey', 'mismatch')
    try:
        atoms_e, rows_e = truth_table(eq)
        atoms_m, rows_m = truth_table(mm)
    except Unsupported as u:
        raise AnalysisBroken('ArgumentKey comparison not interpretable: %s' % u)
    want = {'this.mChar', 'other.mChar', 'this.mWord', 'other.mWord'}
    chk.require({a for a, _ in atoms_e} == want and {a for a, _ in atoms_m} <= want,
                'ArgumentKey comparison atoms changed: %s / %s' % (atoms_e, atoms_m))

    def key(env):
        return tuple(env.get(k, 0) for k in sorted(want))
    mis = {}
    it_m = {a for a, _ in atoms_m}
    for env, out, _ in rows_m:
        mis[tuple(env.get(k) for k in sorted(it_m))] = bool(out[1])
    bad = {1: None, 2: None, 4: None}
    n = 0
    for env, out, _ in rows_e:
        n += 1
        c1, c2, w1, w2 = env['this.mChar'], env['other.mChar'], env['this.mWord'], env['other.mWord']
        if min(c1, c2, w1, w2) < 0:
            continue      # characters / string identities are non-negative
        e = bool(out[1])
        m = mis[tuple(env.get(k) for k in sorted(it_m))]
        share_short = c1 != 0 and c2 != 0 and c1 == c2
        share_long = w1 != 0 and w2 != 0 and w1 == w2
        all_empty = c1 == 0 and c2 == 0 and w1 == 0 and w2 == 0
        if (e or m) != (share_short or share_long or all_empty) and bad[1] is None:
            bad[1] = (env, e, m)
        both = c1 != 0 and c2 != 0 and w1 != 0 and w2 != 0
        if m != (both and (share_short != share_long)) and bad[2] is None:
            bad[2] = (env, e, m)
        single = (c2 != 0) != (w2 != 0)
        if single and e != (share_short or share_long) and bad[4] is None:
            bad[4] = (env, e, m)
    chk.check(bad[1] is None, rule, eq.name, 'keys are refused (== or mismatch) exactly when they share a short or a '
              'long key', eq.loc(), 'counter example %s' % (bad[1],))
    chk.check(bad[2] is None, rule, mm.name, 'mismatch() exactly when one key form is shared and the other differs',
              mm.loc(), 'counter example %s' % (bad[2],))
    chk.check(bad[4] is None, rule, eq.name, 'a command-line key (short or long) equals exactly the arguments that '
              'carry it', eq.loc(), 'counter example %s' % (bad[4],))
    chk.samples.append({'truth_table_rows': n, 'atoms': sorted(want)})


def r4_prefix(chk, prog):
    """ArgumentKey::startsWith( other): true exactly when both long keys are non-empty and other's long key is a
    prefix of this one - decided for all key texts from the meaning of the std::string operation the result is
    based on (observation facts of Engine C): compare( 0, n, other) of the whole other word against the first
    n characters; find( other, 0) == 0; rfind( other, 0) == 0.  An rfind without the position 0, a comparison over
    the shorter of the two lengths etc. are different predicates and are reported."""
    from ..bounds import Engine, Obj, St
    from ..lin import Lin, lin, ge, le, lt, gt, eq, entails, feasible, TooBig
    fs = [f for f in prog.functions if (f.classq or '') == 'celma::prog_args::detail::ArgumentKey'
          and f.short == 'startsWith']
    chk.require(len(fs) == 1, 'ArgumentKey::startsWith not found')
    f = fs[0]
    eng = Engine(prog, {'track_reads': True, 'inline': ('celma::prog_args::detail::ArgumentKey',), 'inline_depth': 2})
    eng.root = f.name
    st = St()
    other = f.params[0]['name']
    st.vars[other] = Obj(other, 'celma::prog_args::detail::ArgumentKey')
    for o in ('this', other):
        st.fields[(o, 'mWord')] = Obj(o + '.mWord', 'std::string')
        eng.string_len(st, o + '.mWord')
    m = st.fields[('this.mWord', 'length')]
    n = st.fields[(other + '.mWord', 'length')]
    finals = eng.exec_body(f, st)

    def eqv(s, a, b):
        return isinstance(a, Lin) and isinstance(b, Lin) and entails(s.cons, ge(a, b)) and entails(s.cons, le(a, b))

    def sat(cons):
        try:
            return feasible(cons)
        except TooBig:
            return True
    this_r, other_r = 'this.mWord.data', other + '.mWord.data'
    count = 0
    for s in finals:
        if s.status != 'return' or not isinstance(s.ret, Lin):
            chk.check(s.status == 'throw', 'R4', f.name, 'startsWith() returns a decided truth value', f.loc(),
                      'status %s, value %r' % (s.status, s.ret))
            continue
        count += 1
        truth = eqv(s, s.ret, lin(1))
        falsy = eqv(s, s.ret, lin(0))
        why = None
        if truth:
            # must imply: n >= 1, m >= 1, n <= m and the first n characters agree
            ok = entails(s.cons, ge(n, 1)) and entails(s.cons, ge(m, 1))
            occ0 = False
            for g in s.ghost:
                if g[0] == 'strcmp':
                    (ra, pa, la), (rb, pb, lb), r = g[1:]
                    if ra == other_r:
                        (ra, pa, la), (rb, pb, lb) = (rb, pb, lb), (ra, pa, la)
                    if ra == this_r and rb == other_r and eqv(s, r, lin(0)) and eqv(s, pa, lin(0)) and \
                            eqv(s, pb, lin(0)) and eqv(s, la, n) and eqv(s, lb, n):
                        occ0 = True
                elif g[0] == 'sfind' and g[2] == 'this.mWord' and g[3] == other + '.mWord' and g[5] is not None and \
                        eqv(s, g[5], lin(0)):
                    occ0 = True
            ok = ok and occ0
            why = 'returns true without establishing that the other key is a non-empty prefix'
        elif falsy:
            # must imply that the prefix relation does not hold for any content consistent with the path
            ok = not sat(s.cons + [ge(n, 1), ge(m, 1), le(n, m)])      # an empty word or n > m
            for g in s.ghost:
                if g[0] == 'strcmp':
                    (ra, pa, la), (rb, pb, lb), r = g[1:]
                    if ra == other_r:
                        (ra, pa, la), (rb, pb, lb) = (rb, pb, lb), (ra, pa, la)
                    differs = entails(s.cons, lt(r, 0)) or entails(s.cons, gt(r, 0))
                    if ra == this_r and rb == other_r and differs and eqv(s, pa, lin(0)) and eqv(s, pb, lin(0)) and \
                            eqv(s, lb, n) and (eqv(s, la, n) or entails(s.cons, lt(la, n))):
                        ok = True      # the first n characters differ, or this word is shorter than the other
                elif g[0] == 'sfind' and g[2] == 'this.mWord' and g[3] == other + '.mWord':
                    kind, pos, k = g[1], g[4], g[5]
                    if kind == 'find' and eqv(s, pos, lin(0)) and (k is None or entails(s.cons, ge(k, 1))):
                        ok = True      # the first occurrence is not at 0
                    if kind == 'rfind' and k is None:
                        ok = True      # no occurrence at any position <= pos, in particular not at 0
            why = 'returns false although the other key may be a non-empty prefix'
        else:
            ok = False
            why = 'the result is not decided on the path'
        chk.check(ok, 'R4', f.name, 'startsWith( other) is true exactly when other is a non-empty prefix of this long '
                  'key', f.loc(), '' if ok else '%s: path [%s]' % (why, '; '.join(s.trail[-6:])))
    chk.require(count >= 2, 'startsWith: only %d decided paths' % count)


def key_containers(prog):
    c = prog.classes.get('celma::prog_args::Handler')
    if not c:
        raise AnalysisBroken('class Handler not found')
    return [f['name'] for f in c['fields'] if f['t'].endswith('detail::ArgumentContainer')]


def r5_one_key_space(chk, prog):
    """A handler keeps its keys in more than one container (normal arguments, sub-group arguments).  'Within one
    handler a key designates at most one argument' therefore needs (a) every addition to one container to be checked
    against the others, (b) a lookup never to use an abbreviation match of one container without consulting the
    others: an exact match elsewhere wins, another abbreviation is ambiguous."""
    conts = key_containers(prog)
    chk.require(len(conts) >= 2, 'key containers of Handler: %s' % conts)
    handler_fns = [f for f in prog.functions if f.classq == 'celma::prog_args::Handler' and f.body is not None]
    # (a) definition
    n_add = 0
    for f in handler_fns:
        for c in f.calls():
            if not (callee_is(c, 'addArgument') and 'ArgumentContainer' in c.get('callee', '')):
                continue
            own = field_name(object_of(c))
            if own not in conts:
                continue
            n_add += 1
            cfg = f.cfg
            pos = cfg.position(c)
            for other in conts:
                if other == own:
                    continue

                def is_mix(n, own=own, other=other):
                    if n.get('k') not in CALL_KINDS or not callee_is(n, 'checkArgMix'):
                        return False
                    fields = {field_name(object_of(n))} | {field_name(a) for a in call_args(n)}
                    return own in fields and other in fields
                bad = cfg.can_reach_exit((pos[0], pos[1] + 1), lambda p, e: isinstance(e, int) and
                                         f.node(e) is not None and is_mix(f.node(e)))
                chk.check(not bad, 'R5', f.name, 'an argument added to %s is checked against the keys in %s on every '
                          'path' % (own, other), f.loc(c), 'a return is reachable without checkArgMix between the two '
                          'containers')
    chk.require(n_add >= 2, 'additions to the key containers found: %d' % n_add)
    # ... and the check itself refuses equal keys AND contradicting short/long pairs (rule body shared with C08-R3)
    from . import c08 as _c08
    _c08.r3_check_arg_mix(chk, prog, rule='R5')
    # (b) lookup
    r5_lookup_table(chk, prog, handler_fns, conts)


class _Dispatch(Exception):
    def __init__(self, token):
        self.token = token


def r5_lookup_table(chk, prog, handler_fns=None, conts=None, rule='R5'):
    """Handler::processArg(): which argument a key is dispatched to, for EVERY combination of what the key containers
    of the handler hold for that key - nothing / an argument with exactly this key / one argument it abbreviates /
    several arguments it abbreviates.  The lookup code is evaluated abstractly (Engine B) with the container lookups
    replaced by their contract (findArg: exact match, else the single abbreviation match, else null; throws when
    the abbreviation is ambiguous; an exact-only lookup: exact match or null) up to the first dispatch
    (handleIdentifiedArg), throw or return.  Expected: an exact key always selects its own argument; otherwise one
    abbreviation match in total selects that argument, none is 'unknown', more than one is an exception."""
    if conts is None:
        conts = key_containers(prog)
        handler_fns = [f for f in prog.functions if f.classq == 'celma::prog_args::Handler' and f.body is not None]
    fs = [f for f in handler_fns if f.short == 'processArg']
    chk.require(len(fs) == 1, 'Handler::processArg not found')
    f = fs[0]
    finds = [c for c in f.calls() if callee_is(c, 'findArg') and field_name(object_of(c)) in conts]
    chk.require(len(finds) >= 2, 'processArg: lookups in the key containers: %d' % len(finds))
    # the contract of the container lookups is what C05-R2 decides for findArg(); any other lookup function used
    # here must be an exact-only search: key comparison, no prefix test, no throw
    exact_only = set()
    for c in f.calls():
        o = object_of(c)
        if o is None or field_name(o) not in conts or callee_is(c, 'findArg'):
            continue
        g = prog.by_key.get(c.get('ckey'), [None])[0]
        if g is None or g.body is None:
            raise AnalysisBroken('processArg calls %s on a key container; its body is not available' % c.get('callee'))
        if g.d.get('const') and not any(True for _ in cond_blocks_with(g.cfg, is_key_eq)):
            continue            # not a lookup (empty(), ...)
        if not g.d.get('const'):
            raise AnalysisBroken('processArg calls the non-const %s on a key container' % c.get('callee'))
        pure = not any(x.get('k') == 'CXXThrowExpr' for x in g.walk()) and \
            not any(callee_is(x, 'ArgumentKey::startsWith') for x in g.calls())
        if not pure:
            raise AnalysisBroken('lookup %s is neither findArg() nor an exact-only search' % c.get('callee'))
        exact_only.add(g.short)
    en = prog.enums.get('celma::prog_args::Handler::ArgResult')
    chk.require(en is not None, 'enum Handler::ArgResult not found')
    res_vals = {e['name']: e['val'] for e in en['enumerators']}
    vm = [e for q, e in prog.enums.items() if q.endswith('::ValueMode')]
    chk.require(vm, 'enum ValueMode not found')
    vm_none = {e['name']: e['val'] for e in vm[0]['enumerators']}['none']
    order = sorted(conts)
    STATES = ('none', 'exact', 'abbrev', 'ambiguous')
    n = 0
    for combo in itertools.product(STATES, repeat=len(order)):
        if combo.count('exact') > 1:
            continue            # refused at definition time (part (a) and C05-R1)
        state = dict(zip(order, combo))
        token = {c: 10 * (i + 1) for i, c in enumerate(order)}      # +1 exact match, +2 abbreviation match

        def cont_of(call):
            return field_name(object_of(call))

        def cb_find(it, call):
            st = state[cont_of(call)]
            if st == 'none':
                return 0
            if st == 'ambiguous':
                raise Throw('ambiguous')
            return token[cont_of(call)] + (1 if st == 'exact' else 2)

        def cb_exact(it, call):
            return token[cont_of(call)] + 1 if state[cont_of(call)] == 'exact' else 0

        def cb_key(it, call):
            o = object_of(call)
            v = it.ev_obj(o) if o is not None else 0
            return 1 if v % 10 == 1 else 2          # 1 = the key looked for

        def cb_dispatch(it, call):
            raise _Dispatch(it.ev_obj(call_args(call)[0]))

        cbs = {'findArg': cb_find, 'key': cb_key, 'handleIdentifiedArg': cb_dispatch,
               'valueMode': lambda it, call: vm_none}
        for name in exact_only:
            cbs[name] = cb_exact
        it = Interp(f, {'key': 1, 'this.mpLastArg': 0}, callbacks=cbs, prog=None)
        try:
            out = it.run(f.body)
        except _Dispatch as d:
            out = ('dispatch', d.token)
        except (NeedAtom, Unsupported) as e:
            raise AnalysisBroken('processArg lookup logic not interpretable for %s: %s' % (state, getattr(
                e, 'key', e)))
        exact = [c for c in order if state[c] == 'exact']
        nabbr = sum({'abbrev': 1, 'ambiguous': 2}.get(state[c], 0) for c in order)
        if exact:
            want = ('dispatch', token[exact[0]] + 1)
        elif nabbr == 0:
            want = ('return', res_vals.get('unknown'))
        elif nabbr == 1:
            want = ('dispatch', [token[c] + 2 for c in order if state[c] == 'abbrev'][0])
        else:
            want = ('throw', None)
        ok = out[0] == want[0] and (want[0] == 'throw' or out[1] == want[1])
        n += 1

        def show(o):
            if o[0] == 'dispatch':
                c = [c for c in order if token[c] == o[1] - o[1] % 10]
                return 'dispatches the %s match of %s' % ('exact' if o[1] % 10 == 1 else 'abbreviation', c[0] if c else o[1])
            if o[0] == 'throw':
                return 'throws'
            return 'returns %s' % {v: k for k, v in res_vals.items()}.get(o[1], o[1])
        chk.check(ok, rule, f.name, 'key lookup over both containers [%s]: %s' % (
            ', '.join('%s: %s' % (c, state[c]) for c in order), show(want)), f.loc(),
            'processArg %s' % show(out))
    chk.require(n >= 12, 'lookup combinations evaluated: %d' % n)


def r7_two_part_spec(chk, prog, rule='R7'):
    """ArgumentKey( "a,bcd") / ( "bcd,a"): in every branch of the two-part case the short key is the character of the
    part that the branch condition knows to be one character long, and the long key is the OTHER part; the two parts
    are cut out in front of and behind the separator."""
    fs = [f for f in prog.functions if (f.classq or '') == 'celma::prog_args::detail::ArgumentKey' and f.d.get('ctor')
          and f.params and 'basic_string' in f.params[0]['t']]
    chk.require(len(fs) == 1, 'ArgumentKey( const std::string&) not found')
    f = fs[0]
    cfg = f.cfg

    def local_string(n):
        n = strip_all_casts(n)
        if n.get('k') == 'DeclRefExpr' and n['ref'].get('sto') == 'local' and 'basic_string' in (n['ref'].get('dt') or ''):
            return n['ref'].get('name')
        return None
    # the two parts: local strings initialised from substr() of the specification
    parts = {}
    for ds in (x for x in f.walk() if x.get('k') == 'DeclStmt'):
        for d in ds.get('decls', []):
            init = d.get('init')
            if isinstance(init, dict) and 'basic_string' in (d.get('t') or ''):
                sub = [c for c in walk(init) if c.get('k') in CALL_KINDS and callee_is(c, 'substr')]
                if sub:
                    a = call_args(sub[0])
                    first = strip_all_casts(a[0]) if a else {}
                    parts[d['name']] = 'front' if (first.get('k') == 'IntegerLiteral' and first.get('val') == 0) \
                        else 'behind'
    chk.require(len(parts) == 2, 'two-part specification: parts found: %s' % sorted(parts))
    chk.check(sorted(parts.values()) == ['behind', 'front'], rule, f.name, 'the two parts are the text in front of and '
              'behind the separator', f.loc(), '%s' % parts)

    def one_char_guards(pos):
        """names of the parts known to be exactly one character long at pos"""
        g = set()
        for bid, cond in cfg.cond_blocks():
            c = strip_all_casts(cond) if cond else None
            if not c or c.get('k') != 'BinaryOperator' or c.get('op') != '==':
                continue
            l, r = (strip_all_casts(x) for x in children(c))
            if r.get('k') in CALL_KINDS:
                l, r = r, l
            if l.get('k') in CALL_KINDS and (callee_is(l, 'length') or callee_is(l, 'size')) and \
                    r.get('k') == 'IntegerLiteral' and r.get('val') == 1 and cfg.guarded_by_edge(pos, bid, 0):
                nm = local_string(object_of(l))
                if nm:
                    g.add(nm)
        return g
    n = 0
    chars, words = [], []
    for x in f.walk():
        if x.get('k') == 'BinaryOperator' and x.get('op') == '=' and field_name(children(x)[0]) == 'mChar':
            r = strip_all_casts(children(x)[1])
            if r.get('k') == 'CXXOperatorCallExpr' and r.get('op') == '[]' and local_string(call_args(r)[0]) in parts:
                chars.append((x, local_string(call_args(r)[0]), strip_all_casts(call_args(r)[1])))
        if x.get('k') == 'CXXOperatorCallExpr' and x.get('op') == '=' and field_name(call_args(x)[0]) == 'mWord':
            nm = local_string(call_args(x)[1])
            if nm in parts:
                words.append((x, nm))
    chk.require(len(chars) >= 2 and len(words) >= 2, 'two-part specification: stores of the short/long key: %d/%d' % (
        len(chars), len(words)))
    for x, nm, idx in chars:
        g = one_char_guards(cfg.position(x))
        n += 1
        chk.check(nm in g and idx.get('k') == 'IntegerLiteral' and idx.get('val') == 0, rule, f.name,
                  'the short key is the character of the part that is one character long', f.loc(x),
                  'takes %s[ %s], known to be one character long here: %s' % (nm, idx.get('val'), sorted(g) or 'none'))
    for x, nm in words:
        g = one_char_guards(cfg.position(x))
        n += 1
        chk.check(bool(g) and nm not in g, rule, f.name, 'the long key is the other part', f.loc(x),
                  'takes %s, the one-character part here: %s' % (nm, sorted(g) or 'none'))
    return n


def r6_key_parsing(chk, prog):
    """ArgumentKey( "spec") without a comma: the key text is the specification with its LEADING dashes removed - for
    every specification text.  Engine C evaluates the constructor with symbolic characters; on every path that stores
    the key (mChar = spec[ k] or mWord = spec.substr( k)) the characters in front of position k must all be known
    dashes and k is at most 2 (a dash further inside the text, as in "x-ray", belongs to the key)."""
    from ..bounds import Engine, Obj, St, Ptr
    from ..lin import Lin, lin, ge, le, lt, gt, eq, entails
    fs = [f for f in prog.functions if (f.classq or '') == 'celma::prog_args::detail::ArgumentKey' and f.d.get('ctor')
          and f.params and 'basic_string' in f.params[0]['t']]
    chk.require(len(fs) == 1, 'ArgumentKey( const std::string&) not found')
    f = fs[0]
    eng = Engine(prog, {'track_reads': True, 'track_content': True, 'inline': ('celma::prog_args::detail::',),
                        'inline_depth': 1, 'cstring_elems': True})
    eng.root = f.name
    st = St()
    for p in f.params:
        eng.bind_param(st, f, p)
    spec = f.params[0]['name']
    region = spec + '.data'
    # a specification is a text without embedded NUL characters: a non-zero character lies below its length
    st.fields[(region, 'strlen')] = eng.string_len(st, spec)
    st.fields[('this', 'mChar')] = lin(0)
    finals = eng.run_ctor(f, st, [st.vars[spec]])
    DASH = 45

    def char_at(s, k):
        """what the path knows about spec[ k]: 'dash' / 'other' / None"""
        for g in s.ghost:
            if g[0] == 'elem' and g[1].region == region and entails(s.cons, ge(g[1].off, k)) and \
                    entails(s.cons, le(g[1].off, k)):
                v = g[2]
                if entails(s.cons, ge(v, DASH)) and entails(s.cons, le(v, DASH)):
                    return 'dash'
                if entails(s.cons, lt(v, DASH)) or entails(s.cons, gt(v, DASH)):
                    return 'other'
        return None
    n_store = 0
    bad = None
    n_throw = 0
    for s in finals:
        if s.status == 'throw' and char_at(s, 0) is not None and not any(
                t.startswith('find') and 'finds a position' in t for t in s.trail):
            # rejected after looking at the first characters (no comma in the text): only "too many dashes"
            n_throw += 1
            lead = [char_at(s, j) for j in range(3)]
            if lead != ['dash', 'dash', 'dash']:
                bad = bad or 'a specification whose first characters are %s is rejected; path [%s]' % (
                    lead, '; '.join(s.trail[-6:]))
            continue
        if s.status not in ('normal', 'return'):
            continue
        # which position of the specification became the key?
        k = None
        mc = s.fields.get(('this', 'mChar'))
        if isinstance(mc, Lin) and not mc.is_const():
            for g in s.ghost:
                if g[0] == 'elem' and g[1].region == region and g[2] is mc:
                    k = g[1].off
        if k is None:
            for e in reversed(s.wlog):
                if e[0] == 'copy' and isinstance(e[2], Ptr) and e[2].region == region:
                    k = e[2].off
                    break
        if k is None:
            continue            # the comma form (sub-strings parsed by remove_dashes) or no store
        if not (isinstance(k, Lin) and k.is_const()):
            continue            # the comma form: position relative to the separator
        n_store += 1
        kk = int(k.c)
        front = [char_at(s, j) for j in range(kk)]
        if kk > 2 or any(c != 'dash' for c in front):
            bad = bad or 'the key starts at position %d although the characters before it are %s; path [%s]' % (
                kk, front, '; '.join(s.trail[-6:]))
        elif char_at(s, kk) == 'dash':
            bad = bad or 'the key starts with a dash at position %d; path [%s]' % (kk, '; '.join(s.trail[-6:]))
    chk.require(n_store >= 6, 'ArgumentKey( string): only %d storing paths analysed' % n_store)
    chk.check(bad is None, 'R6', f.name, 'a key specification without comma: exactly its leading dashes (at most two) '
              'are removed, for every text', f.loc(), bad or '')


def r8_object_carries_its_key(chk, prog):
    """The key is stored twice: in the container (lookup) and in the argument object (TypedArgBase::key(), used by
    processArg() to tell an exact match from an abbreviation, by the constraints and in messages).  Every path that
    stores an object in a key container of the handler gives the object the SAME key: a setKey( key) on the object
    dominates the store, or the object was created by `new T( key, ...)` whose constructor passes that parameter to
    setKey() unconditionally.  Otherwise the exact key of the argument is taken for an abbreviation."""
    n = 0
    for f in prog.functions:
        if f.classq != 'celma::prog_args::Handler' or f.body is None:
            continue
        cfg = None
        for c in f.calls_to('ArgumentContainer::addArgument'):
            a = call_args(c)
            if len(a) < 2:
                continue
            obj = strip_all_casts(a[0])
            key = strip_all_casts(a[1])
            if obj.get('k') != 'DeclRefExpr' or key.get('k') != 'DeclRefExpr':
                raise AnalysisBroken('%s: arguments of addArgument are not plain variables' % f.key)
            n += 1
            cfg = cfg or f.cfg
            oname, kname = obj['ref'].get('name'), key['ref'].get('name')
            ok = False
            for sk in f.calls_to('TypedArgBase::setKey'):
                o = object_of(sk)
                ka = strip_all_casts(call_args(sk)[0])
                if o is not None and o.get('k') == 'DeclRefExpr' and o['ref'].get('name') == oname and \
                        ka.get('k') == 'DeclRefExpr' and ka['ref'].get('name') == kname and cfg.node_dominates(sk, c):
                    ok = True
            if not ok:
                # created here with the key?
                for d_ in f.walk():
                    if d_.get('k') != 'DeclStmt':
                        continue
                    for d in d_.get('decls', []):
                        if d.get('name') != oname or not isinstance(d.get('init'), dict):
                            continue
                        for ce in walk(d['init']):
                            if ce.get('k') != 'CXXConstructExpr' or not ce.get('callee'):
                                continue
                            cargs = children(ce)
                            idx = [i for i, x in enumerate(cargs) if strip_all_casts(x).get('k') == 'DeclRefExpr' and
                                   strip_all_casts(x)['ref'].get('name') == kname]
                            ctors = [g for g in prog.functions if g.key.split('(')[0] == ce['callee'] and
                                     g.body is not None and len(g.params) == len(cargs)]
                            for g in ctors:
                                for i in idx:
                                    pn = g.params[i]['name']
                                    gcfg = g.cfg
                                    for sk in g.calls_to('TypedArgBase::setKey'):
                                        ka = strip_all_casts(call_args(sk)[0])
                                        if ka.get('k') == 'DeclRefExpr' and ka['ref'].get('name') == pn and \
                                                not gcfg.can_reach_exit(gcfg.entry_pos(), lambda p_, e, sk=sk: e == sk['id']):
                                            ok = True
            chk.check(ok, 'R8', f.name, 'the object stored under a key carries that key (setKey before the store, or '
                      'set by the constructor it was created with)', f.loc(c),
                      'TypedArgBase::key() of the stored object stays the default key: its exact key is handled as an '
                      'abbreviation by processArg()')
    chk.require(n >= 2, 'stores into a key container of Handler: %d' % n)


def run(chk):
    prog, units = rules.prog_args_program()
    chk.units = units
    chk.explanation = (
        'Add-time refusal and lookup structure decided on the CFG of Storage<>::addArgument (every instantiation) '
        'and ArgumentContainer::findArg: per-iteration must-pass-through of both key comparisons, positive '
        'comparisons end in throw, the store is unreachable without the loop, no exit from the search loop before '
        'every argument was compared exactly, prefix matching guarded by the abbreviation flag, ambiguity throws; '
        'plus exhaustive truth tables (Engine B) of ArgumentKey::operator== and mismatch() over all '
        'assignments of empty/equal/different short and long keys; ArgumentKey::startsWith is proved to be exactly the '
        'non-empty-prefix predicate from the meaning of the std::string operation it is based on (Engine C observation '
        'facts); the key-specification parser: exactly the leading dashes are removed (Engine C), and in the two-part form the '
        'short key is taken from the part known to be one character long, the long key from the other part.')
    chk.assumptions = ['std::vector/std::string behave as documented']
    chk.rule('R1', 'duplicate / contradicting keys are refused when an argument is added', 10)
    chk.rule('R2', 'lookup: exact match wins, abbreviation only if enabled, ambiguity throws', 4)
    chk.rule('R3', 'key algebra of operator== / mismatch()', 3)
    chk.rule('R4', 'startsWith() is exactly the non-empty-prefix predicate on the long keys', 2)
    r1(chk, prog)
    r2(chk, prog)
    r3(chk, prog)
    r4_prefix(chk, prog)
    chk.rule('R5', 'the key containers of a handler form one key space (definition and lookup)', 3)
    r5_one_key_space(chk, prog)
    chk.rule('R6', 'key parsing removes exactly the leading dashes', 1)
    r6_key_parsing(chk, prog)
    chk.rule('R7', 'two-part key specification: short key from the one-character part, long key from the other', 5)
    r7_two_part_spec(chk, prog)
    chk.rule('R8', 'an argument object carries the key it is stored under', 2)
    r8_object_carries_its_key(chk, prog)
