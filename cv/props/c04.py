"""C04 — Argument evaluation is memory-safe for every argument vector and source.

R1 C-string copy capacity (Engine C): for every strcpy( d, s) in the library the region of d has
   room for strlen( s) + 1 bytes
R2 allocation / deallocation form agreement: new T[] is owned by unique_ptr< T[]> / released with
   delete[], scalar new by the scalar form
R3 generated argv capacity (Engine C, counting loop): both ArgString2Array constructors and
   copyArguments() stay inside  new char*[ n + k]  (program name, n words, terminating nullptr)
R4 exception types: every throw reachable from the evaluation entry points is derived from
   std::exception; no re-throw outside a handler; no throw inside a noexcept function
R5 fixed-size destinations (shared with C06-R3): writes into T[N], std::array, std::bitset<N>,
   std::vector<bool> destinations are bounds-proved
R6 cursor of detail::ArgListIterator (c04_cursor.py): four-case inductive invariant relating the word
   index and the character position to argc and the per-word string lengths
NOT decided: termination."""
import os
import re

from .. import rules
from ..bounds import Engine, Ptr, Obj, Obligation, UNKNOWN, _ev_all, DEFAULT_MODELS
from ..lin import Lin, lin, ge, le, lt, gt, eq, entails
from ..cfg import call_closure, call_path
from ..facts import VERIF, load_program, library_units, units_matching, children, strip_all_casts, walk, \
    CALL_KINDS, AnalysisBroken
from ..rules import callee_is, call_args, field_name, object_of, mentions_var
from ..report import Check


# ---------------------------------------------------------------- Engine C configuration for prog_args

def m_array_index(eng, n, st, func, want):
    """std::array<T,N>::operator[] / at, std::bitset<N>::operator[] / set / test / reset: index < N"""
    callee = n.get('callee', '')
    m = re.match(r'std::(?:array<.*, (\d+)>|bitset<(\d+)>)::(operator\[\]|set|reset|flip)$', callee)
    if not m:
        return None
    cap = int(m.group(1) or m.group(2))
    objn, args = eng.args_of(n)
    real = [a for a in args if not a.get('defarg')]
    if not real:
        return None          # set() / reset() without position
    out = []
    for vals, s1 in _ev_all(eng, real[:1], st, func):
        idx = vals[0]
        what = 'position in %s is below its capacity %d' % (callee.split('::')[1].split('<')[0], cap)
        if isinstance(idx, Lin):
            eng.oblige(s1, [ge(idx, 0), le(idx, cap - 1)], 'bounds', what, n, func, 'index %r;' % idx)
        else:
            eng.obligations.append(Obligation(eng.root, 'bounds', what, False, func.loc(n), 'untracked index'))
        out.append((UNKNOWN, s1))
    return out


def m_lexical_cast(eng, n, st, func, want):
    """boost::lexical_cast<T>( str): any value of T"""
    t = n.get('t')
    from ..bounds import btype, UBITS, SBITS
    if btype(t) in UBITS or btype(t) in SBITS:
        return [(eng.fresh('converted', st, t), st)]
    return [(UNKNOWN, st)]


def m_getenv(eng, n, st, func, want):
    """getenv(): a null pointer or a NUL-terminated string"""
    a = st.copy()
    b = st.copy()
    name = 'getenv@%s#%d' % (n['id'], next(eng.counter))
    eng.bind_cstring(b, name)
    v = b.vars.pop(name)
    a.trail.append('getenv() == nullptr')
    b.trail.append('getenv() != nullptr')
    return [(lin(0), a), (v, b)]


def m_basename(eng, n, st, func, want):
    """basename( p): a pointer into p (the GNU/POSIX version may modify p in place)"""
    objn, args = eng.args_of(n)
    out = []
    for (p,), s1 in _ev_all(eng, args[:1], st, func):
        if isinstance(p, Ptr):
            # reads the string at p up to its terminator
            base = s1.fields.get((p.region, 'strlen'))
            if base is None:
                eng.obligations.append(Obligation(eng.root, 'bounds', 'basename() argument is NUL-terminated inside '
                                                  'its buffer', False, func.loc(n), 'no terminator known in ' + p.region))
        out.append((UNKNOWN, s1))
    return out


def prog_invariants(eng, st, func, obj='this'):
    res = []
    cls = func.cls or ''
    m = re.match(r'celma::prog_args::detail::TypedArg<(.*)\[(\d+)\]>$', cls) or \
        re.match(r'celma::prog_args::detail::TypedArg<std::array<(.*), (\d+)>>$', cls)
    if m:
        n = int(m.group(2))
        idx = eng.load(('field', obj, 'mIndex'), st, None, func, 'unsigned long')
        res.append(('fill index of the fixed-size destination mIndex <= N', [ge(idx, 0), le(idx, n)], None))
    return res


def make_engine(prog):
    models = {'std::array<*': m_array_index, 'std::bitset<*': m_array_index,
              'boost::lexical_cast': m_lexical_cast, 'getenv': m_getenv, 'basename': m_basename,
              '__xpg_basename': m_basename}
    cfg = {'invariants': prog_invariants, 'models': models, 'inline_depth': 4,
           'inline': ('celma::appl::', 'celma::prog_args::detail::TypedArg<')}
    eng = Engine(prog, cfg)
    return eng


# ---------------------------------------------------------------- rules

def r1_r3(chk, prog, eng):
    roots = []
    for f in prog.functions:
        if f.classq == 'celma::appl::ArgString2Array' and f.d.get('ctor') and f.params and \
                'basic_string' in f.params[0]['t']:
            roots.append((f, 'R3'))
        if f.classq == 'celma::prog_args::Handler' and f.short in ('readEvalFileArguments', 'checkReadEnvVarArgs'):
            roots.append((f, 'R1'))
    chk.require(len(roots) >= 4, 'strcpy / argv roots: %d found' % len(roots))
    n_strcpy = 0
    for f, rule in roots:
        before = len(eng.obligations)
        if f.d.get('ctor'):
            # a constructor is analysed as a function body on a fresh object
            eng.root = f.name
            from ..bounds import St
            st = St()
            for p in f.params:
                eng.bind_param(st, f, p)
            st.fields[('this', '$new')] = lin(1)
            finals = eng.run_ctor(f, st, [st.vars[p['name']] for p in f.params])
        else:
            eng.analyse(f)
        for o in eng.obligations[before:]:
            if o.kind == 'dealloc':
                continue        # reported under R2
            if 'strcpy' in o.what:
                n_strcpy += 1
            r = 'R1' if 'strcpy' in o.what or rule == 'R1' else 'R3'
            sig = '%s(%s)' % (f.short, ', '.join(p['t'].replace('std::basic_string<char, std::char_traits<char>, '
                                                                'std::allocator<char>>', 'string') for p in f.params))
            chk.check(o.held, r, f.name, '%s [%s]' % (o.what, sig), o.where, o.detail)
    # every strcpy of the library must have been reached by the analysis
    sites = 0
    for f in prog.functions:
        if '/library/' in f.file and '/test' not in f.file:
            sites += sum(1 for c in f.calls() if callee_is(c, 'strcpy'))
    chk.check(n_strcpy >= sites, 'R1', 'library', 'every strcpy() call site of the analysed units is covered by a bounds '
              'obligation (%d sites)' % sites, '', '%d strcpy obligations for %d call sites' % (n_strcpy, sites))


def r2_forms(chk, prog, eng):
    n = 0
    for f in prog.functions:
        if '/src/' not in f.file or '/test' in f.file:
            continue
        for x in f.walk():
            if x.get('k') == 'CXXNewExpr':
                p = f.parent(x)
                while p is not None and p.get('k') in ('ImplicitCastExpr',):
                    p = f.parent(p)
                if p is not None and p.get('k') in ('CXXConstructExpr', 'CXXTemporaryObjectExpr') and \
                        'unique_ptr<' in p.get('callee', ''):
                    n += 1
                    owner = p['callee'].split('unique_ptr<')[1].split(',')[0]
                    arr_owner = owner.rstrip().endswith('[]')
                    ok = bool(x.get('array')) == arr_owner
                    chk.check(ok, 'R2', f.name, 'new%s is owned by a unique_ptr of the matching form' % (
                        '[]' if x.get('array') else ''), f.loc(x),
                        'std::unique_ptr<%s> releases with delete%s what was allocated with new%s' % (
                            owner, '[]' if arr_owner else '', '[]' if x.get('array') else ''))
    # ArgString2Array: array new everywhere, array delete everywhere
    news, dels = [], []
    for f in prog.functions:
        if f.classq == 'celma::appl::ArgString2Array' or f.name.startswith('celma::appl::(anonymous namespace)::'):
            for x in f.walk():
                if x.get('k') == 'CXXNewExpr':
                    news.append((f, x))
                elif x.get('k') == 'CXXDeleteExpr':
                    dels.append((f, x))
    chk.require(len(news) >= 4 and len(dels) >= 2, 'ArgString2Array allocation sites not found')
    for f, x in news:
        chk.check(bool(x.get('array')), 'R2', f.name, 'argv storage is allocated with new[]', f.loc(x))
    for f, x in dels:
        chk.check(bool(x.get('array')), 'R2', f.name, 'argv storage is released with delete[]', f.loc(x))
    # ... and nothing else than new[] ever reaches the pointers that the destructor releases with delete[]: every
    # store of a pointer into the argv array (or of the array itself) has an array-new as right-hand side
    stores = 0
    for f in prog.functions:
        if not (f.classq == 'celma::appl::ArgString2Array' or
                f.name.startswith('celma::appl::(anonymous namespace)::')):
            continue
        for x in f.walk():
            if x.get('k') != 'BinaryOperator' or x.get('op') != '=':
                continue
            lhs, rhs = children(x)
            lt_ = (lhs.get('t') or '').replace(' ', '')
            if lt_ not in ('char*', 'char**'):
                continue
            stores += 1
            r0 = strip_all_casts(rhs)
            ok = (r0.get('k') == 'CXXNewExpr' and bool(r0.get('array'))) or \
                r0.get('k') in ('CXXNullPtrLiteralExpr', 'GNUNullExpr') or \
                (r0.get('k') == 'MemberExpr' and r0.get('ref', {}).get('name') == 'mpArgV')     # ownership transfer
            what = r0.get('callee') or r0.get('k')
            chk.check(ok, 'R2', f.name, 'a pointer stored into the argv storage comes from new[] (it is released with '
                      'delete[])', f.loc(x), 'the stored pointer comes from %s' % what)
    chk.require(stores >= 4, 'stores into the argv storage found: %d' % stores)
    return n


def exception_rule(chk, prog, closure, rule):
    nfail = 0
    for key, (f, parent) in sorted(closure.items()):
        for x in f.walk():
            if x.get('k') != 'CXXThrowExpr':
                continue
            path = ' <- '.join(reversed(call_path(closure, key)[-3:]))
            if x.get('rethrow'):
                inside = any(a.get('k') == 'CXXCatchStmt' for a in f.ancestors(x))
                if not inside:
                    nfail += 1
                chk.check(inside, rule, f.name, 're-throw only inside a handler', f.loc(x), 'reached via ' + path)
                continue
            ok = bool(x.get('stdexc'))
            if not ok:
                nfail += 1
            chk.check(ok, rule, f.name, 'thrown type %s is derived from std::exception' % x.get('tt'), f.loc(x),
                      'reached via ' + path)
            if f.d.get('noexcept'):
                in_try = any(a.get('k') == 'CXXTryStmt' for a in f.ancestors(x))
                if not in_try:
                    nfail += 1
                chk.check(in_try, rule, f.name, 'no throw escapes from a noexcept function', f.loc(x),
                          'std::terminate() instead of an exception; reached via ' + path)
    # ... nor indirectly: a noexcept function of the repository does not call (outside a try block) a repository
    # function from which an exception can escape - may-throw is the least fixpoint over the repository functions of
    # the closure ('contains a throw expression outside try' or 'calls such a function outside try'); library
    # functions are not considered (std::bad_alloc is outside the statement)
    def repo(f):
        return '/src/celma/' in f.file or '/src/library/' in f.file

    def outside_try(f, x):
        return not any(a.get('k') == 'CXXTryStmt' for a in f.ancestors(x))
    funcs = {key: f for key, (f, _) in closure.items() if repo(f) and f.body is not None}
    may = {key for key, f in funcs.items() if not f.d.get('noexcept') and any(
        x.get('k') == 'CXXThrowExpr' and not x.get('rethrow') and outside_try(f, x) for x in f.walk())}
    changed = True
    while changed:
        changed = False
        for key, f in funcs.items():
            if key in may or f.d.get('noexcept'):
                continue
            if any(c.get('ckey') in may and outside_try(f, c) for c in f.calls()):
                may.add(key)
                changed = True
    for key, f in sorted(funcs.items()):
        if not f.d.get('noexcept') or f.short.startswith('~'):
            continue
        for c in f.calls():
            if c.get('ckey') in may and outside_try(f, c):
                nfail += 1
                chk.check(False, rule, f.name, 'no exception escapes from a noexcept function', f.loc(c),
                          'calls %s, which can throw: std::terminate() instead of an exception; reached via %s' % (
                              (c.get('callee') or '?').split('(')[0][-80:], ' <- '.join(reversed(call_path(closure, key)[-3:]))))
    return nfail


def r4_exceptions(chk, prog):
    roots = [f for f in prog.functions if
             (f.classq == 'celma::prog_args::Handler' and f.short in ('evalArguments', 'evalArgumentsErrorExit')) or
             (f.classq == 'celma::prog_args::Groups' and f.short in ('evalArguments', 'evalArgumentsErrorExit')) or
             f.name == 'celma::prog_args::evalArgumentString' or
             (f.classq == 'celma::appl::ArgString2Array')]
    chk.require(len(roots) >= 5, 'evaluation entry points: %d' % len(roots))
    closure = call_closure(prog, roots)
    chk.require(len(closure) >= 300, 'call-graph closure of the evaluation entry points has only %d functions'
                % len(closure))
    exception_rule(chk, prog, closure, 'R4')
    chk.samples.append({'R4_closure_functions': len(closure)})
    # positive control
    ctl = os.path.join(VERIF, 'controls', 'throw_int.cpp')
    cprog = load_program([ctl], extra_roots=[os.path.join(VERIF, 'controls')])
    entry = [f for f in cprog.functions if f.name == 'verif_control::entry']
    chk.require(entry, 'control unit not extracted')
    probe = Check(chk.pid, chk.tier)
    probe._known = []
    exception_rule(probe, cprog, call_closure(cprog, entry), 'R4')
    got = {f['function'] for f in probe.failures}
    want = {'verif_control::throws_int', 'verif_control::throws_struct', 'verif_control::rethrows_outside_handler',
            'verif_control::no_throw_promise'}
    chk.require(want <= got and 'verif_control::fine' not in got,
                'positive control for the exception rule: reported %s' % sorted(got))
    for w in sorted(want):
        chk.ok('CTL', w, 'control construct is reported by R4')


def r5_fixed_size(chk, prog, eng, rule='R5'):
    pats = (r'TypedArg<.*\[\d+\]>$', r'TypedArg<std::array<', r'TypedArg<std::bitset<', r'TypedArg<std::vector<bool')
    fs = [f for f in prog.functions if f.short == 'assign' and f.cls and
          any(re.search(p, f.cls) for p in pats)]
    chk.require(len(fs) >= 6, 'fixed-size destination assign() instantiations: %d' % len(fs))
    for f in sorted(fs, key=lambda x: x.cls):
        before = len(eng.obligations)
        eng.analyse(f)
        tag = f.cls.replace('celma::prog_args::detail::', '').replace(
            'std::basic_string<char, std::char_traits<char>, std::allocator<char>>', 'string')
        got = 0
        for o in eng.obligations[before:]:
            if o.kind in ('bounds', 'invariant'):
                got += 1
                chk.check(o.held, rule, f.name, '%s [%s]' % (o.what, tag), o.where, o.detail)
        chk.require(got >= 1, 'no bounds obligation was generated for %s' % f.key)


def r7_nullable_owners(chk, prog, rule='R7'):
    """no null dereference of an owning pointer member that may be empty: for every std::unique_ptr member of the
    argument classes that is tested for null somewhere (so the code itself believes it can be empty - e.g. the
    cardinality object can be removed with setCardinality( nullptr)), every operator-> / operator* on it is reachable
    only through an edge on which such a test said "not null" """
    from ..rules import implied_edges
    owners = {}
    for cn, c in prog.classes.items():
        if cn.startswith('celma::prog_args'):
            for fl in c['fields']:
                if fl['t'].startswith('std::unique_ptr<'):
                    owners.setdefault(fl['name'], cn)
    chk.require(owners, 'no std::unique_ptr members found in the argument classes')

    def make_atom(field):
        def mentions(n):
            return any(x.get('k') == 'MemberExpr' and x.get('ref', {}).get('name') == field for x in walk(n))

        def nonnull(c):
            c = strip_all_casts(c)
            while c.get('k') == 'ParenExpr':
                c = strip_all_casts(children(c)[0])
            k = c.get('k')
            if k == 'BinaryOperator' and c.get('op') == '!=':
                a, b = children(c)

                def zero(e):
                    e0 = strip_all_casts(e)
                    return e0.get('k') in ('CXXNullPtrLiteralExpr', 'GNUNullExpr') or e0.get('val') == 0 or \
                        e.get('cv') == 0
                return (mentions(a) and zero(b)) or (mentions(b) and zero(a))
            if k in CALL_KINDS and (c.get('callee') or '').endswith(('operator bool', 'operator!=')) and mentions(c):
                return True
            return k == 'MemberExpr' and c.get('ref', {}).get('name') == field
        return nonnull, mentions
    total = 0
    for field in sorted(owners):
        nonnull, mentions = make_atom(field)
        tested = 0
        sites = []
        for f in prog.functions:
            if f.body is None:
                continue
            ds = [x for x in f.walk() if x.get('k') in CALL_KINDS and 'unique_ptr' in (x.get('callee') or '') and
                  (x.get('callee') or '').split('::')[-1] in ('operator->', 'operator*') and mentions(x)]
            edges = implied_edges(f, nonnull, True)
            tested += len(edges)
            if ds:
                sites.append((f, ds, edges))
        if not tested:
            continue            # never tested for null anywhere: treated as always set
        seen_lines = set()
        for f, ds, edges in sites:
            cfg = f.cfg
            reach = cfg.reach(cfg.entry_pos(), blocked_edges=edges)
            for d in ds:
                key = (f.file, d.get('l'))
                if key in seen_lines:
                    continue        # instantiations of one template line
                seen_lines.add(key)
                total += 1
                chk.check(cfg.position(d) not in reach, rule, f.name, 'the possibly empty owner %s is dereferenced '
                          'only after a test that it is set' % field, f.loc(d),
                          'the dereference is reachable without passing a "not null" test of %s' % field)
    chk.require(total >= 5, 'dereferences of nullable owners found: %d' % total)
    return total


def r10_escaping_lambdas(chk, prog, rule='R10'):
    """no use after return: a callable that outlives the function that creates it (it is handed to a new-expression /
    returned / stored in a member - the argument handler keeps such callables until the evaluation) does not capture
    a local variable or a by-value parameter of that function by reference"""
    n = 0
    for f in prog.functions:
        if f.body is None or '/src/' not in f.file or '/test' in f.file:
            continue
        by_value = {p_['name'] for p_ in f.params if not (p_['t'] or '').rstrip().endswith('&')}
        locals_ = set()
        for x in f.walk():
            if x.get('k') == 'DeclStmt':
                for d in x.get('decls', []):
                    if not d.get('static') and not (d.get('t') or '').rstrip().endswith('&'):
                        locals_.add(d['name'])
        for x in f.walk():
            if x.get('k') != 'LambdaExpr':
                continue
            escapes = False
            p_ = f.parent(x)
            while p_ is not None and p_.get('k') not in ('CompoundStmt',):
                k = p_.get('k')
                if k in ('CXXNewExpr', 'ReturnStmt'):
                    escapes = True
                if k == 'BinaryOperator' and p_.get('op') == '=' and field_name(children(p_)[0]):
                    escapes = True
                if k == 'CXXOperatorCallExpr' and p_.get('op') == '=' and len(children(p_)) > 1 and \
                        field_name(children(p_)[1]):
                    escapes = True
                p_ = f.parent(p_)
            if not escapes:
                continue
            n += 1
            bad = [c_['name'] for c_ in x.get('captures', []) if c_.get('byref') and
                   c_.get('name') in (by_value | locals_)]
            chk.check(not bad, rule, f.name, 'a callable that outlives its creating function captures none of its '
                      'locals / by-value parameters by reference', f.loc(x),
                      'captured by reference: %s - the callable is evaluated after %s() has returned' % (
                          ', '.join(bad), f.short))
    chk.require(n >= 5, 'escaping callables in the analysed units: %d' % n)
    return n


def r8_stream_loops_terminate(chk, prog, rule='R8'):
    """evaluation terminates for every argument source: a loop that is driven by a read from an input stream ends at
    the first read that fails - at the end of the file AND when the stream goes bad (unreadable file, a directory
    given as argument file: eofbit is never set then).  The loop condition must be the success of the read
    (stream in a boolean context, !fail(), good()); '!eof()' or a disjunction that continues after a failed read
    is an endless loop for some input"""
    from ..rules import stream_read_in, stream_loop_condition, loops_in
    n = 0
    for f in prog.functions:
        if f.body is None or '/src/' not in f.file or '/test' in f.file:
            continue
        if not (f.name.startswith('celma::prog_args') or f.name.startswith('celma::appl')):
            continue
        for loop in loops_in(f):
            kids = loop.get('c', [])
            cond = kids[-2] if loop.get('k') == 'WhileStmt' else kids[1] if loop.get('k') == 'DoStmt' else \
                (kids[2] if loop.get('k') == 'ForStmt' and len(kids) > 2 else None)
            if not isinstance(cond, dict) or stream_read_in(cond) is None:
                continue
            n += 1
            v = stream_loop_condition(cond)
            chk.check(v in ('success', 'good'), rule, f.name, 'a loop driven by a stream read ends at the first failed '
                      'read (end of file or error)', f.loc(loop),
                      {'eof': "the condition tests only eof(): when the stream fails without reaching the end "
                              "(unreadable file, a directory as argument file) the loop never ends",
                       'other': 'the condition can be true after a failed read: the loop does not end'}.get(v, ''))
    chk.require(n >= 1, 'loops driven by a stream read in the argument handling code: %d' % n)
    return n


def r11_downcast_provenance(chk, prog, rule='R11'):
    """R11: a pointer to the argument base class is static_cast to the sub-group class only if it comes out of the
    container that holds nothing but sub-group arguments.  The sub-group container is read from the source: the
    ArgumentContainer member of Handler whose addArgument() is given TypedArgSubGroup objects.  For every such cast
    in a Handler member, every definition of the operand that reaches the cast (CFG, no other definition in between)
    is a lookup in that container or a null pointer - a pointer from the container of normal arguments would make
    obj() return the bytes of a destination slot as a Handler*."""
    H = 'celma::prog_args::Handler'
    SG = 'TypedArgSubGroup'
    fns = [f for f in prog.functions if f.classq == H and f.body is not None]
    sub_conts = set()
    for f in fns:
        for c in f.calls():
            if callee_is(c, 'addArgument') and 'ArgumentContainer' in (c.get('callee') or ''):
                a = call_args(c)
                if a and SG in (strip_all_casts(a[0]).get('t') or ''):
                    sub_conts.add(field_name(object_of(c)))
    sub_conts.discard(None)
    chk.require(len(sub_conts) == 1, 'container of the sub-group arguments: %s' % sorted(sub_conts))
    sub = next(iter(sub_conts))

    def origins(e):
        e = strip_all_casts(e)
        k = e.get('k')
        if k in ('ParenExpr', 'ExprWithCleanups', 'MaterializeTemporaryExpr') and len(children(e)) == 1:
            return origins(children(e)[0])
        if k == 'ConditionalOperator':
            return origins(children(e)[1]) | origins(children(e)[2])
        if k in ('CXXNullPtrLiteralExpr', 'GNUNullExpr') or (k == 'IntegerLiteral' and e.get('val') == 0):
            return {'null'}
        if k in CALL_KINDS and (callee_is(e, 'findArg') or callee_is(e, 'findExactArg')):
            return {'lookup in ' + str(field_name(object_of(e)))}
        return {'another expression (line %s)' % e.get('l')}
    n = 0
    for f in fns:
        casts = [x for x in f.walk() if x.get('k') == 'CXXStaticCastExpr' and x.get('ck') == 'BaseToDerived'
                 and SG in (x.get('t') or '')]
        for c in casts:
            n += 1
            v = strip_all_casts(children(c)[0])
            if v.get('k') != 'DeclRefExpr' or v['ref'].get('sto') not in ('local', 'param'):
                src = origins(v)
            else:
                did = v['ref'].get('did')
                defs = []      # (node that is the CFG element, defining expression)
                for x in f.walk():
                    if x.get('k') == 'DeclStmt':
                        for d in x.get('decls', []):
                            if d.get('did') == did and isinstance(d.get('init'), dict):
                                defs.append((x, d['init']))
                    elif x.get('k') == 'BinaryOperator' and x.get('op') == '=':
                        l = strip_all_casts(children(x)[0])
                        if l.get('k') == 'DeclRefExpr' and l['ref'].get('did') == did:
                            defs.append((x, children(x)[1]))
                cfg = f.cfg
                cpos = cfg.position(c)
                dpos = {cfg.position(d): (d, e) for d, e in defs}
                src = set()
                if v['ref'].get('sto') == 'param':
                    src.add('a parameter')
                for p_, (d, e) in dpos.items():
                    if p_ is None:
                        continue
                    seen = cfg.reach((p_[0], p_[1] + 1), lambda pos, el: pos in dpos and pos != p_)
                    if cpos in seen:
                        src |= origins(e)
                if not src:
                    src.add('no definition found')
            bad = sorted(o for o in src if o not in ('null', 'lookup in ' + sub))
            chk.check(not bad, rule, f.name, 'the pointer cast to the sub-group class comes out of the sub-group '
                      'container %s' % sub, f.loc(c), 'it may come from: %s' % ', '.join(bad))
    chk.require(n >= 2, 'downcasts to the sub-group class in Handler: %d' % n)


def r12_erase_found_only(chk, prog, rule='R12'):
    """R12: container.erase( it) with an iterator that is the result of a search is executed only when the search
    found something: the call is reachable only over an edge on which `it != end()` is known (erase( end()) destroys
    an element that does not exist - invalid memory access, not an exception).  Iterators that are parameters are the
    caller's obligation."""
    from ..rules import implied_edges
    n = 0
    for f in prog.functions:
        if f.body is None or not f.file.startswith('/') or '/src/' not in f.file or '/test/' in f.file:
            continue
        if not any(seg in f.file for seg in ('/prog_args/', '/appl/')):
            continue
        for c in f.calls():
            if c.get('k') != 'CXXMemberCallExpr' or (c.get('callee') or '').split('::')[-1] != 'erase':
                continue
            args = [a for a in call_args(c) if not a.get('defarg')]
            if len(args) != 1:
                continue
            v = strip_all_casts(args[0])
            while v.get('k') in ('CXXConstructExpr', 'MaterializeTemporaryExpr', 'CXXBindTemporaryExpr') and \
                    len(children(v)) == 1:
                v = strip_all_casts(children(v)[0])
            if v.get('k') != 'DeclRefExpr' or v['ref'].get('sto') != 'local' or \
                    'iterator' not in (v['ref'].get('dt') or '') and 'iterator' not in (v.get('t') or ''):
                continue
            name = v['ref'].get('name')

            def cmp_end(x, op):
                if x.get('k') not in ('CXXOperatorCallExpr', 'BinaryOperator') or x.get('op') != op:
                    return False
                return any(y.get('k') == 'DeclRefExpr' and y['ref'].get('name') == name for y in walk(x)) and \
                    any(y.get('k') in CALL_KINDS and (y.get('callee') or '').split('::')[-1] in ('end', 'cend')
                        for y in walk(x))
            edges = implied_edges(f, lambda x: cmp_end(x, '!='), True) | \
                implied_edges(f, lambda x: cmp_end(x, '=='), False)
            pos = f.cfg.position(c)
            guarded = any(b in f.cfg.succ[a] and f.cfg.guarded_by_edge(pos, a, f.cfg.succ[a].index(b))
                          for a, b in edges)
            n += 1
            chk.check(guarded, rule, f.name, 'erase( %s) only after the search was successful (%s != end())' % (
                name, name), f.loc(c), 'the call is reachable without the test: erase( end()) is undefined behaviour')
    chk.require(n >= 3, 'erase( iterator) sites in the argument handling: %d' % n)


def r13_owning_members(chk, prog, rule='R13'):
    """objects that destinations point into stay alive as long as somebody uses them: the usage settings object is
    shared (std::shared_ptr) between a handler, its description printer and the handlers of a group, and the
    standard arguments write through raw pointers into it.  Every class of the argument handling that needs such an
    object holds the smart pointer BY VALUE - a member that is a reference to somebody else's smart pointer owns
    nothing: when the other pointer is re-seated the object is destroyed under the writers (heap use after free)"""
    n = bad = 0
    for cn, c in sorted(prog.classes.items()):
        if not cn.startswith('celma::prog_args::'):
            continue
        for fld in c.get('fields', []):
            t = fld.get('t') or ''
            if 'shared_ptr<' in t or 'unique_ptr<' in t or t.replace('const ', '').strip().rstrip('&').strip().endswith('_params_t'):
                n += 1
                is_ref = t.rstrip().endswith('&')
                chk.check(not is_ref, rule, cn, 'the smart-pointer member %s owns its object (held by value)' % fld['name'],
                          '', 'member type %s: a reference to another owner' % t)
    chk.require(n >= 3, 'smart-pointer members in the argument handling: %d' % n)


def r14_argument_file_nesting(chk, prog, rule='R14'):
    """evaluation terminates for every content of the argument files: the words of a file are evaluated by the handler
    itself, and one of its arguments (addArgumentFile()) reads another argument file - a file that names itself (or
    two files that name each other) would recurse until the stack overflows.  Handler::readArgumentFile() therefore
    carries a bound: before it evaluates the first line it updates a member of the handler (nesting counter / set of
    files in progress), tests it, and leaves with an exception when the test fails."""
    f = prog.one('celma::prog_args::Handler', 'readArgumentFile')
    cfg = f.cfg
    # the recursion exists: an argument of the handler calls readArgumentFile()
    # (the callable created there is a generic lambda, whose body the extractor does not resolve: the existence of
    #  the 'argument file' argument is taken from the API function that creates it)
    back = [g for g in prog.functions if g.classq == 'celma::prog_args::Handler' and g.short == 'addArgumentFile'
            and g.body is not None and any(x.get('k') == 'LambdaExpr' for x in g.walk())]
    evals = [c for c in f.calls() if callee_is(c, 'Handler::iterateArguments')]
    chk.require(evals, 'readArgumentFile: evaluation of the lines not found')
    if not back:
        chk.ok(rule, f.name, 'no argument of the handler reads an argument file (no recursion through file contents)')
        return
    written = set()
    for x in f.walk():
        if x.get('k') == 'UnaryOperator' and x.get('op') in ('++', '--') and field_name(children(x)[0]):
            written.add(field_name(children(x)[0]))
        elif x.get('k') in ('BinaryOperator', 'CompoundAssignOperator') and x.get('op') in ('=', '+=') and \
                field_name(children(x)[0]):
            written.add(field_name(children(x)[0]))
        elif x.get('k') == 'CXXMemberCallExpr' and field_name(object_of(x)) and \
                (x.get('callee') or '').split('::')[-1] in ('insert', 'push_back', 'emplace', 'emplace_back'):
            written.add(field_name(object_of(x)))
    written.discard('mReadMode')
    bounded = False
    for bid, cond in cfg.cond_blocks():
        if cond is None or not any(mentions_field_name(cond, w) for w in written):
            continue
        for br in (0, 1):
            tgt = cfg.succ[bid][br]
            if tgt is None:
                continue
            seen = cfg.reach((tgt, 0))
            only_throw = not any(p_[0] == 'exit_from' and cfg.exit_kind(p_[1]) == 'return' for p_ in seen) and \
                not any(cfg.position(c) in seen for c in evals)
            other = cfg.succ[bid][1 - br]
            if only_throw and all(cfg.guarded_by_edge(cfg.position(c), bid, 1 - br) for c in evals):
                bounded = True
    chk.check(bounded, rule, f.name, 'the nesting of argument files is bounded (a file that names itself ends in an '
              'exception, not in a stack overflow)', f.loc(), 'an argument created by addArgumentFile() calls '
              'readArgumentFile() while a file is being evaluated, and nothing in readArgumentFile() limits the depth')


def mentions_field_name(node, name):
    return any(x.get('k') == 'MemberExpr' and x.get('ref', {}).get('name') == name for x in walk(node))


def r15_move_resets_source(chk, prog, rule='R15'):
    """no double deallocation: a class of the argument handling whose destructor deletes a pointer member and that
    can be moved takes the pointer over AND empties the source - the move constructor (and move assignment) stores
    nullptr into (or exchanges) the source's member on every path; otherwise both objects delete the same array"""
    n = 0
    for cn, c in sorted(prog.classes.items()):
        if not (cn.startswith('celma::prog_args::') or cn.startswith('celma::appl::')):
            continue
        dt = [f for f in prog.functions if f.cls == cn and f.short.startswith('~') and f.body is not None]
        owned = set()
        for f in dt:
            for x in f.walk():
                if x.get('k') == 'CXXDeleteExpr':
                    for y in walk(x):
                        if y.get('k') == 'MemberExpr' and y['ref'].get('dk') == 'Field' and \
                                (y.get('t') or '').rstrip().endswith('*'):
                            owned.add(y['ref'].get('name'))
        if not owned:
            continue
        movers = [f for f in prog.functions if f.cls == cn and f.body is not None and len(f.params) == 1 and
                  f.params[0]['t'].rstrip().endswith('&&') and (f.d.get('ctor') or f.short == 'operator=')]
        for f in movers:
            src = f.params[0]['name']
            for fld in sorted(owned):
                n += 1
                resets = []
                for x in f.walk():
                    if x.get('k') == 'BinaryOperator' and x.get('op') == '=':
                        l = strip_all_casts(children(x)[0])
                        r = strip_all_casts(children(x)[1])
                        if l.get('k') == 'MemberExpr' and l['ref'].get('name') == fld and mentions_var(l, src) and \
                                r.get('k') in ('CXXNullPtrLiteralExpr', 'GNUNullExpr', 'IntegerLiteral'):
                            resets.append(x)
                    elif x.get('k') == 'CallExpr' and (x.get('callee') or '').split('::')[-1] in ('exchange', 'swap') and \
                            any(field_name(a) == fld and mentions_var(a, src) for a in call_args(x)):
                        resets.append(x)
                for i in f.inits:
                    if isinstance(i.get('init'), dict):
                        for y in walk(i['init']):
                            if y.get('k') == 'CallExpr' and (y.get('callee') or '').split('::')[-1] == 'exchange' and \
                                    any(field_name(a) == fld and mentions_var(a, src) for a in call_args(y)):
                                resets.append(y)
                in_body = [r for r in resets if f.cfg.position(r) is not None]
                ok = bool(resets) and (len(in_body) < len(resets) or
                                       not f.cfg.must_pass_through(lambda n_: any(n_ is r for r in in_body)))
                chk.check(ok, rule, f.name, 'the moved-from object gives up the array it owned (%s)' % fld, f.loc(),
                          'the source keeps its pointer: both destructors delete[] the same array')
    chk.require(n >= 1, 'movable classes that own an array: %d' % n)


def run(chk):
    drv = os.path.join(VERIF, 'drivers', 'prog_args_dest.cpp')
    units = units_matching('library/prog_args/', 'library/appl/arg_string_2_array.cpp', 'library/common/') + [drv]
    if chk.tier == 'thorough':
        units = library_units() + [drv]
    prog = load_program(units)
    chk.units = units
    chk.explanation = (
        'Engine C (linear-inequality abstract interpretation, Fourier-Motzkin entailment) on the program-name copies '
        'of the handler, on both ArgString2Array constructors with copyArguments() inlined (range-for with a ghost '
        'iteration counter and the lock-step counter argc) and on the assign() of every fixed-size destination: every '
        'strcpy/subscript/new[] carries a capacity obligation. AST rules for new[]/delete[]/unique_ptr form agreement. '
        'Exception-type rule over the call-graph closure of the evaluation entry points with a positive control. '
        'R6: the cursor of detail::ArgListIterator is decided by an inductive four-case invariant (word start / '
        'inside a -abc word / value after --name= / end): established by the constructor, preserved by operator++ '
        'from each case (the recursive step on a lone "--" by assume-guarantee), with a bounds obligation on every '
        'argv[ i] and word[ j] for symbolic argc, word lengths and bytes; the stored element refers to a word of '
        'argv and a single-character argument lies inside it. Termination is not decided.')
    chk.assumptions = ['argv[0] is a NUL-terminated string', 'new T[ n] yields n elements',
                       'R6: argc >= 1, argv[0..argc) are C strings shorter than 2 GiB (character positions are kept in '
                       'an int), argv[argc] is a null pointer; argsAsString()/isSingleArg() are used on iterators '
                       'that differ from end() (the handler loop condition)',
                       'boost::lexical_cast<T> may return any value of T']
    chk.rule('R1', 'strcpy destinations have room for the source and its terminator', 5)
    chk.rule('R2', 'allocation and deallocation forms agree', 8)
    chk.rule('R3', 'generated argv array: every index stays inside the allocation', 6)
    chk.rule('R4', 'only std::exception types are thrown from argument evaluation', 50)
    chk.rule('R5', 'fixed-size destinations are written inside their capacity', 8)
    chk.rule('CTL', 'positive control for R4', 4)
    eng = make_engine(prog)
    r1_r3(chk, prog, eng)
    r2_forms(chk, prog, eng)
    r4_exceptions(chk, prog)
    r5_fixed_size(chk, prog, eng)
    chk.rule('R7', 'possibly empty owning pointers are dereferenced only after a null test', 5)
    r7_nullable_owners(chk, prog)
    chk.rule('R8', 'loops driven by a stream read end at the first failed read (termination for every argument file)', 1)
    r8_stream_loops_terminate(chk, prog)
    chk.rule('R10', 'callables that outlive their creating function capture no local by reference', 5)
    r10_escaping_lambdas(chk, prog)
    chk.rule('R11', 'downcasts to the sub-group argument class only of pointers from the sub-group container', 2)
    r11_downcast_provenance(chk, prog)
    chk.rule('R12', 'erase( iterator) only with the iterator of a successful search', 3)
    r12_erase_found_only(chk, prog)
    chk.rule('R13', 'smart-pointer members are held by value (shared objects stay alive under their writers)', 3)
    r13_owning_members(chk, prog)
    chk.rule('R14', 'the nesting of argument files is bounded', 1)
    r14_argument_file_nesting(chk, prog)
    chk.rule('R15', 'a moved-from object gives up the array it owned', 1)
    r15_move_resets_source(chk, prog)
    chk.rule('R6', 'ArgListIterator: the cursor invariant (four cases) is established and preserved; every argv[ i] '
             'and word[ j] access is inside', 40)
    from . import c04_cursor
    chk.rule('R9', 'every step of the argument iterator moves the cursor forward (the element loop terminates)', 4)
    c04_cursor.run(chk, prog, progress_rule='R9')
    if eng.unsupported:
        chk.notes.append('constructs evaluated as opaque: %s' % sorted(set(eng.unsupported))[:12])
