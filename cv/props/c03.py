"""C03 — Every command line that obeys the declared rules is accepted.

'No false rejection' in general is not decidable statically; decided are three
structural necessary conditions (DESIGN §4 C03):
 R1 an exact key match wins over abbreviations whatever the definition order
    (no exit from the search loop before every argument was compared exactly)
 R2 bounds as documented, read in the accepting direction (value on the lower
    bound / below the upper bound is not rejected)  -- truth tables, Engine B
 R3 only command-line uses count for the cardinality: both assignValue call
    sites of the handler pass ignore_cardinality == (read mode != command line),
    and the file / environment readers set their mode bit by a scoped (RAII)
    flag that is alive during iterateArguments()
 R4 constraints are matched with the argument's canonical key (shared with C02-R3:
    with the raw key '-a --outp 3' is rejected although requires("o,output") is met)"""
from .. import rules
from ..rules import callee_is, object_of, field_name, call_args, mentions_field
from ..facts import children, strip_all_casts, walk, CALL_KINDS, AnalysisBroken
from ..boolshape import Interp, NeedAtom, Unsupported
from .. import effects
from . import c05, c02, c02_shapes


def r3(chk, prog):
    # enum ReadMode: commandLine must be 0, file/envVar distinct bits
    en = prog.enums.get('celma::prog_args::Handler::ReadMode')
    chk.require(en is not None, 'enum Handler::ReadMode not found')
    vals = {e['name']: e['val'] for e in en['enumerators']}
    chk.check(vals.get('commandLine') == 0 and vals.get('file', 0) & vals.get('envVar', 0) == 0 and
              vals.get('file') and vals.get('envVar'), 'R3', 'celma::prog_args::Handler::ReadMode',
              'read modes are usable as independent flag bits', '', 'values %s' % vals)
    n = 0
    for f in prog.functions:
        if f.classq != 'celma::prog_args::Handler':
            continue
        for c in f.calls_to('TypedArgBase::assignValue'):
            n += 1
            arg = call_args(c)[0]
            bad = None
            for mode in range(0, 4):
                it = Interp(f, {'this.mReadMode': mode})
                try:
                    v = it.ev(arg)
                except (NeedAtom, Unsupported) as e:
                    raise AnalysisBroken('ignore_cardinality expression not interpretable in %s: %s' % (f.key, e))
                if bool(v) != (mode != 0):
                    bad = (mode, v)
                    break
            chk.check(bad is None, 'R3', f.name,
                      'ignore_cardinality is true exactly for file/environment read modes', f.loc(c),
                      'for mReadMode == %s the expression yields %s' % (bad or (None, None)))
    chk.require(n >= 2, 'assignValue call sites in Handler: %d' % n)
    # readers: scoped flag alive around iterateArguments
    for short, bit in (('readArgumentFile', 'file'), ('checkReadEnvVarArgs', 'envVar')):
        f = prog.one('celma::prog_args::Handler', short)
        cfg = f.cfg
        its = list(f.calls_to('Handler::iterateArguments'))
        chk.require(its, '%s does not call iterateArguments' % short)
        guards = []
        for n_ in f.walk():
            if n_.get('k') != 'DeclStmt':
                continue
            for d in n_.get('decls', []):
                if 'celma::common::ScopedFlag<' in d.get('t', '') and isinstance(d.get('init'), dict):
                    args = children(d['init'])
                    if len(args) >= 2 and field_name(args[0]) == 'mReadMode' and any(
                            x.get('k') == 'DeclRefExpr' and x.get('ref', {}).get('dk') == 'EnumConstant' and x['ref'].get('q', '').split('::')[-1] == bit
                            for x in walk(args[1])):
                        guards.append((d.get('did'), cfg.position(n_)))
        for c in its:
            pos = cfg.position(c)
            ok = False
            for did, gpos in guards:
                if gpos is None or not cfg.dominates(gpos, pos):
                    continue
                alive = True
                for bid, b in cfg.blocks.items():
                    for i, e in enumerate(b['e']):
                        if isinstance(e, dict) and e.get('did') == did and 'dtor' in e:
                            if pos in cfg.reach((bid, i + 1), lambda p, e2: p == gpos):
                                alive = False
                if alive:
                    ok = True
            chk.check(ok, 'R3', f.name, 'read-mode bit "%s" set by a scoped flag while the words are evaluated' % bit,
                      f.loc(c), 'no ScopedFlag( mReadMode, ReadMode::%s) is alive at the call' % bit)
    # the command-line pass itself runs with no reader flag constructed in evalArguments
    f = prog.one('celma::prog_args::Handler', 'evalArguments')
    flagged = [d for n_ in f.walk() if n_.get('k') == 'DeclStmt' for d in n_.get('decls', [])
               if 'ScopedFlag<' in d.get('t', '')]
    chk.check(not flagged, 'R3', f.name, 'the command-line pass runs in read mode "commandLine"', f.loc())
    # ScopedFlag shape: constructor sets the bit
    for g in prog.functions:
        if g.classq == 'celma::common::ScopedFlag' and g.d.get('ctor') and len(g.params) == 2:
            sets = [x for x in g.walk() if x.get('k') == 'CompoundAssignOperator' and x.get('op') == '|=']
            chk.check(bool(sets), 'R3', g.name, 'ScopedFlag constructor sets the bit', g.loc())


def run(chk):
    prog, units = rules.prog_args_program()
    chk.units = units
    chk.explanation = (
        'Structural necessary conditions for "no false rejection": exact-match-wins shape of '
        'ArgumentContainer::findArg (no exit from the search loop before all exact comparisons), accept-side truth '
        'tables of all bound checks and cardinalities (Engine B, exhaustive over orderings), abstract evaluation of '
        'the ignore_cardinality argument for every read mode, RAII read-mode flags alive around iterateArguments, '
        'canonical key for constraint matching. The general statement (interaction of arbitrary '
        'checks/formats/constraints, values at type limits) is not decided.')
    chk.assumptions = ['boost::lexical_cast converts every representable value (trusted)']
    chk.rule('R1', 'exact key match wins over abbreviations regardless of definition order', 4)
    chk.rule('R2', 'bound checks / cardinalities accept exactly the documented set', 10)
    chk.rule('R3', 'values from file/environment never count against the cardinality', 7)
    chk.rule('R4', 'constraints matched with the canonical key and removed for every requirer (no spurious "required ... is missing")', 6)
    c05.r2(chk, prog, rule='R1')
    c02_shapes.run(chk, prog, rule='R2')
    r3(chk, prog)
    sub = type(chk)(chk.pid, chk.tier)
    sub._known = []
    c02.r3_canonical_key(sub, prog)
    # a requirement is fulfilled for every argument that asked for it (complete scan)
    c02.r9_constraint_scans(sub, prog)
    for o in sub.obligations:
        chk.check(o['status'] == 'held', 'R4', o['function'], o['what'], o['where'], o.get('detail', ''))
