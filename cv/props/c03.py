"""C03 — Every command line that obeys the declared rules is accepted.

'No false rejection' in general is not decidable statically; decided are three
structural necessary conditions (DESIGN §4 C03):
 R1 an exact key match wins over abbreviations whatever the definition order
    (no exit from the search loop before every argument was compared exactly)
 R2 bounds as documented, read in the accepting direction (value on the lower
    bound / below the upper bound is not rejected)  -- truth tables, Engine B
 R3 only command-line uses count for the cardinality: both assignValue call
    sites of the handler pass ignore_cardinality == (read mode != command line),
    and the file / environment readers set their mode bit by a scoped (RAII)
    flag that is alive during iterateArguments()
 R4 constraints are matched with the argument's canonical key (shared with C02-R3:
    with the raw key '-a --outp 3' is rejected although requires("o,output") is met)"""
from .. import rules
from ..rules import callee_is, object_of, field_name, call_args, mentions_field, mentions_var, mentions_call
from ..facts import children, strip_all_casts, walk, CALL_KINDS, AnalysisBroken
from ..boolshape import Interp, NeedAtom, Unsupported
from .. import effects
from . import c05, c02, c02_shapes


def r3(chk, prog):
    # enum ReadMode: commandLine must be 0, file/envVar distinct bits
    en = prog.enums.get('celma::prog_args::Handler::ReadMode')
    chk.require(en is not None, 'enum Handler::ReadMode not found')
    vals = {e['name']: e['val'] for e in en['enumerators']}
    chk.check(vals.get('commandLine') == 0 and vals.get('file', 0) & vals.get('envVar', 0) == 0 and
              vals.get('file') and vals.get('envVar'), 'R3', 'celma::prog_args::Handler::ReadMode',
              'read modes are usable as independent flag bits', '', 'values %s' % vals)
    n = 0
    for f in prog.functions:
        if f.classq != 'celma::prog_args::Handler':
            continue
        for c in f.calls_to('TypedArgBase::assignValue'):
            n += 1
            arg = call_args(c)[0]
            bad = None
            for mode in range(0, 4):
                it = Interp(f, {'this.mReadMode': mode})
                try:
                    v = it.ev(arg)
                except (NeedAtom, Unsupported) as e:
                    raise AnalysisBroken('ignore_cardinality expression not interpretable in %s: %s' % (f.key, e))
                if bool(v) != (mode != 0):
                    bad = (mode, v)
                    break
            chk.check(bad is None, 'R3', f.name,
                      'ignore_cardinality is true exactly for file/environment read modes', f.loc(c),
                      'for mReadMode == %s the expression yields %s' % (bad or (None, None)))
    chk.require(n >= 1, 'assignValue call sites in Handler: %d' % n)
    # readers: scoped flag alive around iterateArguments
    for short, bit in (('readArgumentFile', 'file'), ('checkReadEnvVarArgs', 'envVar')):
        f = prog.one('celma::prog_args::Handler', short)
        cfg = f.cfg
        its = list(f.calls_to('Handler::iterateArguments'))
        chk.require(its, '%s does not call iterateArguments' % short)
        guards = []
        for n_ in f.walk():
            if n_.get('k') != 'DeclStmt':
                continue
            for d in n_.get('decls', []):
                if 'celma::common::ScopedFlag<' in d.get('t', '') and isinstance(d.get('init'), dict):
                    args = children(d['init'])
                    if len(args) >= 2 and field_name(args[0]) == 'mReadMode' and any(
                            x.get('k') == 'DeclRefExpr' and x.get('ref', {}).get('dk') == 'EnumConstant' and x['ref'].get('q', '').split('::')[-1] == bit
                            for x in walk(args[1])):
                        guards.append((d.get('did'), cfg.position(n_)))
        for c in its:
            pos = cfg.position(c)
            ok = False
            for did, gpos in guards:
                if gpos is None or not cfg.dominates(gpos, pos):
                    continue
                alive = True
                for bid, b in cfg.blocks.items():
                    for i, e in enumerate(b['e']):
                        if isinstance(e, dict) and e.get('did') == did and 'dtor' in e:
                            if pos in cfg.reach((bid, i + 1), lambda p, e2: p == gpos):
                                alive = False
                if alive:
                    ok = True
            chk.check(ok, 'R3', f.name, 'read-mode bit "%s" set by a scoped flag while the words are evaluated' % bit,
                      f.loc(c), 'no ScopedFlag( mReadMode, ReadMode::%s) is alive at the call' % bit)
    # the command-line pass itself runs with no reader flag constructed in evalArguments
    f = prog.one('celma::prog_args::Handler', 'evalArguments')
    flagged = [d for n_ in f.walk() if n_.get('k') == 'DeclStmt' for d in n_.get('decls', [])
               if 'ScopedFlag<' in d.get('t', '')]
    chk.check(not flagged, 'R3', f.name, 'the command-line pass runs in read mode "commandLine"', f.loc())
    # ScopedFlag shape: constructor sets the bit
    for g in prog.functions:
        if g.classq == 'celma::common::ScopedFlag' and g.d.get('ctor') and len(g.params) == 2:
            sets = [x for x in g.walk() if x.get('k') == 'CompoundAssignOperator' and x.get('op') == '|=']
            chk.check(bool(sets), 'R3', g.name, 'ScopedFlag constructor sets the bit', g.loc())


def r5_every_count_guarded(chk, prog):
    """every place that counts a value against the cardinality (a call of ICardinality::gotValue) does so only for
    command-line input: it is control-dependent on the ignore_cardinality parameter of assignValue() being false,
    or on a member that assignValue() sets from that parameter before it calls assign()"""
    av = prog.one('celma::prog_args::detail::TypedArgBase', 'assignValue')
    ign = av.params[0]['name']
    cfg_av = av.cfg
    assigns = [c for c in av.calls() if callee_is(c, 'TypedArgBase::assign')]
    chk.require(assigns, 'assignValue does not call assign()')
    # members that carry the parameter: F = <expr with ignore_cardinality>, before assign()
    carriers = {}
    for n in av.walk():
        if n.get('k') == 'BinaryOperator' and n.get('op') == '=' and field_name(children(n)[0]) and \
                mentions_var(children(n)[1], ign):
            if all(cfg_av.node_dominates(n, a) for a in assigns):
                rhs = strip_all_casts(children(n)[1])
                neg = rhs.get('k') == 'UnaryOperator' and rhs.get('op') == '!'
                carriers[field_name(children(n)[0])] = neg       # neg: the member holds 'count it'
    sites = []
    for f in prog.functions:
        if f.body is None:
            continue
        for c in f.calls():
            if (c.get('callee') or '').endswith('ICardinality::gotValue'):
                sites.append((f, c))
    chk.require(len(sites) >= 5, 'calls of ICardinality::gotValue found: %d' % len(sites))
    seen = set()
    for f, c in sites:
        key = (f.file, f.line, c.get('l'))
        if key in seen:
            continue            # instantiations of the same template line
        seen.add(key)
        ok = False
        for ifs, branch in enclosing_ifs(f, c):
            if branch != 'then':
                continue
            cond = if_condition(ifs)
            for atom in walk(cond):
                want = None
                if f is av and atom.get('k') == 'DeclRefExpr' and atom.get('ref', {}).get('name') == ign:
                    want = False                      # ignore_cardinality must be false
                elif atom.get('k') == 'MemberExpr' and atom.get('ref', {}).get('name') in carriers:
                    want = carriers[atom['ref']['name']]
                if want is None:
                    continue
                # the call is in the then-branch of a condition that is a conjunction containing the (possibly
                # negated) atom with the wanted polarity
                pol = polarity(cond, atom)
                if pol is not None and pol == want:
                    ok = True
        chk.check(ok, 'R5', f.name, 'a value is counted against the cardinality only for command-line input '
                  '(guarded by the ignore_cardinality information)', f.loc(c),
                  'the count is not control-dependent on ignore_cardinality or a member carrying it')


def r6_constraint_given_values(chk, prog):
    """a value constraint only relates values that were actually given: every compareValue( a, b) outside the
    argument classes themselves is reachable only through edges on which a->hasValue() and b->hasValue() were both
    found true (an unused argument still holds its default, which must never make a valid line fail)"""
    from ..rules import implied_edges
    n = 0
    seen_lines = set()
    for f in prog.functions:
        if f.body is None or (f.cls or '').startswith('celma::prog_args::detail::TypedArg'):
            continue
        for c in f.calls():
            if not (c.get('callee') or '').endswith('::compareValue'):
                continue
            key = (f.file, c.get('l'), c.get('col'))
            if key in seen_lines:
                continue
            seen_lines.add(key)
            objs = []
            recv = object_of(c)
            for e in [recv] + list(call_args(c)[:1]):
                e0 = strip_all_casts(e) if e is not None else None
                while e0 is not None and e0.get('k') in ('ParenExpr', 'CXXOperatorCallExpr', 'UnaryOperator') and \
                        children(e0):
                    e0 = strip_all_casts(children(e0)[-1] if e0.get('k') == 'CXXOperatorCallExpr' else children(e0)[0])
                if e0 is None or e0.get('k') != 'DeclRefExpr':
                    raise AnalysisBroken('compareValue() operand is not a plain variable at %s' % f.loc(c))
                objs.append(e0['ref']['name'])
            cfg = f.cfg
            for role, var in zip(('the argument whose value is compared', 'the argument it is compared with'), objs):
                n += 1

                def has_value(x, var=var):
                    if x.get('k') not in CALL_KINDS or not (x.get('callee') or '').endswith('::hasValue'):
                        return False
                    o = object_of(x)
                    return o is not None and any(y.get('k') == 'DeclRefExpr' and y.get('ref', {}).get('name') == var
                                                 for y in walk(o))
                edges = implied_edges(f, has_value, True)
                reach = cfg.reach(cfg.entry_pos(), blocked_edges=edges)
                ok = bool(edges) and cfg.position(c) not in reach
                chk.check(ok, 'R6', f.name, 'values are compared only when %s (%s) has a value' % (role, var), f.loc(c),
                          'compareValue() is reachable without a test that %s->hasValue() is true: the default of an '
                          'unused argument takes part in the constraint' % var)
    chk.require(n >= 2, 'compareValue() call sites in value constraints: %d' % n)
    return n


def r7_assigned_means_has_value(chk, prog):
    """an argument that was used reports hasValue(): the mandatory check, the 'differ' constraint and the summary ask
    hasValue(); for every argument class whose hasValue() returns a flag member, every normally returning path of
    its assign() sets that flag (whatever formats / checks are attached)"""
    tb = prog.derived_from('celma::prog_args::detail::TypedArgBase')
    by_cls = {}
    for f in prog.functions:
        if f.cls in tb and f.short in ('hasValue', 'assign') and f.body is not None:
            by_cls.setdefault(f.cls, {})[f.short] = f
    n = 0
    for cls, m in sorted(by_cls.items()):
        if 'hasValue' not in m or 'assign' not in m:
            continue
        hv = m['hasValue']
        rets = [x for x in hv.walk() if x.get('k') == 'ReturnStmt' and children(x)]
        if len(rets) != 1:
            continue
        e = strip_all_casts(children(rets[0])[0])
        if e.get('k') != 'MemberExpr' or e.get('ref', {}).get('dk') != 'Field' or \
                not (e.get('t') or '').replace('const ', '').strip() == 'bool':
            continue            # computed from the destination itself (containers, optional, ...)
        flag = e['ref']['name']
        f = m['assign']
        sets = [x for x in f.walk() if x.get('k') == 'BinaryOperator' and x.get('op') == '=' and
                field_name(children(x)[0]) == flag and strip_all_casts(children(x)[1]).get('val') in (True, 1)]
        n += 1
        missing = f.cfg.must_pass_through(lambda nn: nn in sets) if sets else [0]
        chk.check(bool(sets) and not missing, 'R7', f.name, 'every successful assign() makes hasValue() true (%s = true '
                  'on every normal return path)' % flag, f.loc(), 'a return is reachable without setting %s: the '
                  'mandatory check then reports an argument that WAS given as missing' % flag)
    chk.require(n >= 5, 'argument classes with a has-value flag: %d' % n)
    return n


def if_condition(ifs):
    """IfStmt children: [init / condition variable declarations ...] cond then [else]"""
    kids = [k for k in ifs.get('c', []) if isinstance(k, dict)]
    rest = [k for k in kids if k.get('k') != 'DeclStmt'] if kids and kids[0].get('k') == 'DeclStmt' else kids
    return rest[0] if rest else None


def enclosing_ifs(f, node):
    """IfStmts around node with the branch ('then'/'else') that contains it, innermost first"""
    res = []

    def visit(n, stack):
        if n is node:
            res.extend(reversed(stack))
            return True
        if not isinstance(n, dict):
            return False
        if n.get('k') == 'IfStmt':
            kids = [k for k in n.get('c', []) if isinstance(k, dict)]
            cond = if_condition(n)
            after = kids[kids.index(cond) + 1:] if cond in kids else []
            for k in kids:
                if k is cond or k not in after:
                    if visit(k, stack):
                        return True
            for i, k in enumerate(after):
                if visit(k, stack + [(n, 'then' if i == 0 else 'else')]):
                    return True
            return False
        for k in children(n):
            if visit(k, stack):
                return True
        if n.get('k') == 'DeclStmt':
            for d in n.get('decls', []):
                if isinstance(d.get('init'), dict) and visit(d['init'], stack):
                    return True
        return False
    visit(f.body, [])
    return res


def polarity(cond, atom):
    """truth value the atom must have for the conjunction `cond` to be true; None if atom is not a conjunct"""
    c = strip_all_casts(cond)
    while c.get('k') == 'ParenExpr':
        c = strip_all_casts(children(c)[0])
    if c is atom:
        return True
    if c.get('k') == 'ImplicitCastExpr' or c.get('k') == 'ExprWithCleanups':
        return polarity(children(c)[0], atom)
    if c.get('k') == 'UnaryOperator' and c.get('op') == '!':
        p = polarity(children(c)[0], atom)
        return None if p is None else (not p)
    if c.get('k') == 'BinaryOperator' and c.get('op') == '&&':
        for k in children(c):
            p = polarity(k, atom)
            if p is not None:
                return p
        return None
    # a leaf that mentions the atom directly (e.g. an implicit conversion chain)
    if any(x is atom for x in walk(c)) and c.get('k') in ('MemberExpr', 'DeclRefExpr'):
        return True
    return None


def r10_repeatable_builtins(chk, prog, rule='R10'):
    """built-in arguments that a command line legitimately repeats - the end-of-value-list marker (one per value
    list) and the two listing arguments - are defined WITHOUT the default 'at most once' cardinality: the function
    that creates them calls setCardinality() (no check object) before the argument is registered, on every path"""
    repeatable = ('endValueList', 'listArgVars', 'listArgGroups')
    n = 0
    for f in prog.functions:
        if f.classq != 'celma::prog_args::Handler' or f.body is None or not f.short.startswith('addArgument'):
            continue
        lam_calls = set()
        for x in f.walk():
            if x.get('k') == 'LambdaExpr':
                lam_calls |= {(c.get('callee') or '').split('::')[-1] for c in walk(x) if c.get('k') in CALL_KINDS}
        # the extractor may keep lambda bodies as separate functions: fall back to the call operator
        if not lam_calls:
            for g in prog.functions:
                if g.short == 'operator()' and g.file == f.file and f.line <= g.line <= f.d.get('endline', f.line):
                    lam_calls |= {(c.get('callee') or '').split('::')[-1] for c in g.calls()}
        hit = [r for r in repeatable if r in lam_calls]
        if not hit or not any(callee_is(c, 'TypedArgCallable::TypedArgCallable') or
                              'TypedArgCallable' in (c.get('t') or '') for c in f.walk() if c.get('k') == 'CXXNewExpr'
                              or c.get('k') in CALL_KINDS):
            continue
        n += 1
        reg = [c for c in f.calls() if callee_is(c, 'Handler::internAddArgument') or callee_is(c, 'Handler::addArgument')]
        card = [c for c in f.calls() if callee_is(c, 'setCardinality') and
                all(a.get('defarg') or strip_all_casts(a).get('k') in ('CXXNullPtrLiteralExpr', 'GNUNullExpr',
                                                                       'CXXDefaultArgExpr') for a in call_args(c))]
        cpos = {f.cfg.position(c) for c in card}
        seen = f.cfg.reach(f.cfg.entry_pos(), lambda pos, e: pos in cpos)
        ok = bool(card) and bool(reg) and not any(f.cfg.position(c) in seen for c in reg)
        chk.check(ok, rule, f.name, 'the built-in argument that calls %s() may be used any number of times '
                  '(setCardinality() before it is registered)' % hit[0], f.loc(),
                  'it keeps the default cardinality "at most once": its second use on a command line is refused')
    chk.require(n >= 3, 'repeatable built-in arguments found: %d' % n)


def r12_subgroup_cursor(chk, prog, rule='R12'):
    """after a sub-group argument the main handler goes on with the first word the sub-group handler did NOT consume:
    the sub-group branch of Handler::processArg is evaluated abstractly (Engine B; iterators are word indices, the
    sub-handler consumes the first k words behind the key, k = 0..2) - when it returns, the main iterator stands on
    the LAST CONSUMED word (the key itself for k = 0), because the caller's loop advances it once more.  A cursor
    that is moved before the sub-handler has taken the word makes the main handler skip the word behind a sub-group
    key that has no sub-arguments ('-o -v': -v is silently ignored)"""
    from ..boolshape import Interp, NeedAtom, Unsupported, Throw
    f = prog.one('celma::prog_args::Handler', 'processArg')
    target = None
    for ifs in (x for x in f.walk() if x.get('k') == 'IfStmt'):
        kids = [c for c in ifs.get('c', []) if c is not None]
        if len(kids) >= 2 and any(c.get('k') in CALL_KINDS and callee_is(c, 'Handler::evalSingleArgument')
                                  for c in walk(kids[1])):
            target = kids[1]
    chk.require(target is not None, 'processArg: sub-group branch not found')
    en = prog.enums.get('celma::prog_args::Handler::ArgResult')
    chk.require(en is not None, 'enum Handler::ArgResult not found')
    res = {e['name']: e['val'] for e in en['enumerators']}
    it_name = f.params[1]['name']
    end_name = f.params[2]['name']
    n = 0
    for nwords, k in ((1, 0), (2, 0), (2, 1), (3, 1), (3, 2), (4, 2)):
        # words: index 0 = the sub-group key, 1 .. nwords-1 = what follows; the sub-handler consumes k of them
        state = {'calls': 0}

        def cb_eval(itp, call):
            cur = itp.ev_obj(call_args(call)[0])
            state['calls'] += 1
            return res['consumed'] if 1 <= cur <= k else res['unknown']

        def cb_inc(itp, call):
            a = call_args(call)
            name = strip_all_casts(a[0]).get('ref', {}).get('name')
            old = itp.atom(name, 'ord')
            itp.set_atom(name, old + 1)
            return old if len(a) > 1 else old + 1          # postfix (dummy argument) yields the old position

        def cb_assign(itp, lhs, v):
            return False
        cbs = {'evalSingleArgument': cb_eval, 'operator++': cb_inc, 'handleIdentifiedArg': lambda i_, c: 0,
               'obj': lambda i_, c: 500, 'ResetAtExit': lambda i_, c: 0, 'operator!=': lambda i_, c: int(
                   i_.ev_obj(call_args(c)[0]) != i_.ev_obj(call_args(c)[1])),
               'operator==': lambda i_, c: int(i_.ev_obj(call_args(c)[0]) == i_.ev_obj(call_args(c)[1])),
               'operator=': lambda i_, c: (i_.set_atom(strip_all_casts(call_args(c)[0]).get('ref', {}).get('name'),
                                                       i_.ev_obj(call_args(c)[1])) or 0),
               '<atom>': lambda i_, key: 0 if key.endswith('mReadMode') or key.endswith('mpLastArg') else None,
               '<loops>': True}
        itp = Interp(f, {}, callbacks=cbs, prog=None)
        itp.locals[it_name] = 0
        itp.locals[end_name] = nwords
        itp.locals['p_arg_hdl'] = 7
        try:
            out = itp.run(target)
        except (NeedAtom, Unsupported) as e:
            raise AnalysisBroken('processArg: the sub-group branch is not interpretable: %s' % getattr(e, 'key', e))
        pos = itp.locals.get(it_name)
        n += 1
        chk.check(out[0] == 'return' and pos == k, rule, f.name, 'after a sub-group key the main iterator stands on the '
                  'last word the sub-group handler consumed [%d word(s) behind the key, %d consumed]' % (nwords - 1, k),
                  f.loc(target), 'it stands on word %s (the caller advances it once more: word %s is %s)' % (
                      pos, pos, 'never offered to the main handler' if isinstance(pos, int) and pos > k else 'evaluated twice'))
    return n


def r13_value_list_check(chk, prog, rule='R13'):
    """the value-list check values( "a,b,c" [, ignore case]) accepts exactly the listed values: the case-insensitive
    branch compares the value with EVERY stored value (the set is ordered case-sensitively, so no ordering argument
    may end the scan early: the loop is left only by the return of a match or at its end, and the refusal follows the
    complete scan); the case-sensitive branch refuses exactly when the lookup yields end()"""
    from ..rules import loops_in, loop_header
    f = prog.one('celma::prog_args::detail::CheckValues', 'checkValue')
    cfg = f.cfg
    loops = loops_in(f)
    chk.require(loops, 'CheckValues::checkValue: scan loop of the ignore-case branch not found')
    for loop in loops:
        h = loop_header(cfg, loop)
        body = cfg.succ[h][0]
        out = cfg.succ[h][1]
        seen = cfg.reach((body, 0), lambda pos, e: pos[0] == h)
        brk = out is not None and out != cfg.exit and (out, 0) in seen
        # returns inside the loop must depend on the comparison of the value with the element
        rets = [x for x in walk(loop) if x.get('k') == 'ReturnStmt']
        cmp_ok = bool(rets) and all(any(cond is not None and any(
            y.get('k') in CALL_KINDS and (y.get('callee') or '').split('::')[-1].split('<')[0] in ('iequals', 'operator==')
            for y in walk(cond)) and cfg.guarded_by_edge(cfg.position(r), bid, 0) for bid, cond in cfg.cond_blocks())
            for r in rets)
        chk.check(not brk and cmp_ok, rule, f.name, 'the case-insensitive check compares the value with every listed '
                  'value', f.loc(loop), 'the scan can be left by break before all values were compared' if brk else
                  'a return inside the scan does not depend on an equality comparison')
        thr = [x for x in f.walk() if x.get('k') == 'CXXThrowExpr' and not any(x is y for y in walk(loop))]
        chk.check(bool(thr), rule, f.name, 'a value that matches no listed value is refused', f.loc())
    finds = [c for c in f.calls() if c.get('k') == 'CXXMemberCallExpr' and (c.get('callee') or '').endswith('::find')]
    ok = False
    for bid, cond in cfg.cond_blocks():
        c0 = strip_all_casts(cond) if cond else None
        if c0 is not None and c0.get('k') in ('CXXOperatorCallExpr', 'BinaryOperator') and c0.get('op') in ('==', '!=') and \
                any(y in finds for y in walk(c0)) and any(
                    y.get('k') in CALL_KINDS and (y.get('callee') or '').split('::')[-1] in ('end', 'cend') for y in walk(c0)):
            edge = 0 if c0.get('op') == '==' else 1
            tgt = cfg.succ[bid][edge]
            seen = cfg.reach((tgt, 0)) if tgt is not None else set()
            ok = not any(p_[0] == 'exit_from' and cfg.exit_kind(p_[1]) == 'return' for p_ in seen)
    chk.check(ok, rule, f.name, 'the case-sensitive check refuses exactly the values that are not in the set', f.loc())


def r15_continuation_is_not_a_use(chk, prog):
    """Handler::handleIdentifiedArg() is the funnel of a newly identified argument: it notifies the requires/excludes
    lists and the handler constraints (one_of, any_of: "was already used").  The further separate values of a
    setTakesMultiValue() argument (`-i 1 2 3`) belong to the same use: the continuation (mpLastArg) is never handed
    to the funnel, and the multi-value branch of evalSingleArgument() reaches a direct assignValue()."""
    n = 0
    for f in prog.functions:
        if f.classq != 'celma::prog_args::Handler':
            continue
        for c in f.calls_to('Handler::handleIdentifiedArg'):
            n += 1
            a0 = strip_all_casts(call_args(c)[0])
            chk.check(field_name(a0) != 'mpLastArg', 'R15', f.name,
                      'the continuation argument (mpLastArg) is not handed to handleIdentifiedArg: its constraints '
                      'were executed when the key was identified', f.loc(c),
                      'one_of/any_of would report the argument as "already used" for its own second value')
    chk.require(n >= 3, 'handleIdentifiedArg call sites in Handler: %d' % n)
    f = prog.one('celma::prog_args::Handler', 'evalSingleArgument')
    cfg = f.cfg
    found = False
    for bid, cond in cfg.cond_blocks():
        if cond is None or not mentions_call(cond, 'takesMultiValue'):
            continue
        found = True
        direct = [c for c in f.calls_to('TypedArgBase::assignValue')
                  if field_name(object_of(c)) == "mpLastArg" and
                  cfg.guarded_by_edge(cfg.position(c), bid, 0)]
        chk.check(bool(direct), 'R15', f.name,
                  'the branch for a further value of a multi-value argument assigns it directly to mpLastArg',
                  f.loc(cond))
    chk.require(found, 'evalSingleArgument has no takesMultiValue() branch')


def run(chk):
    prog, units = rules.prog_args_program()
    chk.units = units
    chk.explanation = (
        'Structural necessary conditions for "no false rejection": exact-match-wins shape of '
        'ArgumentContainer::findArg (no exit from the search loop before all exact comparisons), accept-side truth '
        'tables of all bound checks and cardinalities (Engine B, exhaustive over orderings), abstract evaluation of '
        'the ignore_cardinality argument for every read mode, RAII read-mode flags alive around iterateArguments, '
        'canonical key for constraint matching. The general statement (interaction of arbitrary '
        'checks/formats/constraints, values at type limits) is not decided.')
    chk.assumptions = ['boost::lexical_cast converts every representable value (trusted)']
    chk.rule('R1', 'exact key match wins over abbreviations regardless of definition order', 4)
    chk.rule('R2', 'bound checks / cardinalities accept exactly the documented set', 10)
    chk.rule('R3', 'values from file/environment never count against the cardinality', 6)
    chk.rule('R4', 'constraints matched with the canonical key and removed for every requirer (no spurious "required ... is missing")', 6)
    c05.r2(chk, prog, rule='R1')
    # ... and over the two key containers of a handler: the complete key of a sub-group argument is not
    # pre-empted by a normal argument it abbreviates (lookup table of C05-R5)
    c05.r5_lookup_table(chk, prog, rule='R1')
    c02_shapes.run(chk, prog, rule='R2')
    r3(chk, prog)
    chk.rule('R5', 'every count against the cardinality is guarded by the ignore_cardinality information', 5)
    r5_every_count_guarded(chk, prog)
    chk.rule('R6', 'value constraints relate only values that were given', 2)
    r6_constraint_given_values(chk, prog)
    chk.rule('R7', 'an argument that was assigned reports hasValue()', 5)
    r7_assigned_means_has_value(chk, prog)
    # R8: '--key=value' is a legal spelling for every value mode: the text behind the '=' is handed on as value
    # whether or not the argument requested one (decision table of the tokeniser, shared with C01-R9)
    from . import c01
    chk.rule('R8', "tokeniser: the text behind '--key=' is always a value (also for an optional value)", 8)
    c01.r9_value_word_decision(chk, prog, rule='R8')
    # R9: 'unique data' refuses real duplicates only: the membership test of the fixed-size destinations looks at the
    # elements stored so far, never at unused (default) elements (shared with C06-R3)
    from . import c06
    chk.rule('R9', 'unique-data of fixed-size destinations never refuses a value because of an unused element', 3)
    c06.r3_unique_prefix(chk, prog, 'R9')
    chk.rule('R10', 'repeatable built-in arguments have no upper cardinality', 3)
    r10_repeatable_builtins(chk, prog)
    # the tokeniser starts every word at its first character, whatever the kind of the previous word: the cursor
    # invariant of ArgListIterator (constructor and operator++, Engine C, shared with C04-R6) - a free value at the
    # start of the line must not leave the cursor inside the next word
    chk.rule('R11', 'tokeniser cursor invariant: every word is analysed from its first character', 4)
    from . import c04_cursor
    c04_cursor.run(chk, prog, rule='R11')
    chk.rule('R12', 'the main handler continues with the first word the sub-group handler did not consume', 6)
    r12_subgroup_cursor(chk, prog)
    chk.rule('R13', 'the value-list check accepts exactly the listed values', 3)
    r13_value_list_check(chk, prog)
    # a key ends the value list of the previous argument also when the arguments live in different handlers of an
    # argument group: table T2 of C08-R5 (the other tables of that rule belong to C08 only)
    chk.rule('R14', 'argument groups: a key ends the open value list of every member (table T2 of C08-R5)', 8)
    from . import c08 as _c08
    sub8 = type(chk)(chk.pid, chk.tier)
    sub8._known = []
    _c08.r5_dispatch_table(sub8, prog)
    for o in sub8.obligations:
        if 'ends the open value list' in o['what']:
            chk.check(o['status'] == 'held', 'R14', o['function'], o['what'], o['where'], o.get('detail', ''))
    chk.rule('R15', 'a further value of a multi-value argument is not a new use of the argument', 2)
    r15_continuation_is_not_a_use(chk, prog)
    sub = type(chk)(chk.pid, chk.tier)
    sub._known = []
    c02.r3_canonical_key(sub, prog)
    c02.r3_canonical_constraint_lists(sub, prog)
    # a requirement is fulfilled for every argument that asked for it (complete scan)
    c02.r9_constraint_scans(sub, prog)
    for o in sub.obligations:
        chk.check(o['status'] == 'held', 'R4', o['function'], o['what'], o['where'], o.get('detail', ''))
