"""C07 — Arguments from a string, a file or the environment equal the same words on argv.

R1 same evaluation path: the file and environment readers build their word list with
   appl::make_arg_array( ..., nullptr) and feed Handler::iterateArguments() - the function
   evalArguments() uses; there is no second evaluator; comment and empty lines are skipped before
   splitting; the read-mode bit is set by a scoped flag around exactly that call (C03-R3)
R2 splitter transition table: the if/else chain of splitString() is evaluated abstractly for every
   combination of scanner state {plain, after-backslash, in-quote(' or ")} x character class
   {backslash, ', ", space, other} x {word empty, non-empty}; the extracted table must satisfy the
   facts from which  split( join( escape( ws))) == ws  follows for backslash-escaping
R3 the generated argv array is well-formed (Engine C obligations of C04-R3)
Not decided: round trip for other quoting disciplines (mixed quotes); equality of destination values
between sources beyond 'same path, same flags'."""
from .. import rules
from ..rules import (callee_is, object_of, field_name, call_args, mentions_field, mentions_call,
                     mentions_var, loops_in, loop_header, enclosing_loops)
from ..facts import children, strip_all_casts, walk, CALL_KINDS, AnalysisBroken
from ..boolshape import Interp, NeedAtom, Unsupported
from . import c03, c04

BACKSLASH, SQ, DQ, SPACE, OTHER = 92, 39, 34, 32, 97
CLASSES = {'backslash': BACKSLASH, "quote'": SQ, 'quote"': DQ, 'space': SPACE, 'other': OTHER}


def r1(chk, prog):
    for short in ('readArgumentFile', 'checkReadEnvVarArgs'):
        f = prog.one('celma::prog_args::Handler', short)
        cfg = f.cfg
        mk = [c for c in f.calls() if callee_is(c, 'appl::make_arg_array', 'make_arg_array')]
        it = [c for c in f.calls() if callee_is(c, 'Handler::iterateArguments')]
        ok = bool(mk) and bool(it) and all(any(cfg.node_dominates(m, i) for m in mk) for i in it)
        # program name argument is nullptr (so that the words are argv[1..])
        pn_ok = all(len(call_args(m)) == 2 and strip_all_casts(call_args(m)[1]).get('k') in
                    ('CXXNullPtrLiteralExpr', 'GNUNullExpr') for m in mk)
        chk.check(ok and pn_ok, 'R1', f.name, 'words are produced by make_arg_array( text, nullptr) and evaluated by '
                  'iterateArguments()', f.loc())
        # the parser is built from exactly that array
        alp = [d for n in f.walk() if n.get('k') == 'DeclStmt' for d in n['decls'] if 'ArgListParser' in d.get('t', '')]
        arr = [d['name'] for n in f.walk() if n.get('k') == 'DeclStmt' for d in n['decls']
               if isinstance(d.get('init'), dict) and mentions_call(d['init'], 'make_arg_array')]
        ok = bool(alp) and bool(arr) and all(isinstance(d.get('init'), dict) and mentions_var(d['init'], arr[0]) and
                                             mentions_field(d['init'], 'mArgC') and mentions_field(d['init'], 'mpArgV')
                                             for d in alp)
        chk.check(ok, 'R1', f.name, 'the argument parser iterates over exactly the generated array', f.loc())
    # comment and empty lines are skipped before splitting
    f = prog.one('celma::prog_args::Handler', 'readArgumentFile')
    cfg = f.cfg
    mk = [c for c in f.calls() if callee_is(c, 'make_arg_array')]
    skip = False
    for bid, cond in cfg.cond_blocks():
        if cond is None:
            continue
        is_empty = mentions_call(cond, 'empty')
        is_hash = any(x.get('k') == 'CharacterLiteral' and x.get('val') == 35 for x in walk(cond))
        if is_empty or is_hash:
            tgt = cfg.succ[bid][0]
            if tgt is not None:
                seen = cfg.reach((tgt, 0), lambda p, e: False)
                # from the 'skip' edge the splitter is reachable only through the loop header again
                loops = loops_in(f)
                h = loop_header(cfg, loops[0]) if loops else None
                seen2 = cfg.reach((tgt, 0), lambda p, e: p[0] == h)
                if all(cfg.position(m) not in seen2 for m in mk):
                    skip = skip or (is_empty or is_hash)
    conds = [c for _, c in cfg.cond_blocks() if c is not None]
    has_both = any(mentions_call(c, 'empty') for c in conds) and \
        any(any(x.get('k') == 'CharacterLiteral' and x.get('val') == 35 for x in walk(c)) for c in conds)
    chk.check(skip and has_both, 'R1', f.name, 'empty lines and comment lines are skipped, not evaluated', f.loc())
    # no second evaluator
    callers = sorted({g.name for g in prog.functions for c in g.calls() if callee_is(c, 'Handler::evalSingleArgument')})
    allowed = {'celma::prog_args::Handler::iterateArguments', 'celma::prog_args::Groups::evalArguments',
               'celma::prog_args::Handler::processArg'}
    chk.check(set(callers) <= allowed and 'celma::prog_args::Handler::iterateArguments' in callers, 'R1',
              'celma::prog_args::Handler::evalSingleArgument',
              'all sources are evaluated by the one element evaluator', '', 'callers: %s' % callers)
    its = sorted({g.name for g in prog.functions for c in g.calls() if callee_is(c, 'Handler::iterateArguments')})
    want = {'celma::prog_args::Handler::evalArguments', 'celma::prog_args::Handler::readArgumentFile',
            'celma::prog_args::Handler::checkReadEnvVarArgs'}
    chk.check(want <= set(its), 'R1', 'celma::prog_args::Handler::iterateArguments',
              'command line, file and environment all feed iterateArguments()', '', 'callers: %s' % its)
    for g in prog.functions:
        if g.name == 'celma::prog_args::evalArgumentString':
            mk = [c for c in g.calls() if callee_is(c, 'make_arg_array')]
            ev = [c for c in g.calls() if callee_is(c, 'Handler::evalArguments', 'Groups::evalArguments')]
            ok = len(mk) == 1 and len(ev) == 1 and g.cfg.node_dominates(mk[0], ev[0]) and \
                mentions_field(call_args(ev[0])[0], 'mArgC') and mentions_field(call_args(ev[0])[1], 'mpArgV')
            chk.check(ok, 'R1', g.name, 'a command-line string is split once and evaluated by evalArguments() [%d params]'
                      % len(g.params), g.loc())


def splitter_table(chk, f):
    """abstract evaluation of one loop iteration of splitString for every (state, class)"""
    loops = loops_in(f)
    chk.require(len(loops) == 1 and loops[0].get('k') == 'CXXForRangeStmt', 'splitString: scanner loop not found')
    loop = loops[0]
    body = children(loop)[2]
    cvar = children(loop)[1]['decls'][0]['name']
    names = {}
    for n in f.walk():
        if n.get('k') == 'DeclStmt':
            for d in n['decls']:
                names[d['name']] = d.get('t')
    need = {'currWord', 'usedQuoteChar', 'inQuote', 'gotBackslash'}
    chk.require(need <= set(names), 'splitString: scanner state variables changed: %s' % sorted(names))
    table = {}
    for bs in (0, 1):
        for inq in (0, 1):
            for q in (SQ, DQ):
                if not inq and q == DQ:
                    continue
                for cname, ch in CLASSES.items():
                    for empty in (0, 1):
                        events = []

                        def cb_append(it, node):
                            a = call_args(node)
                            events.append(('append', it.ev(a[-1])))
                            return 0

                        def cb_push(it, node):
                            events.append(('emit',))
                            return 0

                        def cb_clear(it, node):
                            events.append(('clear',))
                            return 0

                        def cb_empty(it, node):
                            return empty
                        env = {cvar: ch, 'gotBackslash': bs, 'inQuote': inq, 'usedQuoteChar': q if inq else 45}
                        it = Interp(f, env, opaque_ok=False,
                                    callbacks={'append': cb_append, 'push_back': cb_push, 'clear': cb_clear,
                                               'empty': cb_empty})
                        it.locals.update(env)
                        try:
                            it.stmt(body)
                        except (NeedAtom, Unsupported) as e:
                            raise AnalysisBroken('splitString body not interpretable: %s' % (e,))
                        st = {k: it.locals.get(k, it.env.get(k)) for k in ('gotBackslash', 'inQuote', 'usedQuoteChar')}
                        table[(bs, inq, q if inq else None, cname, empty)] = (events, st)
    return table


def r2(chk, prog):
    fs = [f for f in prog.functions if f.short == 'splitString' and 'arg_string_2_array' in f.file]
    chk.require(fs, 'splitString not found')
    f = fs[0]
    table = splitter_table(chk, f)
    chk.samples.append({'splitter_table_rows': len(table)})
    bad = {k: [] for k in 'abcde'}
    for (bs, inq, q, cname, empty), (events, st) in table.items():
        ch = CLASSES[cname]
        app = [e for e in events if e[0] == 'append']
        emits = [e for e in events if e[0] == 'emit']
        row = 'state(bs=%d,quote=%s) char=%s empty=%d -> %s %s' % (bs, chr(q) if q else '-', cname, empty, events, st)
        if bs:
            # (a) after a backslash ANY character is taken literally and the previous state is resumed
            if not (app == [('append', ch)] and not emits and st['gotBackslash'] == 0 and st['inQuote'] == inq):
                bad['a'].append(row)
            continue
        if not inq:
            if cname == 'other':
                # (b) plain + ordinary character: appended, state unchanged
                if not (app == [('append', ch)] and not emits and st['inQuote'] == 0 and st['gotBackslash'] == 0):
                    bad['b'].append(row)
            elif cname == 'space':
                # (c) plain + space: ends a non-empty word, appends nothing
                want_emit = 0 if empty else 1
                if not (not app and len(emits) == want_emit and (empty or ('clear',) in events) and
                        st['inQuote'] == 0 and st['gotBackslash'] == 0):
                    bad['c'].append(row)
            elif cname == 'backslash':
                # (e) plain + backslash: nothing appended, escape pending
                if not (not app and not emits and st['gotBackslash'] == 1 and st['inQuote'] == 0):
                    bad['e'].append(row)
            else:
                # plain + quote: opens a quote of that kind, nothing appended
                if not (not app and not emits and st['inQuote'] == 1 and st['usedQuoteChar'] == ch):
                    bad['e'].append(row)
        else:
            # (d) inside a quote: everything except the active quote and backslash is appended
            if ch == q:
                if not (not app and not emits and st['inQuote'] == 0):
                    bad['d'].append(row)
            elif cname == 'backslash':
                if not (not app and not emits and st['gotBackslash'] == 1 and st['inQuote'] == 1):
                    bad['d'].append(row)
            else:
                if not (app == [('append', ch)] and not emits and st['inQuote'] == 1 and st['usedQuoteChar'] == q):
                    bad['d'].append(row)
    texts = {'a': 'after a backslash any character is appended literally and the previous state resumes',
             'b': 'an ordinary character outside quotes is appended',
             'c': 'an unescaped blank ends a non-empty word and is not part of any word',
             'd': 'inside quotes every character except the active quote and backslash is appended',
             'e': 'backslash and quote characters outside quotes only change the scanner state'}
    for k in 'abcde':
        chk.check(not bad[k], 'R2', f.name, texts[k], f.loc(), '; '.join(bad[k][:2]))
    # the word in progress is emitted at the end of the string
    cfg = f.cfg
    loop = loops_in(f)[0]
    finals = [c for c in f.calls() if c.get('callee', '').endswith('::push_back') and loop not in enclosing_loops(f, c)]
    ok = len(finals) == 1 and any(cond is not None and mentions_var(cond, 'currWord') and
                                  cfg.guarded_by_edge(cfg.position(finals[0]), bid, 0)
                                  for bid, cond in cfg.cond_blocks())
    chk.check(ok, 'R2', f.name, 'the last word is emitted at the end of the string if it is not empty', f.loc())
    # every character of the input is scanned in order
    rng = strip_all_casts(children(loop)[0])
    chk.check(rng.get('k') == 'DeclRefExpr' and rng['ref'].get('name') == f.params[1]['name'], 'R2', f.name,
              'the scanner visits every character of the string, in order', f.loc(loop))
    # copyArguments copies every word, in order, and terminates the array
    g = [x for x in prog.functions if x.short == 'copyArguments' and 'arg_string_2_array' in x.file]
    chk.require(g, 'copyArguments not found')
    g = g[0]
    lp = loops_in(g)
    src_ok = False
    for c in g.calls():
        if callee_is(c, 'strcpy'):
            a = call_args(c)
            lv = children(lp[0])[1]['decls'][0]['name'] if lp else None
            src_ok = mentions_var(a[1], lv) and mentions_call(a[1], 'c_str')
    chk.check(bool(lp) and src_ok, 'R2', g.name, 'every word is copied unchanged into the argv array', g.loc())


def run(chk):
    prog, units = rules.prog_args_program()
    chk.units = units
    chk.explanation = (
        'Same-path rules (must-pass-through / who-may-call / dominance) for the file and environment readers and for '
        'evalArgumentString(); the scanner of splitString() is evaluated abstractly (Engine B interpreter with event '
        'callbacks) for all 60 combinations of scanner state x character class x word-empty, and the resulting '
        'transition table is compared with the facts from which split( join( escape( ws))) == ws follows for '
        'backslash-escaping; the finite table check is valid for all strings. Capacity of the generated argv by '
        'Engine C (shared with C04). Not decided: other quoting disciplines, value equality between sources.')
    chk.assumptions = ['std::string::append/push_back/clear behave as documented',
                       'the round-trip argument is for words without NUL characters, escaped by prefixing backslash, '
                       'quote and blank characters with a backslash']
    chk.rule('R1', 'file / environment / string sources use the same evaluation path as argv', 8)
    chk.rule('R2', 'splitter transition table implies the round trip for backslash escaping', 8)
    chk.rule('R3', 'override instead of cardinality error; generated argv capacity', 8)
    r1(chk, prog)
    r2(chk, prog)
    # R3: read-mode flags (C03-R3) and argv capacity (C04-R3)
    sub = type(chk)(chk.pid, chk.tier)
    sub._known = []
    c03.r3(sub, prog)
    eng = c04.make_engine(prog)
    c04.r1_r3(sub, prog, eng)
    for o in sub.obligations:
        if o['rule'] in ('R3',) or 'ArgString2Array' in o['function'] or 'ReadMode' in o['function'] \
                or 'read-mode' in o['what'] or 'ignore_cardinality' in o['what']:
            chk.check(o['status'] == 'held', 'R3', o['function'], o['what'], o['where'], o.get('detail', ''))
