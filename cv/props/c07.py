"""C07 — Arguments from a string, a file or the environment equal the same words on argv.

R1 same evaluation path: the file and environment readers build their word list with
   appl::make_arg_array( ..., nullptr) and feed Handler::iterateArguments() - the function
   evalArguments() uses; there is no second evaluator; comment and empty lines are skipped before
   splitting; the read-mode bit is set by a scoped flag around exactly that call (C03-R3)
R2 splitter transition table: the if/else chain of splitString() is evaluated abstractly for every
   combination of scanner state {plain, after-backslash, in-quote(' or ")} x character class
   {backslash, ', ", space, other} x {word empty, non-empty}; the extracted table must satisfy the
   facts from which  split( join( escape( ws))) == ws  follows for backslash-escaping
R3 the generated argv array is well-formed (Engine C obligations of C04-R3)
Not decided: round trip for other quoting disciplines (mixed quotes); equality of destination values
between sources beyond 'same path, same flags'."""
from .. import rules
from ..rules import (callee_is, object_of, field_name, call_args, mentions_field, mentions_call,
                     mentions_var, loops_in, loop_header, enclosing_loops)
from ..facts import children, strip_all_casts, walk, CALL_KINDS, AnalysisBroken
from ..boolshape import Interp, NeedAtom, Unsupported, ContinueLoop
from . import c03, c04

BACKSLASH, SQ, DQ, SPACE, OTHER = 92, 39, 34, 32, 97
CLASSES = {'backslash': BACKSLASH, "quote'": SQ, 'quote"': DQ, 'space': SPACE, 'other': OTHER}


def r1(chk, prog):
    for short in ('readArgumentFile', 'checkReadEnvVarArgs'):
        f = prog.one('celma::prog_args::Handler', short)
        cfg = f.cfg
        mk = [c for c in f.calls() if callee_is(c, 'appl::make_arg_array', 'make_arg_array')]
        it = [c for c in f.calls() if callee_is(c, 'Handler::iterateArguments')]
        ok = bool(mk) and bool(it) and all(any(cfg.node_dominates(m, i) for m in mk) for i in it)
        # program name argument is nullptr (so that the words are argv[1..])
        pn_ok = all(len(call_args(m)) == 2 and strip_all_casts(call_args(m)[1]).get('k') in
                    ('CXXNullPtrLiteralExpr', 'GNUNullExpr') for m in mk)
        chk.check(ok and pn_ok, 'R1', f.name, 'words are produced by make_arg_array( text, nullptr) and evaluated by '
                  'iterateArguments()', f.loc())
        # the parser is built from exactly that array
        alp = [d for n in f.walk() if n.get('k') == 'DeclStmt' for d in n['decls'] if 'ArgListParser' in d.get('t', '')]
        arr = [d['name'] for n in f.walk() if n.get('k') == 'DeclStmt' for d in n['decls']
               if isinstance(d.get('init'), dict) and mentions_call(d['init'], 'make_arg_array')]
        ok = bool(alp) and bool(arr) and all(isinstance(d.get('init'), dict) and mentions_var(d['init'], arr[0]) and
                                             mentions_field(d['init'], 'mArgC') and mentions_field(d['init'], 'mpArgV')
                                             for d in alp)
        chk.check(ok, 'R1', f.name, 'the argument parser iterates over exactly the generated array', f.loc())
    # comment and empty lines are skipped before splitting
    f = prog.one('celma::prog_args::Handler', 'readArgumentFile')
    cfg = f.cfg
    mk = [c for c in f.calls() if callee_is(c, 'make_arg_array')]
    skip = False
    for bid, cond in cfg.cond_blocks():
        if cond is None:
            continue
        is_empty = mentions_call(cond, 'empty')
        is_hash = any(x.get('k') == 'CharacterLiteral' and x.get('val') == 35 for x in walk(cond))
        if is_empty or is_hash:
            tgt = cfg.succ[bid][0]
            if tgt is not None:
                seen = cfg.reach((tgt, 0), lambda p, e: False)
                # from the 'skip' edge the splitter is reachable only through the loop header again
                loops = loops_in(f)
                h = loop_header(cfg, loops[0]) if loops else None
                seen2 = cfg.reach((tgt, 0), lambda p, e: p[0] == h)
                if all(cfg.position(m) not in seen2 for m in mk):
                    skip = skip or (is_empty or is_hash)
    conds = [c for _, c in cfg.cond_blocks() if c is not None]
    has_both = any(mentions_call(c, 'empty') for c in conds) and \
        any(any(x.get('k') == 'CharacterLiteral' and x.get('val') == 35 for x in walk(c)) for c in conds)
    chk.check(skip and has_both, 'R1', f.name, 'empty lines and comment lines are skipped, not evaluated', f.loc())
    # no second evaluator
    callers = sorted({g.name for g in prog.functions for c in g.calls() if callee_is(c, 'Handler::evalSingleArgument')})
    allowed = {'celma::prog_args::Handler::iterateArguments', 'celma::prog_args::Groups::evalArguments',
               'celma::prog_args::Handler::processArg'}
    chk.check(set(callers) <= allowed and 'celma::prog_args::Handler::iterateArguments' in callers, 'R1',
              'celma::prog_args::Handler::evalSingleArgument',
              'all sources are evaluated by the one element evaluator', '', 'callers: %s' % callers)
    its = sorted({g.name for g in prog.functions for c in g.calls() if callee_is(c, 'Handler::iterateArguments')})
    want = {'celma::prog_args::Handler::evalArguments', 'celma::prog_args::Handler::readArgumentFile',
            'celma::prog_args::Handler::checkReadEnvVarArgs'}
    chk.check(want <= set(its), 'R1', 'celma::prog_args::Handler::iterateArguments',
              'command line, file and environment all feed iterateArguments()', '', 'callers: %s' % its)
    for g in prog.functions:
        if g.name == 'celma::prog_args::evalArgumentString':
            mk = [c for c in g.calls() if callee_is(c, 'make_arg_array')]
            ev = [c for c in g.calls() if callee_is(c, 'Handler::evalArguments', 'Groups::evalArguments')]
            ok = len(mk) == 1 and len(ev) == 1 and g.cfg.node_dominates(mk[0], ev[0]) and \
                mentions_field(call_args(ev[0])[0], 'mArgC') and mentions_field(call_args(ev[0])[1], 'mpArgV')
            chk.check(ok, 'R1', g.name, 'a command-line string is split once and evaluated by evalArguments() [%d params]'
                      % len(g.params), g.loc())


def scanner_vars(f, loop):
    """the local scalars declared before the scanner loop (its state), with the Interp that initialised them"""
    names = []
    for n in children(f.body):
        if n is loop:
            break
        if n.get('k') == 'DeclStmt':
            for d in n['decls']:
                t = (d.get('t') or '')
                if t in ('bool', 'char', 'int', 'unsigned int', 'unsigned char', 'unsigned long', 'long'):
                    names.append(d['name'])
    return names


def ref_step(state, ch):
    """the reference transducer: state = (quote or None, escaped, word empty); returns (state', events)"""
    quote, esc, empty = state
    if esc:
        return (quote, False, False), [('append', ch)]
    if ch == BACKSLASH:
        return (quote, True, empty), []
    if quote is not None:
        if ch == quote:
            return (None, False, empty), []
        return (quote, False, False), [('append', ch)]
    if ch in (SQ, DQ):
        return (ch, False, empty), []
    if ch == SPACE:
        return (None, False, True), ([] if empty else [('emit',)])
    return (None, False, False), [('append', ch)]


def explore_scanner(chk, f):
    """lock-step exploration of the scanner loop of splitString against the reference transducer over the character
    classes: every reachable pair (scanner state, reference state) is stepped with every class and must produce
    the same output events.  The scanner state is whatever local scalars the function keeps (no names assumed)."""
    loops = loops_in(f)
    chk.require(len(loops) == 1 and loops[0].get('k') == 'CXXForRangeStmt', 'splitString: scanner loop not found')
    loop = loops[0]
    body = children(loop)[2]
    cvar = children(loop)[1]['decls'][0]['name']
    names = scanner_vars(f, loop)
    chk.require(names, 'splitString: no scanner state found')

    def run(locals_in, empty, stmts):
        events = []

        def cb_append(it, node):
            a = call_args(node)
            events.append(('append', it.ev(a[-1])))
            return 0

        def cb_push(it, node):
            events.append(('emit',))
            return 0

        def cb_clear(it, node):
            events.append(('clear',))
            return 0

        def cb_empty(it, node):
            e = empty
            for ev in events:
                e = 0 if ev[0] == 'append' else (1 if ev[0] == 'clear' else e)
            return e

        def cb_length(it, node):
            return 0 if cb_empty(it, node) else 1
        it = Interp(f, dict(locals_in), opaque_ok=False,
                    callbacks={'append': cb_append, 'push_back': cb_push, 'clear': cb_clear, 'empty': cb_empty,
                               'length': cb_length, 'size': cb_length, 'operator+=': cb_append})
        it.locals.update(locals_in)
        try:
            for st in stmts:
                it.stmt(st)
        except ContinueLoop:
            pass                 # the iteration ends here
        except (NeedAtom, Unsupported) as e:
            raise AnalysisBroken('splitString not interpretable: %s' % (e,))
        return it, events
    # initial scanner state from the declarations
    decls = []
    for n in children(f.body):
        if n is loop:
            break
        if n.get('k') == 'DeclStmt' and any(d['name'] in names for d in n['decls']):
            decls.append(n)
    it0, _ = run({}, 1, decls)
    init = tuple(it0.locals.get(v, it0.env.get(v, 0)) for v in names)
    start = (init, (None, False, True))
    seen = {start: ()}
    todo = [start]
    mismatches = []
    steps = 0
    while todo and len(seen) < 5000 and not mismatches:
        impl, ref = todo.pop(0)
        for cname, ch in CLASSES.items():
            steps += 1
            env = dict(zip(names, impl))
            env[cvar] = ch
            it, events = run(env, 1 if ref[2] else 0, [body])
            out = [e for e in events if e[0] != 'clear']
            # an emit must be followed by clearing the word
            cleared = all(('clear',) in events[i + 1:] for i, e in enumerate(events) if e[0] == 'emit')
            ref2, want = ref_step(ref, ch)
            path = seen[(impl, ref)] + (cname,)
            if out != want or not cleared:
                mismatches.append('after the characters [%s] the scanner %s, the reference %s' % (
                    ', '.join(path), describe(out, cleared), describe(want, True)))
                break
            nxt = (tuple(it.locals.get(v, it.env.get(v, 0)) for v in names), ref2)
            if nxt not in seen:
                seen[nxt] = path
                todo.append(nxt)
    return names, len(seen), steps, mismatches


def describe(events, cleared):
    if not events:
        return 'outputs nothing'
    txt = []
    for e in events:
        txt.append('appends %r' % chr(e[1]) if e[0] == 'append' and isinstance(e[1], int) and 0 < e[1] < 128 else
                   ('ends the word' if e[0] == 'emit' else str(e)))
    return ', '.join(txt) + ('' if cleared else ' (without clearing it)')


def r2(chk, prog):
    fs = [f for f in prog.functions if f.short == 'splitString' and 'arg_string_2_array' in f.file]
    chk.require(fs, 'splitString not found')
    f = fs[0]
    names, n_states, steps, mismatches = explore_scanner(chk, f)
    chk.samples.append({'scanner_state_variables': names, 'reachable_product_states': n_states, 'steps': steps})
    chk.check(not mismatches, 'R2', f.name, 'the scanner is equivalent to the reference splitter (backslash escapes '
              'the next character everywhere, quotes group, an unquoted blank ends a non-empty word) on every '
              'reachable state for every character class', f.loc(), '; '.join(mismatches[:2]))
    chk.require(n_states >= 4, 'scanner exploration reached only %d states' % n_states)
    # the word in progress is emitted at the end of the string
    cfg = f.cfg
    loop = loops_in(f)[0]
    finals = [c for c in f.calls() if c.get('callee', '').endswith('::push_back') and loop not in enclosing_loops(f, c)]
    ok = len(finals) == 1 and any(cond is not None and mentions_var(cond, 'currWord') and
                                  cfg.guarded_by_edge(cfg.position(finals[0]), bid, 0)
                                  for bid, cond in cfg.cond_blocks())
    chk.check(ok, 'R2', f.name, 'the last word is emitted at the end of the string if it is not empty', f.loc())
    # every character of the input is scanned in order
    rng = strip_all_casts(children(loop)[0])
    chk.check(rng.get('k') == 'DeclRefExpr' and rng['ref'].get('name') == f.params[1]['name'], 'R2', f.name,
              'the scanner visits every character of the string, in order', f.loc(loop))
    # copyArguments copies every word, in order, and terminates the array
    g = [x for x in prog.functions if x.short == 'copyArguments' and 'arg_string_2_array' in x.file]
    chk.require(g, 'copyArguments not found')
    g = g[0]
    lp = loops_in(g)
    src_ok = False
    for c in g.calls():
        if callee_is(c, 'strcpy'):
            a = call_args(c)
            lv = children(lp[0])[1]['decls'][0]['name'] if lp else None
            src_ok = mentions_var(a[1], lv) and mentions_call(a[1], 'c_str')
    chk.check(bool(lp) and src_ok, 'R2', g.name, 'every word is copied unchanged into the argv array', g.loc())
    # ... and the constructors hand the words of the splitter on as they are: the local word list is filled by
    # splitString(), measured, and given to copyArguments() - nothing removes, adds or rewrites a word in between
    # (every file line, the environment variable and evalArgumentString() come through here without a program name)
    ctors = [x for x in prog.functions if (x.classq or '').endswith('appl::ArgString2Array') and x.d.get('ctor')
             and x.body is not None and any(callee_is(c, 'splitString') for c in x.calls())]
    chk.require(len(ctors) >= 2, 'constructors of ArgString2Array that split a string: %d' % len(ctors))
    READ_ONLY = ('size', 'empty', 'capacity', 'cbegin', 'cend', 'length')
    for cf in ctors:
        words = [d for ds in cf.walk() if ds.get('k') == 'DeclStmt' for d in ds.get('decls', [])
                 if 'vector' in (d.get('t') or '') and 'basic_string' in (d.get('t') or '')]
        chk.require(len(words) == 1, '%s: local word list not found' % cf.name)
        did = words[0].get('did')
        other = []
        handed_on = 0
        for x in cf.walk():
            if x.get('k') != 'DeclRefExpr' or x['ref'].get('did') != did:
                continue
            p_ = cf.parent(x)
            while p_ is not None and p_.get('k') in ('ImplicitCastExpr', 'ParenExpr', 'MemberExpr'):
                p_ = cf.parent(p_)
            if p_ is not None and p_.get('k') in CALL_KINDS:
                short = (p_.get('callee') or '').split('::')[-1]
                if short == 'splitString':
                    continue
                if short == 'copyArguments':
                    handed_on += 1
                    continue
                if p_.get('k') == 'CXXMemberCallExpr' and short in READ_ONLY:
                    continue
                other.append('%s() in line %s' % (short, p_.get('l')))
            else:
                other.append('line %s' % x.get('l'))
        chk.check(handed_on == 1 and not other, 'R2', cf.name, 'the words of the splitter are handed to the argv array '
                  'as they are (none removed, added or rewritten)', cf.loc(), 'other uses of the word list: %s' % other)


def r4_pairing_state_survives_chunks(chk, prog):
    """words delivered through file lines / the environment variable continue the value list of the argument that
    is still open, exactly as the next argv word does: the pairing state of the handler (mpLastArg, 'the argument
    whose value list is open') is written only by the per-word functions and by the scope of a whole evaluation -
    never by a function that runs once per chunk (a file line, the environment variable, a nested argument file),
    i.e. by iterateArguments() or any function between the evaluation entry point and it"""
    hf = [f for f in prog.functions if f.classq == 'celma::prog_args::Handler' and f.body is not None]
    by_key = {f.key: f for f in hf}
    calls = {f.key: {c.get('ckey') for c in f.calls() if c.get('ckey') in by_key} for f in hf}
    it = [f for f in hf if f.short == 'iterateArguments']
    chk.require(it, 'Handler::iterateArguments not found')
    chunk = {it[0].key}
    changed = True
    while changed:
        changed = False
        for k, cs in calls.items():
            if k not in chunk and cs & chunk and by_key[k].short not in ('evalSingleArgument', 'processArg',
                                                                        'handleIdentifiedArg'):
                chunk.add(k)
                changed = True
    # the scope of one complete evaluation may reset the state for the next evaluation
    entry = {k for k in chunk if by_key[k].short in ('evalArguments', 'evalArgumentsErrorExit')}
    chunk -= entry
    chk.require(len(chunk) >= 3, 'functions that run once per chunk: %s' % sorted(by_key[k].short for k in chunk))
    resetters = {f.key for f in hf if f.key not in chunk and any(
        n.get('k') == 'BinaryOperator' and n.get('op') == '=' and field_name(children(n)[0]) == 'mpLastArg'
        for n in f.walk()) and f.short not in ('processArg', 'evalSingleArgument')}
    for k in sorted(chunk):
        f = by_key[k]
        writes = []
        for n in f.walk():
            if n.get('k') == 'BinaryOperator' and n.get('op') == '=' and field_name(children(n)[0]) == 'mpLastArg':
                writes.append((n, 'assignment'))
            elif n.get('k') == 'DeclStmt':
                for d in n.get('decls', []):
                    if isinstance(d.get('init'), dict) and mentions_field(d['init'], 'mpLastArg') and any(
                            t in d.get('t', '') for t in ('ResetAtExit', 'ScopedValue', 'ScopeExitExecute')):
                        writes.append((n, 'scoped reset (%s)' % d['name']))
            elif n.get('k') in CALL_KINDS and n.get('ckey') in resetters:
                writes.append((n, 'call of %s()' % by_key[n['ckey']].short))
        chk.check(not writes, 'R4', f.name, 'the open value list (mpLastArg) survives the end of a chunk of words '
                  '[%s() runs once per file line / environment variable / argument vector]' % f.short, f.loc(),
                  '; '.join('%s at line %s' % (w, n.get('l')) for n, w in writes) +
                  ': values that continue on the next line / on the command line are no longer values of the '
                  'open argument')
    return len(chunk)


def r8_env_var_name(chk, prog, rule='R8'):
    """the environment variable that is read is the one the application named: Handler::checkReadEnvVarArgs() derives
    (and upper-cases) a name only when none was set - every write or in-place transformation of the name member is
    guarded by the 'name is empty' test - and getenv() is asked for exactly that member; the setter stores the given
    name unchanged"""
    from ..rules import implied_edges
    f = prog.one('celma::prog_args::Handler', 'checkReadEnvVarArgs')
    cfg = f.cfg
    NAME = 'mEnvVarName'
    empty_true = implied_edges(f, lambda x: x.get('k') == 'CXXMemberCallExpr' and (x.get('callee') or '').endswith('::empty')
                               and field_name(object_of(x)) == NAME, True)
    chk.require(empty_true, 'checkReadEnvVarArgs: test "no name set" not found')
    writes = []
    for x in f.walk():
        if x.get('k') == 'CXXOperatorCallExpr' and x.get('op') in ('=', '+=') and call_args(x) and \
                field_name(call_args(x)[0]) == NAME:
            writes.append(x)
        elif x.get('k') == 'CXXMemberCallExpr' and field_name(object_of(x)) == NAME and \
                (x.get('callee') or '').split('::')[-1] in ('assign', 'append', 'insert', 'erase', 'replace', 'clear',
                                                            'push_back', 'resize', 'swap'):
            writes.append(x)
        elif x.get('k') == 'CallExpr' and any(field_name(a) == NAME and pk in ('ref', 'ptr')
                                              for a, pk in zip(call_args(x), x.get('pk') or [])):
            writes.append(x)
    for w in writes:
        pos = cfg.position(w)
        ok = any(b in cfg.succ[a] and cfg.guarded_by_edge(pos, a, cfg.succ[a].index(b)) for a, b in empty_true)
        chk.check(ok, rule, f.name, 'the name of the environment variable is derived / transformed only when the '
                  'application did not name one', f.loc(w), 'a name given by the application is changed before getenv()')
    ge = [c for c in f.calls() if callee_is(c, 'getenv')]
    chk.check(len(ge) == 1 and mentions_field(call_args(ge[0])[0], NAME) and
              not f.cfg.must_pass_through(lambda n: n in ge), rule, f.name, 'getenv() is asked for the stored name',
              f.loc())
    setters = [g for g in prog.functions if g.classq == 'celma::prog_args::Handler' and g.short == 'checkEnvVarArgs'
               and g.body is not None]
    for g in setters:
        asg = [x for x in g.walk() if x.get('k') == 'CXXOperatorCallExpr' and x.get('op') == '=' and call_args(x) and
               field_name(call_args(x)[0]) == NAME]
        ok = bool(asg) and all(strip_all_casts(call_args(a)[1]).get('k') == 'DeclRefExpr' or
                               mentions_var(call_args(a)[1], g.params[0]['name']) if g.params else True for a in asg)
        calls_on_rhs = [c for a in asg for c in walk(call_args(a)[1]) if c.get('k') == 'CallExpr']
        chk.check(ok and not calls_on_rhs, rule, g.name, 'the name given by the application is stored unchanged', g.loc())
    return len(writes)


def r9_file_line_unmodified(chk, prog, rule='R9'):
    """the words of an argument file are the words of its lines: the line that readArgumentFile() hands to the splitter
    is the line as it was read - between getline() and make_arg_array() nothing erases, trims, replaces or appends
    characters (an escaped trailing blank belongs to the last word, exactly as on argv)"""
    f = prog.one('celma::prog_args::Handler', 'readArgumentFile')
    gl = [c for c in f.calls() if callee_is(c, 'getline')]
    mk = [c for c in f.calls() if callee_is(c, 'make_arg_array')]
    chk.require(gl and mk, 'readArgumentFile: getline() / make_arg_array() not found')
    line = None
    for a in call_args(gl[0]):
        a0 = strip_all_casts(a)
        if a0.get('k') == 'DeclRefExpr' and 'basic_string' in (a0.get('t') or a0['ref'].get('dt') or ''):
            line = a0['ref'].get('name')
    chk.require(line is not None, 'readArgumentFile: line variable not found')
    chk.check(any(mentions_var(a, line) for a in call_args(mk[0])), rule, f.name, 'the line that was read is what is '
              'split into words', f.loc(mk[0]))
    MUT = ('erase', 'resize', 'pop_back', 'assign', 'replace', 'append', 'insert', 'operator+=', 'operator=', 'clear',
           'push_back', 'swap')
    bad = []
    for c in f.calls():
        nm = (c.get('callee') or '').split('::')[-1]
        if c.get('k') == 'CXXMemberCallExpr' and nm in MUT and mentions_var(object_of(c), line):
            bad.append(nm)
        elif c.get('k') == 'CXXOperatorCallExpr' and nm in MUT and call_args(c) and \
                strip_all_casts(call_args(c)[0]).get('ref', {}).get('name') == line:
            bad.append(nm)
        elif c.get('k') == 'CallExpr' and nm not in ('getline',) and any(
                strip_all_casts(a).get('ref', {}).get('name') == line and pk in ('ref', 'ptr')
                for a, pk in zip(call_args(c), c.get('pk') or [])):
            bad.append(nm)
    chk.check(not bad, rule, f.name, 'the line is not modified between reading and splitting', f.loc(),
              'calls on the line: %s' % sorted(set(bad)))


def r10_nesting_is_left_again(chk, prog):
    """Handler::readArgumentFile() bounds the nesting of argument files with a counter (C04-R14).  The counter is the
    DEPTH: it is restored to its entry value when the file is done - the restoring guard (common::ResetAtExit) is set
    up before the increment, so that it captures the entry value.  Otherwise the counter counts every file the
    handler ever read, and a valid command line spread over many flat files is refused."""
    f = prog.one('celma::prog_args::Handler', 'readArgumentFile')
    cfg = f.cfg
    incs = [x for x in f.walk() if x.get('k') == 'UnaryOperator' and x.get('op') == '++' and
            field_name(children(x)[0])]
    if not incs:
        chk.ok('R10', f.name, 'readArgumentFile() keeps no nesting counter')
        return
    for inc in incs:
        fld = field_name(children(inc)[0])
        guards = []
        for n_ in f.walk():
            if n_.get('k') != 'DeclStmt':
                continue
            for d in n_.get('decls', []):
                if 'ResetAtExit<' in d.get('t', '') and isinstance(d.get('init'), dict):
                    args = children(d['init'])
                    if len(args) >= 2 and field_name(args[0]) == fld and mentions_field(args[1], fld):
                        guards.append(n_)
        decs = [x for x in f.walk() if x.get('k') == 'UnaryOperator' and x.get('op') == '--' and
                field_name(children(x)[0]) == fld]
        if not guards and not decs:
            chk.check(False, 'R10', f.name, 'the nesting level %s is left again when the file is done' % fld, f.loc(inc),
                      'it is incremented and never restored')
            continue
        if not guards:
            raise AnalysisBroken('readArgumentFile restores %s without common::ResetAtExit: idiom not known' % fld)
        ok = any(cfg.node_dominates(g, inc) for g in guards)
        chk.check(ok, 'R10', f.name, 'the guard that restores the nesting level %s captures its value before the '
                  'increment' % fld, f.loc(inc), 'the guard is set up behind the increment: it restores the incremented '
                  'value, the level grows with every file read')


def run(chk):
    prog, units = rules.prog_args_program()
    chk.units = units
    chk.explanation = (
        'Same-path rules (must-pass-through / who-may-call / dominance) for the file and environment readers and for '
        'evalArgumentString(); the scanner of splitString() is evaluated abstractly (Engine B interpreter with event '
        'callbacks) as a finite-state transducer over the character classes {backslash, single quote, double quote, '
        'blank, other} and explored in lock-step with a reference splitter from the initial state: every reachable '
        'pair of states must produce the same output events for every class (a bisimulation, valid for all strings; '
        'no variable names are assumed), from which split( join( escape( ws))) == ws follows for backslash-escaping. Capacity of the generated argv by '
        'Engine C (shared with C04). Not decided: other quoting disciplines, value equality between sources.')
    chk.assumptions = ['std::string::append/push_back/clear behave as documented',
                       'the round-trip argument is for words without NUL characters, escaped by prefixing backslash, '
                       'quote and blank characters with a backslash']
    chk.rule('R1', 'file / environment / string sources use the same evaluation path as argv', 8)
    chk.rule('R2', 'the splitter is equivalent to the reference transducer (implies the round trip for backslash escaping)', 4)
    chk.rule('R3', 'override instead of cardinality error; generated argv capacity', 8)
    r1(chk, prog)
    r2(chk, prog)
    chk.rule('R4', 'the open value list survives chunk boundaries (file lines, environment, argv)', 3)
    r4_pairing_state_survives_chunks(chk, prog)
    # R5: every line of an argument file is evaluated - also a last line without a terminating newline: the loop
    # runs its body exactly when the read delivered a line (condition == success of the read)
    from ..rules import stream_read_in, stream_loop_condition, loops_in
    chk.rule('R5', 'every line of an argument file is evaluated (the read loop runs for every line delivered)', 1)
    rf = prog.one('celma::prog_args::Handler', 'readArgumentFile')
    n5 = 0
    for loop in loops_in(rf):
        kids = loop.get('c', [])
        cond = kids[-2] if loop.get('k') == 'WhileStmt' else None
        if not isinstance(cond, dict) or stream_read_in(cond) is None:
            continue
        n5 += 1
        v = stream_loop_condition(cond)
        chk.check(v == 'success', 'R5', rf.name, 'the line loop runs for every line the read delivers, including an '
                  'unterminated last line', rf.loc(loop),
                  {'eof': "the condition is !eof(): a last line without newline sets eofbit while it is delivered and "
                          "is silently dropped",
                   'good': 'the condition is good(): a last line without newline sets eofbit and is dropped',
                   'other': 'the condition is not the success of the read'}.get(v, ''))
    chk.require(n5 >= 1, 'readArgumentFile: line loop not found')
    # R6: words of a file / of the environment that belong to a sub-group are evaluated by the sub-group's own handler:
    # it must see the read mode of the handler that dispatches to it (its own mReadMode decides whether a value
    # counts against the cardinality, C03-R3) - otherwise such a value cannot be overridden from the command line
    # a value from a file / the environment that is given again on the command line yields the command-line value:
    # what is stored never depends on what the destination held before (a toggling flag would be cleared again)
    chk.rule('R7', 'the stored value never depends on the previous content of the destination (shared with C01-R12)', 10)
    from . import c01 as _c01
    _c01.r12_store_independent_of_destination(chk, prog, rule='R7')
    chk.rule('R8', 'the environment variable that is read is the one the application named', 3)
    r8_env_var_name(chk, prog)
    chk.rule('R9', 'the lines of an argument file reach the splitter unmodified', 2)
    r9_file_line_unmodified(chk, prog)
    chk.rule('R10', 'the argument file nesting level is a depth, not a total', 1)
    r10_nesting_is_left_again(chk, prog)
    chk.rule('R6', 'the read mode reaches the sub-group handler that evaluates words of a file / environment source', 1)
    pa = prog.one('celma::prog_args::Handler', 'processArg')
    pcfg = pa.cfg
    subcalls = [c for c in pa.calls() if callee_is(c, 'Handler::evalSingleArgument') and object_of(c) is not None and
                strip_all_casts(object_of(c)).get('k') != 'CXXThisExpr']
    chk.require(subcalls, 'processArg: dispatch to the sub-group handler not found')
    for c in subcalls:
        o = strip_all_casts(object_of(c))
        var = o.get('ref', {}).get('name') if o.get('k') == 'DeclRefExpr' else None
        hands = []
        for x in pa.walk():
            if x.get('k') == 'BinaryOperator' and x.get('op') == '=' and field_name(children(x)[0]) == 'mReadMode' and \
                    var is not None and mentions_var(children(x)[0], var) and mentions_field(children(x)[1], 'mReadMode'):
                hands.append(x)
            elif x.get('k') == 'DeclStmt':
                for d in x.get('decls', []):
                    if isinstance(d.get('init'), dict) and var is not None and any(
                            t in d.get('t', '') for t in ('ScopedValue', 'ScopedFlag')) and \
                            mentions_var(d['init'], var) and len([y for y in walk(d['init']) if y.get('k') == 'MemberExpr'
                                                                  and y.get('ref', {}).get('name') == 'mReadMode']) >= 2:
                        hands.append(x)
        ok = any(pcfg.node_dominates(h_, c) for h_ in hands)
        chk.check(ok, 'R6', pa.name, 'the sub-group handler evaluates its words in the read mode of the dispatching '
                  'handler', pa.loc(c), 'the sub-group handler keeps its own read mode (command line): a value it reads '
                  'from a file / the environment counts against the cardinality and cannot be overridden from the '
                  'command line ("too many values")')
    # R3: read-mode flags (C03-R3) and argv capacity (C04-R3)
    sub = type(chk)(chk.pid, chk.tier)
    sub._known = []
    c03.r3(sub, prog)
    c03.r5_every_count_guarded(sub, prog)       # list elements from file / environment are not counted either
    eng = c04.make_engine(prog)
    c04.r1_r3(sub, prog, eng)
    for o in sub.obligations:
        if o['rule'] in ('R3', 'R5') or 'ArgString2Array' in o['function'] or 'ReadMode' in o['function'] \
                or 'read-mode' in o['what'] or 'ignore_cardinality' in o['what']:
            chk.check(o['status'] == 'held', 'R3', o['function'], o['what'], o['where'], o.get('detail', ''))
