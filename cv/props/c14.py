"""C14 — A log message reaches exactly the destinations whose filters it passes.

R1 enum-indexed containers have capacity > the largest enumerator
R2 level filters accept exactly l <= m, l >= m, l == m (truth tables)
R3 pre-check soundness: pass(msg) == processLevel(msg.getLevel()) per class;
   Filters::processLevel covers exactly the level filter types; Filters::pass
   is the conjunction of all filters
R4 routing loops: every selected log / every destination gets the message once
R5 class / level names: text functions exhaustive, distinct, inverse loop bound
R6 duplicate policy: single writer, constructors do not reset a configured policy;
   a duplicate filter type never adds a second filter"""
import os
import re

from .. import rules, effects
from ..rules import (callee_is, object_of, field_name, call_args, mentions_field, mentions_call,
                     mentions_var, loops_in, loop_header, loop_iteration_must_pass, enclosing_loops,
                     exempt_edges)
from ..facts import VERIF, load_program, library_units, units_matching, children, strip_all_casts, strip_casts, \
    walk, CALL_KINDS, AnalysisBroken
from ..boolshape import truth_table, Unsupported, Interp, NeedAtom


def r1_enum_capacity(chk, prog):
    n = 0
    for f in prog.functions:
        for c in f.calls():
            q = c.get('callee', '')
            m = re.match(r'std::bitset<(\d+)>::(operator\[\]|set|test|reset|flip)$', q)
            am = re.match(r'std::array<.*, (\d+)>::(operator\[\]|at)$', q)
            if not (m or am):
                continue
            cap = int((m or am).group(1))
            args = call_args(c)
            if not args:
                continue
            idx = args[-1] if c.get('k') == 'CXXOperatorCallExpr' else args[0]
            enum_t = None
            for x in walk(idx):
                if x.get('k') in ('CXXStaticCastExpr', 'CStyleCastExpr', 'CXXFunctionalCastExpr'):
                    sub = children(x)
                    for y in sub:
                        t = (strip_casts(y).get('t') or '').replace('const ', '')
                        if t in prog.enums:
                            enum_t = t
            if enum_t is None:
                continue
            n += 1
            mx = max(e['val'] for e in prog.enums[enum_t]['enumerators'])
            chk.check(cap > mx, 'R1', f.name, 'container indexed by %s has room for every enumerator' % enum_t,
                      f.loc(c), 'capacity %d, largest enumerator value %d' % (cap, mx))
    # the field declaration itself (independent of use sites)
    for cn, cls in prog.classes.items():
        for fld in cls['fields']:
            m = re.match(r'std::bitset<(\d+)>$', fld['t'])
            if m and cn == 'celma::log::filter::detail::LogFilterClasses':
                mx = max(e['val'] for e in prog.enums['celma::log::LogClass']['enumerators'])
                n += 1
                chk.check(int(m.group(1)) > mx, 'R1', cn, 'class selection bitset holds every log class', '',
                          'bitset<%s> but largest LogClass value is %d' % (m.group(1), mx))
    return n


def r2_r3(chk, prog):
    specs = [('LogFilterMaxLevel', 'mMaxLevel', lambda l, m: l <= m, 'l <= max'),
             ('LogFilterMinLevel', 'mMinLevel', lambda l, m: l >= m, 'l >= min'),
             ('LogFilterLevel', 'mLevel', lambda l, m: l == m, 'l == level')]
    for cls, fld, oracle, txt in specs:
        cq = 'celma::log::filter::detail::' + cls
        f = prog.one(cq, 'processLevel')
        try:
            atoms, rows = truth_table(f)
        except Unsupported as u:
            raise AnalysisBroken('%s::processLevel not interpretable: %s' % (cls, u))
        bad = None
        have = {a for a, _ in atoms}
        if not {f.params[0]['name'], 'this.' + fld} <= have:
            # the verdict does not depend on the level given / on the configured level at all
            chk.check(False, 'R2', f.name, 'accepts exactly %s' % txt, f.loc(),
                      'the result is a function of %s only' % (sorted(have) or 'nothing'))
        else:
            for env, out, _ in rows:
                l = env[f.params[0]['name']]
                m = env['this.' + fld]
                if bool(out[1]) != oracle(l, m):
                    bad = (env, out)
            chk.check(bad is None, 'R2', f.name, 'accepts exactly %s' % txt, f.loc(), 'counter example %s' % (bad,))
        # pass( msg) is the same predicate of msg.getLevel()
        g = prog.one(cq, 'pass')
        try:
            atoms2, rows2 = truth_table(g, prog=prog)
        except Unsupported as u:
            raise AnalysisBroken('%s::pass not interpretable: %s' % (cls, u))
        lvl_atom = [a for a, _ in atoms2 if 'getLevel' in a]
        if len(lvl_atom) != 1 or ('this.' + fld) not in {a for a, _ in atoms2}:
            chk.check(False, 'R3', g.name, 'pass(msg) is the same predicate as processLevel(msg.getLevel())', g.loc(),
                      'the result is a function of %s only: it does not depend on the level of the message / the '
                      'configured level' % (sorted(a for a, _ in atoms2) or 'nothing'))
            continue
        bad = None
        for env, out, _ in rows2:
            if bool(out[1]) != oracle(env[lvl_atom[0]], env['this.' + fld]):
                bad = (env, out)
        chk.check(bad is None, 'R3', g.name, 'pass(msg) is the same predicate as processLevel(msg.getLevel())',
                  g.loc(), 'counter example %s' % (bad,))
    # Filters::processLevel: switch covers exactly the level filter types
    is_lf = prog.one('celma::log::filter::detail::IFilter', 'isLevelFilter')
    en = prog.enums.get('celma::log::filter::detail::IFilter::FilterTypes')
    chk.require(en is not None, 'enum IFilter::FilterTypes not found')
    level_types = set()
    for e in en['enumerators']:
        out = Interp(is_lf, {is_lf.params[0]['name']: e['val']}).run(is_lf.body)
        if out[1]:
            level_types.add(e['name'])
    f = prog.one('celma::log::filter::Filters', 'processLevel')
    cases = {}
    cur = []
    for n in f.walk():
        if n.get('k') == 'CaseStmt':
            name = (n.get('enumerator') or '').split('::')[-1]
            cases[name] = n
    chk.check(set(cases) == level_types, 'R3', f.name, 'pre-check switch covers exactly the level filter types',
              f.loc(), 'cases %s, level filter types %s' % (sorted(cases), sorted(level_types)))
    for name, node in cases.items():
        calls = [c for c in walk(node) if c.get('k') in CALL_KINDS and callee_is(c, 'processLevel')]
        ok = bool(calls) and all(('LogFilter' + name[0].upper() + name[1:]) in c.get('callee', '') for c in calls[:1])
        chk.check(ok, 'R3', f.name, 'case %s consults the %s filter' % (name, name), f.loc(node))
    # null filter -> process
    # Filters::pass conjunction
    f = prog.one('celma::log::filter::Filters', 'pass')
    cfg = f.cfg
    loops = [l for l in loops_in(f) if any(mentions_field(h, 'mFilters') for h in children(l)[:-1])]
    chk.require(loops, 'Filters::pass: no loop over mFilters')
    off = loop_iteration_must_pass(cfg, loops[0], lambda n: n.get('k') in CALL_KINDS and
                                   callee_is(n, 'IFilter::passFilter', 'IFilter::pass'))
    # 'return true' only after the loop; a failing filter returns false
    rets_true_inside = []
    for n in f.walk():
        if n.get('k') == 'ReturnStmt':
            v = strip_all_casts(children(n)[0]) if children(n) else None
            val = v.get('val', v.get('cv')) if v else None
            if val in (True, 1) and loops[0] in list(f.ancestors(n)):
                rets_true_inside.append(n)
    chk.check(not off and not rets_true_inside, 'R3', f.name,
              'a message passes only if every filter passes (conjunction)', f.loc(),
              '; '.join(off + (['return true inside the filter loop'] if rets_true_inside else [])))
    # a rejecting filter ends the loop with 'false': every return inside the loop yields false, at least one
    # exists, and the result of the filter call is not discarded
    inner = []
    for n in f.walk():
        if n.get('k') == 'ReturnStmt' and loops[0] in list(f.ancestors(n)):
            v = strip_all_casts(children(n)[0]) if children(n) else None
            inner.append(v.get('val', v.get('cv')) if v else None)
    used = True
    for c in f.calls():
        if callee_is(c, 'IFilter::passFilter', 'IFilter::pass'):
            p = f.parent(c)
            if p is None or p.get('k') in ('CompoundStmt', 'CXXForRangeStmt', 'ForStmt', 'WhileStmt'):
                used = False
    chk.check(bool(inner) and all(v in (False, 0) for v in inner) and used, 'R3', f.name,
              'a rejecting filter makes pass() return false at once', f.loc(),
              'returns inside the loop: %s, filter result used: %s' % (inner, used))


def r4_routing(chk, prog):
    f = prog.one('celma::log::Logging', 'log', pred=lambda f: len(f.params) == 2 and 'LogMsg' in f.params[1]['t']
                 and f.params[0]['t'] in ('int', 'unsigned int', 'celma::log::id_t', 'unsigned long'))
    cfg = f.cfg
    loops = [l for l in loops_in(f) if any(mentions_field(h, 'mLogs') for h in children(l)[:-1])]
    chk.require(loops, 'Logging::log: no loop over mLogs')
    loop = loops[0]
    h = loop_header(cfg, loop)
    sel = [(bid, c) for bid, c in cfg.cond_blocks() if c is not None and strip_all_casts(c).get('k') ==
           'BinaryOperator' and strip_all_casts(c).get('op') == '&' and mentions_field(c, 'mLogId')]
    chk.require(sel, 'Logging::log: selection test (logs & id) not found')
    msg_ids = {c['id'] for c in f.calls_to('Log::message')}
    chk.require(msg_ids, 'Logging::log does not call Log::message')
    for bid, c in sel:
        tgt = cfg.succ[bid][0]
        seen = cfg.reach((tgt, 0), lambda pos, e: pos[0] == h or (isinstance(e, int) and e in msg_ids))
        out = cfg.succ[h][1]
        skipped = any(p[0] == h for p in seen if p[0] != 'exit_from') or (out is not None and (out, 0) in seen) \
            or any(p[0] == 'exit_from' for p in seen)
        chk.check(not skipped, 'R4', f.name, 'every selected log receives the message', f.loc(c),
                  'a selected log can be skipped')
    # leaving the loop early only when the single selected id was served
    breaks = [n for n in f.walk() if n.get('k') == 'BreakStmt' and loop in list(f.ancestors(n))]
    for b in breaks:
        pos = cfg.position(b)
        guarded = False
        for bid, c in cfg.cond_blocks():
            c0 = strip_all_casts(c) if c else None
            if c0 and c0.get('k') == 'BinaryOperator' and c0.get('op') == '==' and mentions_field(c0, 'mLogId') \
                    and mentions_var(c0, f.params[0]['name']) and cfg.guarded_by_edge(pos, bid, 0):
                guarded = True
        chk.check(guarded, 'R4', f.name, 'the log loop ends early only when the one selected log was served',
                  f.loc(b))
    rets = [n for n in f.walk() if n.get('k') == 'ReturnStmt' and loop in list(f.ancestors(n))]
    chk.check(not rets, 'R4', f.name, 'no return out of the log loop', f.loc())
    # Log::message
    f = prog.one('celma::log::detail::Log', 'message')
    cfg = f.cfg
    loops = [l for l in loops_in(f) if any(mentions_field(h2, 'mLoggers') for h2 in children(l)[:-1])]
    chk.require(loops, 'Log::message: no loop over mLoggers')
    off = loop_iteration_must_pass(cfg, loops[0], lambda n: n.get('k') in CALL_KINDS and
                                   callee_is(n, 'ILogDest::handleMessage'))
    hm = list(f.calls_to('ILogDest::handleMessage'))
    chk.check(not off and len(hm) == 1, 'R4', f.name, 'every destination of the log gets the message exactly once',
              f.loc(), '; '.join(off) or '%d handleMessage call sites' % len(hm))
    guards = [bid for bid, c in cfg.cond_blocks() if c is not None and mentions_call(c, 'Filters::pass', 'pass')]
    h = loop_header(cfg, loops[0])
    good = bool(guards) and all(cfg.guarded_by_edge((h, 0), g, 0) for g in guards)
    bypass = cfg.can_reach_exit((cfg.succ[guards[0]][0], 0), lambda pos, e: pos[0] == h) if guards else [1]
    chk.check(good and not bypass, 'R4', f.name, 'destinations are served iff the log\'s filters pass', f.loc())
    # ILogDest::handleMessage
    f = prog.one('celma::log::detail::ILogDest', 'handleMessage')
    cfg = f.cfg
    msg = [c for c in f.calls() if callee_is(c, 'ILogDest::message')]
    guards = [bid for bid, c in cfg.cond_blocks() if c is not None and mentions_call(c, 'pass')]
    ok = len(msg) == 1 and len(guards) == 1
    if ok:
        pos = cfg.position(msg[0])
        ok = cfg.guarded_by_edge(pos, guards[0], 0)
        tgt = cfg.succ[guards[0]][0]
        ok = ok and not cfg.can_reach_exit((tgt, 0), lambda p, e: isinstance(e, int) and e == msg[0]['id'])
    chk.check(ok, 'R4', f.name, 'a destination writes the message iff its own filters pass', f.loc())


def r5_names(chk, prog):
    for enum, to_text, from_text in (('celma::log::LogClass', 'logClass2text', 'text2logClass'),
                                     ('celma::log::LogLevel', 'logLevel2text', 'text2logLevel')):
        en = prog.enums.get(enum)
        chk.require(en is not None, 'enum %s not found' % enum)
        names = {e['name']: e['val'] for e in en['enumerators']}
        f = [g for g in prog.functions if g.name == 'celma::log::detail::' + to_text]
        chk.require(f, to_text + ' not found')
        f = f[0]
        texts = {}
        pending = []
        sw = [n for n in f.walk() if n.get('k') == 'SwitchStmt']
        chk.require(sw, to_text + ': no switch')

        def flat(s):
            if s.get('k') == 'CaseStmt':
                pending.append((s.get('enumerator') or '').split('::')[-1])
                for c in children(s):
                    flat(c)
            elif s.get('k') == 'DefaultStmt':
                pending.append('<default>')
                for c in children(s):
                    flat(c)
            elif s.get('k') == 'ReturnStmt':
                lit = [x for x in walk(s) if x.get('k') == 'StringLiteral']
                for p in pending:
                    texts[p] = lit[0]['val'] if lit else None
                del pending[:]
        for s in children(children(sw[0])[-1]):
            flat(s)
        missing = [n for n in names if n not in texts]
        chk.check(not missing, 'R5', f.name, 'every %s enumerator has a text' % enum.split('::')[-1], f.loc(),
                  'no case for %s' % missing)
        real = {k: v for k, v in texts.items() if k in names}
        lowered = [v.lower() for v in real.values() if v is not None]
        chk.check(len(set(lowered)) == len(lowered), 'R5', f.name, 'texts are pairwise distinct (case-insensitive)',
                  f.loc(), 'texts %s' % real)
        g = [x for x in prog.functions if x.name == 'celma::log::detail::' + from_text]
        chk.require(g, from_text + ' not found')
        g = g[0]
        mx = max(names.values())
        ok = False
        for loop in loops_in(g):
            if loop.get('k') != 'ForStmt':
                continue
            kids = loop.get('c', [])
            init, cond = kids[0], kids[2] if len(kids) > 2 else None
            start = None
            if init and init.get('k') == 'DeclStmt' and init['decls'] and isinstance(init['decls'][0].get('init'), dict):
                i0 = strip_all_casts(init['decls'][0]['init'])
                start = i0.get('val', i0.get('cv'))
            c0 = strip_all_casts(cond) if cond else None
            if c0 and c0.get('k') == 'BinaryOperator' and c0.get('op') in ('<=', '<'):
                rhs = children(c0)[1]
                bound = rhs.get('cv', strip_all_casts(rhs).get('cv'))
                if bound is not None and start is not None:
                    last = bound if c0['op'] == '<=' else bound - 1
                    ok = start <= min(v for v in names.values() if v > 0) and last >= mx
        chk.check(ok, 'R5', g.name, 'name lookup visits every enumerator up to the last one', g.loc(),
                  'loop does not reach enumerator value %d' % mx)


def r6_policy(chk, prog):
    written = {}
    for f in prog.functions:
        for ref, kind, node in effects.accesses(f):
            if effects.var_id(ref).endswith('Filters::mpDuplicatePolicy') and kind == 'write':
                written.setdefault(f.name, []).append(node)
    chk.check(set(written) <= {'celma::log::filter::Filters::setDuplicatePolicy'}, 'R6',
              'celma::log::filter::Filters', 'the duplicate policy is only changed by setDuplicatePolicy()', '',
              'writers: %s' % sorted(written))
    # constructors must not overwrite a policy that was configured before
    for f in prog.functions:
        if f.classq == 'celma::log::filter::Filters' and f.d.get('ctor'):
            for c in f.calls_to('Filters::setDuplicatePolicy'):
                cfg = f.cfg
                pos = cfg.position(c)
                guarded = False
                for bid, cond in cfg.cond_blocks():
                    if cond is None:
                        continue
                    touches = any(effects.static_ref(x) is not None and
                                  effects.var_id(effects.static_ref(x)).endswith('mpDuplicatePolicy')
                                  for x in walk(cond))
                    if touches and (cfg.guarded_by_edge(pos, bid, 0) or cfg.guarded_by_edge(pos, bid, 1)):
                        guarded = True
                chk.check(guarded, 'R6', f.name, 'creating a filter set does not reset the configured duplicate policy',
                          f.loc(c), 'the constructor unconditionally sets the process-wide policy: a policy '
                          'configured earlier is lost as soon as another log/destination is created')
    # checkSetFilter: same type found -> never a second filter of that type
    n = 0
    for f in prog.functions:
        if f.classq != 'celma::log::filter::Filters' or f.short != 'checkSetFilter':
            continue
        n += 1
        cfg = f.cfg
        pushes = [c for c in f.calls() if field_name(object_of(c)) == 'mFilters' and 'push_back' in c.get('callee', '')]
        same = [bid for bid, cond in cfg.cond_blocks() if cond is not None and mentions_call(cond, 'filterType')
                and strip_all_casts(cond).get('op') == '==']
        ok = bool(pushes) and bool(same)
        for bid in same:
            tgt = cfg.succ[bid][0]
            seen = cfg.reach((tgt, 0))
            if any(cfg.position(p) in seen for p in pushes):
                ok = False
        acc = [c for c in f.calls() if callee_is(c, 'IDuplicatePolicy::acceptNew')]
        ok = ok and bool(acc) and all(any(cfg.guarded_by_edge(cfg.position(a), bid, 0) for bid in same) for a in acc)
        chk.check(ok, 'R6', f.name, 'a filter type set twice is resolved by the duplicate policy, never stored twice',
                  f.loc())
    chk.require(n >= 4, 'only %d checkSetFilter instantiations' % n)
    # the filter the level pre-check consults (mpLevelFilter) is the filter that was just set: the element whose type
    # was compared equal to the requested type, or the element that was just appended
    na = 0
    seen_lines = set()
    for f in prog.functions:
        if f.classq != 'celma::log::filter::Filters' or f.short != 'checkSetFilter':
            continue
        cfg = f.cfg
        pushes = [c for c in f.calls() if field_name(object_of(c)) == 'mFilters' and 'push_back' in c.get('callee', '')]
        same = [bid for bid, cond in cfg.cond_blocks() if cond is not None and mentions_call(cond, 'filterType')
                and strip_all_casts(cond).get('op') == '==']
        loops = loops_in(f)
        loop_vars = {l['c'][1]['decls'][0]['name'] for l in loops if l.get('k') == 'CXXForRangeStmt' and
                     isinstance(l['c'][1], dict) and l['c'][1].get('decls')}
        for x in f.walk():
            if not (x.get('k') == 'BinaryOperator' and x.get('op') == '=' and field_name(children(x)[0]) == 'mpLevelFilter'):
                continue
            if (x.get('l'),) in seen_lines:
                pass
            na += 1
            rhs = strip_all_casts(children(x)[1])
            pos = cfg.position(x)
            if rhs.get('k') == 'DeclRefExpr' and rhs['ref']['name'] in loop_vars:
                ok = any(cfg.guarded_by_edge(pos, bid, 0) for bid in same)
                why = 'the element is not known to have the requested filter type here'
            elif rhs.get('k') in CALL_KINDS and (rhs.get('callee') or '').endswith('::back') and \
                    field_name(object_of(rhs)) == 'mFilters':
                ok = any(cfg.node_dominates(p_, x) for p_ in pushes) and not any(
                    l in enclosing_loops(f, x) for l in loops)
                why = 'mFilters.back() is not the filter that was just appended on this path'
            else:
                raise AnalysisBroken('assignment to mpLevelFilter in %s has a form this rule does not know' % f.key)
            chk.check(ok, 'R6', f.name, 'the level filter used by the pre-check is the filter that was just set',
                      f.loc(x), why)
    chk.require(na >= 4, 'assignments of mpLevelFilter: %d' % na)
    # "set twice" is judged per filter type: every setter looks for an existing filter under the type tag that the
    # filter class it creates reports itself (IFilter( FilterTypes::X) in its constructor)

    def enum_of(e):
        for x in walk(e):
            if x.get('k') == 'DeclRefExpr' and x.get('ref', {}).get('dk') == 'EnumConstant' and \
                    'FilterTypes' in (x['ref'].get('q') or ''):
                return x['ref']['q'].split('::')[-1]
        return None
    own_tag = {}
    for f in prog.functions:
        if f.d.get('ctor') and (f.classq or '').startswith('celma::log::filter::detail::LogFilter'):
            for i in f.inits:
                if isinstance(i.get('init'), dict) and ('IFilter' in (i.get('name') or '') or
                                                       'IFilter' in (i['init'].get('callee') or '')):
                    t = enum_of(i['init'])
                    if t:
                        own_tag[f.classq] = t
    chk.require(len(own_tag) >= 4, 'filter classes with a type tag: %s' % sorted(own_tag))
    m = 0
    for f in prog.functions:
        if f.classq != 'celma::log::filter::Filters' or f.body is None:
            continue
        for c in f.calls():
            if not callee_is(c, 'Filters::checkSetFilter'):
                continue
            key = c.get('ckey') or c.get('callee') or ''
            cls = [q for q in own_tag if q + ',' in key or q + '>' in key]
            if len(cls) != 1:
                raise AnalysisBroken('filter class of %s not identifiable' % key)
            m += 1
            tag = enum_of(call_args(c)[0])
            chk.check(tag == own_tag[cls[0]], 'R6', f.name, 'an existing filter is looked up under the type of the '
                      'filter that is being set (%s)' % own_tag[cls[0]], f.loc(c),
                      'the setter passes FilterTypes::%s: a second %s filter is not recognised as a duplicate and an '
                      'unrelated %s filter is treated as one' % (tag, own_tag[cls[0]], tag))
    chk.require(m >= 4, 'filter setters found: %d' % m)
    # ... on EVERY call: the duplicate policy decides what a second setting does, whatever its value - a setter that
    # returns early for some value (a filter that 'would accept everything anyway') neither replaces the filter that
    # is already there nor is refused / ignored as the policy demands
    for f in prog.functions:
        if f.classq != 'celma::log::filter::Filters' or f.body is None:
            continue
        cs = [c for c in f.calls() if callee_is(c, 'Filters::checkSetFilter')]
        if not cs:
            continue
        off = f.cfg.must_pass_through(lambda n_: any(n_ is c for c in cs))
        chk.check(not off, 'R6', f.name, 'every setting of a filter goes through the duplicate policy (no shortcut '
                  'that depends on the value)', f.loc(), 'a normal return is reachable without checkSetFilter()')


def r7_policy_identity(chk, prog):
    """the duplicate policy objects identify themselves: the class the factory creates for an enumerator reports
    exactly that enumerator from policy() - setDuplicatePolicy() relies on it to decide whether the policy has to
    be switched (a wrong identity silently loses a transition)"""
    fac = [f for f in prog.functions if f.short == 'createPolicy' and 'DuplicatePolicyFactory' in (f.cls or '')]
    chk.require(len(fac) == 1, 'DuplicatePolicyFactory::createPolicy not found')
    f = fac[0]
    table = {}
    for n in f.walk():
        if n.get('k') == 'CaseStmt' and (n.get('cv', n.get('val')) is not None):
            news = [x for x in walk(n) if x.get('k') == 'CXXNewExpr']
            if news:
                table[n.get('cv', n.get('val'))] = (news[0].get('t') or '').rstrip('*').strip()
    chk.require(len(table) >= 3, 'createPolicy: only %d cases with an allocation found' % len(table))
    seen = {}
    for val, cls in sorted(table.items()):
        ps = [g for g in prog.functions if g.cls == cls and g.short == 'policy' and g.body is not None]
        chk.require(len(ps) == 1, '%s::policy() not found' % cls)
        g = ps[0]
        rets = [x for x in g.walk() if x.get('k') == 'ReturnStmt' and children(x)]
        vals = set()
        for r in rets:
            e = strip_all_casts(children(r)[0])
            v = e.get('cv', children(r)[0].get('cv'))
            vals.add(v)
        chk.check(vals == {val}, 'R7', g.name, 'the policy object created for enumerator %d reports that enumerator '
                  'from policy() (factory and identification agree)' % val, g.loc(),
                  'policy() returns %s' % sorted(vals, key=str))
        seen.setdefault(tuple(sorted(vals, key=str)), []).append(cls)
    return len(table)


def r8_class_filter(chk, prog):
    """the class-list filter accepts precisely the classes it names: the constructor sets, for every name of the list,
    exactly the bit whose index is the value of the class the name denotes (no offset, nothing else set), and
    pass() returns exactly the bit indexed by the class of the message (no negation, no offset)"""
    CQ = 'celma::log::filter::detail::LogFilterClasses'

    def plain_index(e, source_pred):
        """the index expression is a conversion of `source` and nothing else"""
        e0 = strip_all_casts(e)
        while e0.get('k') in ('ParenExpr',) and children(e0):
            e0 = strip_all_casts(children(e0)[0])
        return source_pred(e0)
    ctor = [f for f in prog.functions if f.classq == CQ and f.d.get('ctor') and f.body is not None and f.params]
    chk.require(ctor, 'LogFilterClasses constructor not found')
    n = 0
    for f in ctor:
        conv = {}
        for x in f.walk():
            if x.get('k') == 'DeclStmt':
                for d in x.get('decls', []):
                    if isinstance(d.get('init'), dict) and mentions_call(d['init'], 'text2logClass'):
                        conv[d['name']] = d
        sets = [c for c in f.calls() if field_name(object_of(c)) == 'mClassSelection' and
                (c.get('callee') or '').split('::')[-1] in ('set', 'operator[]', 'reset', 'flip')]
        n += 1
        ok = len(sets) == 1 and (sets[0].get('callee') or '').endswith('::set') and \
            len([a for a in call_args(sets[0]) if not a.get('defarg')]) == 1 and plain_index(
                call_args(sets[0])[0], lambda e0: (e0.get('k') == 'DeclRefExpr' and e0['ref']['name'] in conv) or
                (e0.get('k') in CALL_KINDS and callee_is(e0, 'text2logClass')))
        chk.check(ok, 'R8', f.name, 'every class named in the list sets exactly its own bit', f.loc(sets[0]) if sets
                  else f.loc(), 'the selection is modified by %s' % [
                      (c.get('callee') or '').split('::')[-1] for c in sets])
    for f in [g for g in prog.functions if g.classq == CQ and g.short == 'pass' and g.body is not None]:
        rets = [x for x in f.walk() if x.get('k') == 'ReturnStmt' and children(x)]
        n += 1
        ok = len(rets) == 1
        if ok:
            e = strip_all_casts(children(rets[0])[0])
            while e.get('k') in ('ParenExpr', 'ExprWithCleanups', 'MaterializeTemporaryExpr', 'CXXBindTemporaryExpr') \
                    and children(e):
                e = strip_all_casts(children(e)[0])
            ok = e.get('k') in CALL_KINDS and field_name(object_of(e) or (children(e)[1] if len(children(e)) > 1 else {})) \
                == 'mClassSelection' and (e.get('callee') or '').split('::')[-1] in ('operator[]', 'test') and \
                plain_index(call_args(e)[-1], lambda e0: e0.get('k') in CALL_KINDS and callee_is(e0, 'LogMsg::getClass'))
        chk.check(ok, 'R8', f.name, 'pass() is the bit of the message\'s class', f.loc(),
                  'the returned expression is not mClassSelection[ class of the message ]')
    return n


def r9_precheck_entry(chk, prog, rule='R9'):
    """the cheap level pre-check of the LOG_LEVEL macros (detail::discard_by_level) never discards what the full
    path would deliver: the function it asks is Filters::processLevel of the log - or, if the log class brings its
    own, that function answers 'no' only because the log's own level filters say no or because it has looked at ALL
    destinations without finding one that accepts (a `return false` inside the loop over the destinations makes one
    rejecting destination enough, although any other destination would take the message)"""
    fs = [f for f in prog.functions if f.short == 'discard_by_level' and f.body is not None]
    chk.require(fs, 'detail::discard_by_level not instantiated')
    for f in fs:
        calls = [c for c in f.calls() if callee_is(c, 'processLevel')]
        chk.require(len(calls) == 1, 'discard_by_level: call of processLevel() not found')
        q = calls[0].get('callee') or ''
        if q == 'celma::log::filter::Filters::processLevel':
            chk.ok(rule, f.name, 'the pre-check asks the level filters of the log (Filters::processLevel)', f.loc(calls[0]))
            continue
        g = prog.by_key.get(calls[0].get('ckey'), [None])[0]
        if g is None or g.body is None:
            raise AnalysisBroken('discard_by_level asks %s, whose definition is not part of the analysed units' % q)
        loops = loops_in(g)
        bad = []
        for r in (x for x in g.walk() if x.get('k') == 'ReturnStmt' and children(x)):
            v = strip_all_casts(children(r)[0])
            if v.get('k') == 'CXXBoolLiteralExpr' and not v.get('val'):
                inside = [l for l in loops if any(r is y for y in walk(l))]
                if inside:
                    bad.append(r)
        own = [c for c in g.calls() if (c.get('callee') or '') == 'celma::log::filter::Filters::processLevel']
        chk.check(not bad and bool(own), rule, g.name, 'a pre-check of its own discards only what the log\'s level '
                  'filters or ALL destinations reject', g.loc(bad[0]) if bad else g.loc(),
                  'one rejecting destination ends the check with "discard"' if bad else
                  'the level filters of the log are not consulted')


def r10_removal_is_exact(chk, prog, rule='R10'):
    """removing a destination (or a log) removes exactly the named one: the destinations that stay keep receiving
    their messages.  Every erase() in the remove functions of the log classes is either the single-iterator form
    (one element) or the erase-remove idiom (range whose start comes from std::remove / remove_if and whose end is
    end()); a range erase that starts at the result of a SEARCH (find / find_if) drops everything behind the match"""
    n = 0
    for f in prog.functions:
        if f.body is None or '/log/' not in f.file or not f.short.startswith('remove') or \
                not (f.classq or '').startswith('celma::log::'):
            continue
        for c in f.calls():
            if c.get('k') != 'CXXMemberCallExpr' or (c.get('callee') or '').split('::')[-1] != 'erase':
                continue
            a = [x for x in call_args(c) if not x.get('defarg')]
            n += 1
            if len(a) == 1:
                chk.ok(rule, f.name, 'erase( position) removes one element', f.loc(c))
                continue
            first = {(y.get('callee') or '').split('::')[-1].split('<')[0] for y in walk(a[0]) if y.get('k') in CALL_KINDS}
            ok = bool(first & {'remove', 'remove_if', 'unique'}) and not (first & {'find', 'find_if', 'lower_bound'})
            chk.check(ok, rule, f.name, 'a range erase removes exactly the matching elements (erase-remove idiom)',
                      f.loc(c), 'the range starts at the result of %s and ends at end(): every element behind the match '
                      'is removed as well' % sorted(first))
    chk.require(n >= 1, 'erase() calls in the remove functions of the log classes: %d' % n)


def r11_log_name_lookup(chk, prog, rule='R11'):
    """a log is addressed by its NAME: the lookups of Logging that take a name compare it with the stored names for
    equality - a prefix or sub-string comparison makes 'trace' find 'trace-detail', so that the level pre-check (by
    name) consults another log than the delivery"""
    n = 0
    for f in prog.functions:
        if f.classq != 'celma::log::Logging' or f.body is None or not f.params or \
                'basic_string' not in f.params[0]['t'] or f.short not in ('getLog', 'findLog', 'removeLog'):
            continue
        name = f.params[0]['name']
        bodies = [f]
        for x in f.walk():
            if x.get('k') == 'LambdaExpr' and x.get('lambda'):
                bodies += prog.by_key.get(x['lambda'], [])
        exact, inexact, opaque = [], [], []
        for g in bodies:
            for c in g.calls():
                nm = (c.get('callee') or '').split('::')[-1]
                if not any(y.get('k') == 'DeclRefExpr' and y['ref'].get('name') == name for y in walk(c)):
                    continue
                if c.get('k') == 'CXXOperatorCallExpr' and c.get('op') in ('==', '!='):
                    exact.append(c)
                elif c.get('k') == 'CXXMemberCallExpr' and nm == 'compare':
                    (exact if len([a for a in call_args(c) if not a.get('defarg')]) == 1 else inexact).append(c)
                elif c.get('k') == 'CXXMemberCallExpr' and nm in ('find', 'rfind', 'starts_with', 'ends_with', 'substr'):
                    inexact.append(c)
        if any(x.get('k') == 'LambdaExpr' and not prog.by_key.get(x.get('lambda')) for x in f.walk()):
            opaque.append('a generic lambda')
        n += 1
        if not exact and not inexact and opaque:
            # the comparison sits in a construct whose body the extractor does not resolve (generic lambda): neither a
            # pass nor a violation can be claimed
            raise AnalysisBroken('%s(): the name is compared inside %s, whose body is not part of the extracted facts'
                                 % (f.short, opaque[0]))
        chk.check(bool(exact) and not inexact, rule, f.name, 'a log name is looked up by equality', f.loc(),
                  'the name is compared with %s' % sorted({(c.get('callee') or '').split('::')[-1] for c in inexact}))
    chk.require(n >= 1, 'name lookups of Logging: %d' % n)


def r12_stream_level(chk, prog):
    """The stream front end (LOG_LEVEL( ...) << ..., `<< LogLevel`) hands the message level to Logging::log().  For
    every named level (all enumerators except `undefined`) the level stored in the message is the level given: the
    range check of operator <<( StreamLog&, LogLevel) rejects nothing the filters can name.  Decided by evaluating
    the operator (Engine B) once per enumerator, message level still undefined."""
    from ..boolshape import Interp, NeedAtom, Unsupported
    en = prog.enums.get('celma::log::LogLevel')
    chk.require(en is not None, 'enum celma::log::LogLevel not found')
    vals = {e['name']: e['val'] for e in en['enumerators']}
    chk.require('undefined' in vals and len(vals) >= 5, 'LogLevel enumerators: %s' % sorted(vals))
    fs = [f for f in prog.functions if f.short == 'operator<<' and len(f.params) == 2 and
          'StreamLog' in (f.params[0].get('t') or '') and (f.params[1].get('t') or '').endswith('LogLevel')]
    chk.require(len(fs) == 1, 'operator <<( StreamLog&, LogLevel): %d definitions' % len(fs))
    f = fs[0]
    pname = f.params[1]['name']
    for name, val in sorted(vals.items(), key=lambda kv: kv[1]):
        if name == 'undefined':
            continue
        got = {}

        def cb_set(itp, call, got=got):
            got['level'] = itp.ev_obj(call_args(call)[0])
            return 0
        cbs = {'getLevel': lambda i_, c: vals['undefined'], 'setLevel': cb_set, 'operator<<': lambda i_, c: 0}
        itp = Interp(f, {}, callbacks=cbs, prog=None)
        itp.locals[pname] = val
        itp.locals[f.params[0]['name']] = 0
        try:
            itp.run(f.body)
        except (NeedAtom, Unsupported) as e:
            raise AnalysisBroken('operator <<( StreamLog&, LogLevel) is not interpretable: %s' % getattr(e, 'key', e))
        chk.check(got.get('level') == val, 'R12', f.name,
                  'a message sent with level %s through the stream front end carries level %s' % (name, name), f.loc(),
                  'the message level becomes %s: the filters see another level than the one named' % (
                      [k for k, v in vals.items() if v == got.get('level')] or [got.get('level')])[0])


def run(chk):
    units = units_matching('library/log/') + [os.path.join(VERIF, 'drivers', 'log.cpp')]
    if chk.tier == 'thorough':
        units = library_units() + [os.path.join(VERIF, 'drivers', 'log.cpp')]
    prog = load_program(units)
    chk.units = units
    chk.explanation = (
        'Structural and truth-table rules over the log filter and routing code: capacity of every container indexed '
        'by a cast enumerator vs. the largest enumerator, exhaustive truth tables of the three level filters '
        '(accept sets) and of pass() vs. processLevel() (pre-check soundness), switch/enumerator agreement of the '
        'pre-check, loop shapes of Filters::pass (conjunction), Logging::log, Log::message and ILogDest::handleMessage '
        '(exactly-once delivery under the filters), exhaustiveness and distinctness of the class/level name tables, '
        'single-writer rule for the duplicate policy. Not decided: the full (level x class x filter-history) table as '
        'executed.')
    chk.assumptions = ['std::bitset / containers behave as documented']
    chk.rule('R1', 'enum-indexed containers hold every enumerator', 2)
    chk.rule('R2', 'level filters accept exactly the documented levels', 3)
    chk.rule('R3', 'level pre-check is sound w.r.t. the full filters', 8)
    chk.rule('R4', 'routing: selected logs / destinations get the message exactly once', 5)
    chk.rule('R5', 'class and level names are complete and distinct', 6)
    chk.rule('R6', 'duplicate filter policy is honoured', 6)
    r1_enum_capacity(chk, prog)
    r2_r3(chk, prog)
    r4_routing(chk, prog)
    r5_names(chk, prog)
    r6_policy(chk, prog)
    chk.rule('R7', 'duplicate policy objects report the enumerator they were created for', 3)
    r7_policy_identity(chk, prog)
    chk.rule('R8', 'the class-list filter accepts precisely the classes it names', 2)
    r8_class_filter(chk, prog)
    chk.rule('R9', 'the macro pre-check asks the level filters of the log (or a sound refinement)', 2)
    r9_precheck_entry(chk, prog)
    chk.rule('R10', 'removing a destination / log removes exactly the named one', 1)
    r10_removal_is_exact(chk, prog)
    chk.rule('R11', 'logs are looked up by the exact name', 1)
    r11_log_name_lookup(chk, prog)
    chk.rule('R12', 'the stream front end passes every named level on unchanged', 5)
    r12_stream_level(chk, prog)
