"""C15 — Rolling log files keep the most recent messages, complete and in order.

Histories and crash points are behavioural and NOT decided.  Decided necessary conditions:
 R1 every open of the log file uses a non-truncating mode
 R2 every progress counter a policy reads in writeCheck() and updates in written() is
    (re)assigned on the open path (openCheck/rollFiles) - otherwise every message after the first
    roll-over starts a new generation
 R3 accounting agreement: what written()/writeCheck() add per message equals what writeMessage()
    streams into the file (text and line terminator)
 R4 order: writeCheck dominates the write, the write dominates written(); reOpenFile = close,
    rollFiles, open; roll loops rename generation n-1 to n with n descending"""
import os

from .. import rules
from ..rules import (callee_is, object_of, field_name, call_args, mentions_field, mentions_call,
                     mentions_var, loops_in, loop_header)
from ..facts import VERIF, load_program, units_matching, children, strip_all_casts, strip_casts, walk, \
    CALL_KINDS, AnalysisBroken
from ..boolshape import Interp, NeedAtom, Unsupported

# libstdc++ std::ios_base::openmode bits
APP, ATE, BIN, IN, OUT, TRUNC = 1, 2, 4, 8, 16, 32


def truncates(mode):
    if mode & TRUNC:
        return True
    if mode & APP:
        return False
    if mode & OUT and not mode & IN:
        return True
    return False


def r1(chk, prog):
    n = 0
    for f in prog.functions:
        if not (f.classq or '').startswith('celma::log::files::'):
            continue
        for c in f.calls():
            if not c.get('callee', '').startswith('std::basic_ofstream') or not c['callee'].endswith('::open'):
                continue
            if field_name(object_of(c)) != 'mFile':
                continue
            n += 1
            args = call_args(c)
            mode = None
            if len(args) >= 2:
                a = args[1]
                mode = a.get('cv', strip_all_casts(a).get('cv'))
            if mode is None:
                raise AnalysisBroken('open mode of %s is not a constant expression' % f.loc(c))
            chk.check(not truncates(mode), 'R1', f.name, 'log file is opened without truncating existing content',
                      f.loc(c), 'open mode %s (app=%d ate=%d in=%d out=%d trunc=%d) discards what a previous run '
                      'wrote into the current generation' % (mode, bool(mode & APP), bool(mode & ATE), bool(mode & IN),
                                                            bool(mode & OUT), bool(mode & TRUNC)))
    return n


def policy_classes(prog):
    return sorted(n for n in prog.derived_from('celma::log::files::PolicyBase'))


def field_writes(f, kinds=('=', '+=', '-=', '++', '--')):
    res = {}
    for n in f.walk():
        if n.get('k') in ('BinaryOperator', 'CompoundAssignOperator') and n.get('op') in kinds:
            fn = field_name(children(n)[0])
            if fn:
                res.setdefault(fn, []).append((n.get('op'), n))
        elif n.get('k') == 'UnaryOperator' and n.get('op') in ('++', '--') and n.get('op') in kinds:
            fn = field_name(children(n)[0])
            if fn:
                res.setdefault(fn, []).append((n.get('op'), n))
    return res


def field_reads(f):
    return {x['ref']['name'] for x in f.walk() if x.get('k') == 'MemberExpr' and x.get('ref', {}).get('dk') == 'Field'}


def r2(chk, prog):
    n = 0
    for cls in policy_classes(prog):
        m = {f.short: f for f in prog.functions if f.cls == cls}
        if not {'writeCheck', 'written'} <= set(m):
            continue
        upd = field_writes(m['written'])
        counters = set(upd) & field_reads(m['writeCheck'])
        for cnt in sorted(counters):
            n += 1
            reset = False
            where = []
            for short in ('openCheck', 'rollFiles', 'open'):
                g = m.get(short)
                if g is None:
                    continue
                w = field_writes(g, kinds=('=',))
                if cnt in w:
                    reset = True
                    where.append(short)
            # when the existing file is kept (openCheck() does not return false), the counter must have been set in
            # openCheck() itself - from the state of that file: a restart continues a partly filled generation
            oc = m.get('openCheck')
            if oc is not None:
                ocfg = oc.cfg
                sets = [x for x in oc.walk() if x.get('k') == 'BinaryOperator' and x.get('op') == '=' and
                        field_name(children(x)[0]) == cnt]
                keeps = [r for r in oc.walk() if r.get('k') == 'ReturnStmt' and children(r) and not (
                    strip_all_casts(children(r)[0]).get('k') == 'CXXBoolLiteralExpr' and
                    not strip_all_casts(children(r)[0]).get('val'))]
                # a "keep" return that is reachable only when the file is known to be empty has nothing to take over:
                # there the counter only has to restart with the generation (checked below)
                from ..rules import implied_edges

                def empty_test(op):
                    def pred(c):
                        if c.get('k') != 'BinaryOperator' or c.get('op') != op:
                            return False
                        a, b = [strip_all_casts(x) for x in children(c)]
                        for x, y in ((a, b), (b, a)):
                            if x.get('k') in CALL_KINDS and (x.get('callee') or '').endswith('::fileSize') and \
                                    (y.get('val') == 0 or y.get('cv') == 0):
                                return True
                        return False
                    return pred
                empty_edges = implied_edges(oc, empty_test('=='), True) | implied_edges(oc, empty_test('!='), False)
                nonempty = ocfg.reach(ocfg.entry_pos(), blocked_edges=empty_edges) if empty_edges else None
                keeps = [r for r in keeps if nonempty is None or ocfg.position(r) in nonempty] if keeps else keeps
                ok = (nonempty is not None and not keeps) or (
                    bool(keeps) and all(any(ocfg.node_dominates(a, r) for a in sets) for r in keeps))
                chk.check(ok, 'R2', oc.name, 'when the existing file is kept, progress counter %s is set from its state '
                          '(a restart continues a partly filled generation)' % cnt, oc.loc(),
                          'a path returns "keep the file" without assigning the counter in openCheck()')
            chk.check(reset, 'R2', m['written'].name, 'progress counter %s restarts with every new generation' % cnt,
                      m['written'].loc(), 'the counter is updated in written() and tested in writeCheck() but never '
                      'assigned in openCheck()/rollFiles(): after the first roll-over writeCheck() fails for every '
                      'message')
    return n


def streamed_extra(f):
    """operands streamed into mFile in writeMessage: (uses_text_param, extra bytes)"""
    text_param = f.params[1]['name'] if len(f.params) > 1 else None
    extra = 0
    uses_text = 0
    found = False
    lossy = []
    f._lossy_text_views = lossy
    for c in f.calls():
        if c.get('k') != 'CXXOperatorCallExpr' or c.get('op') != '<<':
            continue
        args = call_args(c)
        # leftmost operand chain must start at mFile
        root = args[0]
        while True:
            r0 = strip_all_casts(root)
            if r0.get('k') == 'CXXOperatorCallExpr' and r0.get('op') == '<<':
                root = call_args(r0)[0]
                continue
            break
        if field_name(root) != 'mFile':
            continue
        found = True
        rhs = strip_all_casts(args[1])
        if rhs.get('k') == 'DeclRefExpr' and rhs['ref'].get('name') == text_param:
            uses_text += 1
        elif rhs.get('k') == 'CXXMemberCallExpr' and (rhs.get('callee') or '').split('::')[-1] in ('c_str', 'data') and \
                (object_of(rhs) or {}).get('k') == 'DeclRefExpr' and object_of(rhs)['ref'].get('name') == text_param:
            # a C-string view of the text ends at the first NUL byte: the message would be truncated in the file while
            # the size accounting uses length()
            lossy.append(f.loc(c))
        elif rhs.get('k') == 'DeclRefExpr' and rhs['ref'].get('q') in ('std::endl',):
            extra += 1
        elif rhs.get('k') == 'CharacterLiteral':
            extra += 1
        elif rhs.get('k') == 'StringLiteral':
            extra += rhs.get('len', 0)
        else:
            raise AnalysisBroken('writeMessage streams an operand this rule does not know: %s at %s' % (
                rhs.get('k'), f.loc(c)))
    if not found:
        raise AnalysisBroken('writeMessage does not stream into mFile')
    return uses_text, extra


def r3(chk, prog):
    wm = prog.one('celma::log::files::PolicyBase', 'writeMessage')
    uses_text, extra = streamed_extra(wm)
    chk.check(uses_text == 1, 'R3', wm.name, 'the message text is written exactly once', wm.loc())
    for where in wm._lossy_text_views:
        chk.check(False, 'R3', wm.name, 'the message text is streamed as std::string with its full length (no C-string '
                  'view that ends at an embedded NUL)', where,
                  'writeCheck()/written() account for length() bytes, the file would get fewer: truncated message')
    n = 0
    for cls in policy_classes(prog):
        m = {f.short: f for f in prog.functions if f.cls == cls}
        if not {'writeCheck', 'written'} <= set(m):
            continue
        # writeCheck() reserves what written() books: both look at the message text, or neither does (a policy that
        # counts messages reserves one entry, it cannot book a text-dependent number of entries)
        def _uses_text(g):
            t = g.params[1]['name'] if len(g.params) > 1 and g.params[1].get('name') else None
            return bool(t) and any(mentions_var(x, t) for x in g.walk())
        if _uses_text(m['written']) != _uses_text(m['writeCheck']):
            n += 1
            who = 'written' if _uses_text(m['written']) else 'writeCheck'
            chk.check(False, 'R3', m[who].name, 'writeCheck() and written() account the same quantity for a message',
                      m[who].loc(), '%s() depends on the message text, its counterpart does not: the generation is '
                      'closed before (or after) the configured limit is reached' % who)
            continue
        for short in ('written', 'writeCheck'):
            f = m[short]
            text = f.params[1]['name'] if len(f.params) > 1 and f.params[1]['name'] else None
            if not text or not any(mentions_var(x, text) for x in f.walk()):
                continue
            # amount accounted for a message: evaluate the size expression for two text lengths
            n += 1
            vals = []
            for L in (100, 101):
                env = {'%s.length()' % text: L, '%s.size()' % text: L, text: L}
                for fld in field_reads(f):
                    env['this.' + fld] = 1000 if 'Max' in fld else 0
                it = Interp(f, env, opaque_ok=False)
                try:
                    out = it.run(f.body)
                except (NeedAtom, Unsupported) as e:
                    raise AnalysisBroken('%s not interpretable: %s' % (f.key, e))
                vals.append((out, it.env))
            if short == 'written':
                cnt = [k for k in vals[0][1] if k.startswith('this.') and vals[0][1][k] != (1000 if 'Max' in k else 0)]
                chk.require(len(cnt) == 1, '%s: cannot identify the size counter (%s)' % (f.key, cnt))
                added = vals[0][1][cnt[0]]
                ok = added == 100 + extra and vals[1][1][cnt[0]] == 101 + extra
                chk.check(ok, 'R3', f.name, 'bytes accounted per message equal bytes written (text + %d line '
                          'terminator byte(s))' % extra, f.loc(),
                          'writeMessage() writes len+%d bytes, written() adds len%+d' % (extra, added - 100))
            else:
                # writeCheck over all current sizes (also beyond the limit: a single over-long message may
                # have pushed the generation over it) and several text lengths; unsigned wrap-around is modelled
                bad = None
                for L in (0, 1, 100, 999, 1500):
                    for cur in list(range(0, 1301, 7)) + list(range(880, 1010)):
                        env = {'%s.length()' % text: L, '%s.size()' % text: L, text: L}
                        for fld in field_reads(f):
                            env['this.' + fld] = 1000 if 'Max' in fld else cur
                        try:
                            out = Interp(f, env, opaque_ok=False).run(f.body)
                        except (NeedAtom, Unsupported) as e:
                            raise AnalysisBroken('%s not interpretable: %s' % (f.key, e))
                        accepted = bool(out[1])
                        fits = cur + L + extra <= 1000
                        if accepted and not fits:
                            bad = bad or ('accepts', cur, L)
                        if not accepted and cur + L + extra < 1000:
                            bad = bad or ('rejects', cur, L)
                chk.check(bad is None, 'R3', f.name, 'writeCheck() accepts a message iff text + %d terminator byte(s) '
                          'still fit, for every current size (also beyond the limit)' % extra, f.loc(),
                          'limit 1000: %s a message of length %s at current size %s' % (
                              (bad or ('', '', ''))[0], (bad or ('', '', ''))[2], (bad or ('', '', ''))[1]))
    return n


def r4(chk, prog):
    f = prog.one('celma::log::files::PolicyBase', 'writeMessage')
    cfg = f.cfg
    wc = [c for c in f.calls() if callee_is(c, 'PolicyBase::writeCheck')]
    wr = [c for c in f.calls() if callee_is(c, 'PolicyBase::written')]
    st = [c for c in f.calls() if c.get('k') == 'CXXOperatorCallExpr' and c.get('op') == '<<']
    chk.require(wc and wr and st, 'writeMessage lost writeCheck/stream/written')
    chk.check(all(cfg.node_dominates(wc[0], s) for s in st), 'R4', f.name, 'writeCheck() precedes the write', f.loc())
    chk.check(all(any(cfg.node_dominates(s, w) for s in st) for w in wr) and
              not cfg.must_pass_through(lambda n: n in wr), 'R4', f.name,
              'written() follows the write on every path', f.loc())
    # the failing writeCheck leads to reOpenFile before the write
    ro = [c for c in f.calls() if callee_is(c, 'PolicyBase::reOpenFile')]
    ok = False
    for bid, cond in cfg.cond_blocks():
        if cond is not None and mentions_call(cond, 'writeCheck'):
            c0 = strip_all_casts(cond)
            neg = c0.get('k') == 'UnaryOperator' and c0.get('op') == '!'
            tgt = cfg.succ[bid][0 if neg else 1]
            if tgt is None or not ro:
                continue
            ro_ids = {c['id'] for c in ro}
            st_pos = [cfg.position(s) for s in st]
            seen = cfg.reach((tgt, 0), lambda p, e: isinstance(e, int) and e in ro_ids)
            ok = not any(p in seen for p in st_pos)
    chk.check(ok, 'R4', f.name, 'a failed writeCheck() starts a new generation before the message is written', f.loc())
    g = prog.one('celma::log::files::PolicyBase', 'reOpenFile')
    gcfg = g.cfg
    close = [c for c in g.calls() if c.get('callee', '').endswith('::close') and field_name(object_of(c)) == 'mFile']
    roll = [c for c in g.calls() if callee_is(c, 'PolicyBase::rollFiles')]
    opn = [c for c in g.calls() if callee_is(c, 'PolicyBase::open')]
    chk.check(bool(close and roll and opn) and gcfg.node_dominates(close[0], roll[0]) and
              gcfg.node_dominates(roll[0], opn[0]) and not gcfg.must_pass_through(lambda n: n in opn), 'R4', g.name,
              'reOpenFile() = close, roll, open', g.loc())
    # wherever the generations are rolled, the policy gets to see the new (empty) file before anything is written:
    # openCheck() on the new file is what restarts the progress counters (R2) - unless the policy's rollFiles()
    # resets every counter itself
    from ..rules import Wrapper
    needs_check = []
    for cls in policy_classes(prog):
        m = {f_.short: f_ for f_ in prog.functions if f_.cls == cls}
        if not {'writeCheck', 'written', 'rollFiles'} <= set(m):
            continue
        counters = set(field_writes(m['written'])) & field_reads(m['writeCheck'])
        if counters - set(field_writes(m['rollFiles'], kinds=('=',))):
            needs_check.append(cls.split('::')[-1])
    w = Wrapper(prog, lambda c: callee_is(c, 'PolicyBase::openCheck'), depth=3)
    n_roll = 0
    for h in prog.functions:
        if h.cls != 'celma::log::files::PolicyBase' or h.body is None:
            continue
        hcfg = h.cfg
        for c in h.calls():
            if not callee_is(c, 'PolicyBase::rollFiles'):
                continue
            n_roll += 1
            pos = hcfg.position(c)
            bad = hcfg.can_reach_exit((pos[0], pos[1] + 1), lambda p_, e: isinstance(e, int) and
                                      h.node(e) is not None and w.node_is(h.node(e)))
            chk.check(not bad or not needs_check, 'R4', h.name, 'after the generations were rolled the policy checks '
                      'the new file (openCheck() restarts the progress counters) before the function returns', h.loc(c),
                      'a return is reachable after rollFiles() without openCheck(): the counters of %s still describe '
                      'the previous generation' % ', '.join(needs_check))
    chk.require(n_roll >= 1, 'calls of rollFiles() in PolicyBase: %d' % n_roll)
    # roll loops
    n = 0
    for cls in policy_classes(prog):
        for h in prog.functions:
            if h.cls != cls or h.short != 'rollFiles' or not loops_in(h):
                continue
            n += 1
            loop = loops_in(h)[0]
            kids = loop.get('c', [])
            inc = kids[3] if len(kids) > 3 else None
            descending = inc is not None and strip_all_casts(inc).get('op') == '--'
            var = None
            if kids and kids[0] and kids[0].get('k') == 'DeclStmt':
                var = kids[0]['decls'][0]['name']
            gen = {}
            for c in h.calls():
                if callee_is(c, 'Builder::filename') and len(call_args(c)) >= 2:
                    a = call_args(c)
                    tgt = strip_all_casts(a[0])
                    e = strip_all_casts(a[1])
                    off = None
                    if e.get('k') == 'DeclRefExpr' and e['ref']['name'] == var:
                        off = 0
                    elif e.get('k') == 'BinaryOperator' and e.get('op') in ('-', '+'):
                        l, r = children(e)
                        l, r = strip_all_casts(l), strip_all_casts(r)
                        if l.get('k') == 'DeclRefExpr' and l['ref']['name'] == var and 'val' in r:
                            off = r['val'] if e['op'] == '+' else -r['val']
                    if tgt.get('k') == 'DeclRefExpr':
                        gen[tgt['ref']['name']] = off
            ren = [c for c in h.calls() if callee_is(c, 'FileOperations::rename')]
            ok = descending and len(ren) == 1
            detail = 'loop is not descending' if not descending else ''
            if ok:
                a = call_args(ren[0])
                d = strip_all_casts(a[0]).get('ref', {}).get('name')
                s = strip_all_casts(a[1]).get('ref', {}).get('name')
                ok = gen.get(d) is not None and gen.get(s) is not None and gen[d] == gen[s] + 1
                detail = 'rename( dest generation n%+d, src generation n%+d)' % (gen.get(d) or 0, gen.get(s) or 0)
            chk.check(ok, 'R4', h.name, 'generations are shifted n-1 -> n from the oldest downwards (nothing is '
                      'overwritten before it was moved)', h.loc(loop), detail)
            # the range of generations that is shifted depends on the configuration only: older generations can
            # exist from an earlier run, so the start of the loop must not depend on what THIS object has done so
            # far (fields that members other than constructors assign), and the loop runs down to generation 1
            mutable = set()
            for m in prog.functions:
                if (m.cls == cls or (m.classq or '').endswith('PolicyBase')) and not m.d.get('ctor') and m.body:
                    for x in m.walk():
                        if x.get('k') in ('BinaryOperator', 'CompoundAssignOperator', 'UnaryOperator') and \
                                ((x.get('op') or '').endswith('=') and x.get('op') not in ('==', '!=', '<=', '>=')
                                 or x.get('op') in ('++', '--')):
                            fn = field_name(children(x)[0])
                            if fn:
                                mutable.add(fn)
            init = kids[0] if kids else None
            used = {x['ref']['name'] for x in walk(init) if x.get('k') == 'MemberExpr' and
                    x.get('ref', {}).get('dk') == 'Field'} if isinstance(init, dict) else set()
            cond = kids[2] if len(kids) > 2 else None
            c0 = strip_all_casts(cond) if isinstance(cond, dict) else {}
            to_one = c0.get('k') == 'BinaryOperator' and (
                (c0.get('op') == '>' and strip_all_casts(children(c0)[1]).get('val', children(c0)[1].get('cv')) == 0) or
                (c0.get('op') == '>=' and strip_all_casts(children(c0)[1]).get('val', children(c0)[1].get('cv')) == 1))
            chk.check(bool(used) and not (used & mutable) and to_one, 'R4', h.name, 'all generations of the configured '
                      'limit are shifted, down to generation 1, whatever this object has written so far (files of an '
                      'earlier run are rolled too)', h.loc(loop),
                      'loop start uses %s; state fields: %s; runs down to generation 1: %s' % (
                          sorted(used), sorted(used & mutable), to_one))
    return n


def r5_lock_held(chk, prog):
    """check -> roll -> write -> account is one atomic step per log file: files::Handler<P, L>::message() holds its
    lock object (a NAMED std::lock_guard / unique_lock / scoped_lock on the handler's lock member - a temporary
    unlocks at once) from before the call of writeMessage() to the end of the function"""
    n = 0
    for f in prog.functions:
        if f.classq != 'celma::log::files::Handler' or f.short != 'message' or f.body is None:
            continue
        n += 1
        cfg = f.cfg
        wm = [c for c in f.calls() if callee_is(c, 'writeMessage')]
        guards = []
        for x in f.walk():
            if x.get('k') != 'DeclStmt':
                continue
            # a guard declared in a nested block ends with that block: only declarations of the function's own block
            if f.parent(x) is not f.body:
                continue
            for d in x.get('decls', []):
                if any(t in (d.get('t') or '') for t in ('std::lock_guard<', 'std::unique_lock<', 'std::scoped_lock<')) \
                        and isinstance(d.get('init'), dict) and mentions_field(d['init'], 'mLockType'):
                    guards.append(x)
        ok = bool(wm) and all(any(cfg.node_dominates(g, c) for g in guards) for c in wm)
        chk.check(ok, 'R5', f.name, 'the handler lock is held while the policy checks, rolls, writes and counts',
                  f.loc(), 'no named lock guard on mLockType is alive at the call of writeMessage() (a temporary '
                  'guard is destroyed at the end of its statement)')
    chk.require(n >= 2, 'files::Handler<P, L>::message() instantiations: %d' % n)


def r6_generation_names(chk, prog, rule='R6'):
    """every generation has its own file name: the roll-over renames generation n to n + 1 by NAME, so two
    generation numbers that are rendered to the same text make one generation overwrite another.
    filename::Builder::filename() hands the generation number it is given to formatNumber() for the number part, and
    formatNumber() appends the complete decimal rendering of that number: the number is streamed once, on every
    path, and the text taken from the stream reaches the destination as it is (padding to a fixed width may add
    characters in front, nothing removes, cuts or rewrites characters)"""
    B = 'celma::log::filename::Builder'
    f = prog.one(B, 'filename', pred=lambda g: len(g.params) == 3 and 'basic_string' in g.params[0]['t'])
    gen = f.params[1]['name']
    calls = [c for c in f.calls() if callee_is(c, 'Builder::formatNumber')]
    chk.require(calls, 'Builder::filename: formatNumber() not called')
    with_gen = [c for c in calls if any(mentions_var(a, gen) for a in call_args(c))]
    ok = len(with_gen) == 1
    if ok:
        a = call_args(with_gen[0])
        ok = len(a) >= 3 and strip_all_casts(a[2]).get('k') == 'DeclRefExpr' and \
            strip_all_casts(a[2])['ref'].get('name') == gen
        # under the label of the number part
        case = [x for x in f.walk() if x.get('k') == 'CaseStmt' and any(with_gen[0] is y for y in walk(x))]
        ok = ok and any((x.get('enumerator') or '').endswith('::number') for x in case)
    chk.check(ok, rule, f.name, 'the number part of the file name is the generation number, unmodified', f.loc())
    g = prog.one(B, 'formatNumber')
    num = g.params[2]['name']
    dest = g.params[0]['name']
    streams = [c for c in g.calls() if c.get('k') == 'CXXOperatorCallExpr' and c.get('op') == '<<' and
               strip_all_casts(call_args(c)[1]).get('k') == 'DeclRefExpr' and
               strip_all_casts(call_args(c)[1])['ref'].get('name') == num]
    once = len(streams) == 1 and not g.cfg.must_pass_through(lambda n: n in streams)
    chk.check(once, rule, g.name, 'the number is rendered completely (streamed once, on every path)', g.loc())
    apps = [c for c in g.calls() if c.get('k') == 'CXXMemberCallExpr' and
            (c.get('callee') or '').split('::')[-1] in ('append', 'operator+=', 'push_back', 'insert') and
            mentions_var(object_of(c), dest)]
    apps += [c for c in g.calls() if c.get('k') == 'CXXOperatorCallExpr' and c.get('op') == '+=' and
             mentions_var(call_args(c)[0], dest)]
    MUTATING = ('erase', 'resize', 'substr', 'pop_back', 'assign', 'replace', 'clear', 'operator=', 'operator[]', 'at',
                'front', 'back', 'insert', 'remove_prefix', 'data')
    ok = len(apps) == 1 and not g.cfg.must_pass_through(lambda n: n in apps)
    detail = 'the destination is appended to %d time(s)' % len(apps)
    if ok:
        a = strip_all_casts(call_args(apps[0])[0] if apps[0].get('k') == 'CXXMemberCallExpr' else call_args(apps[0])[1])
        while a.get('k') in ('MaterializeTemporaryExpr', 'CXXBindTemporaryExpr', 'CXXConstructExpr', 'ExprWithCleanups') \
                and len(children(a)) == 1:
            a = strip_all_casts(children(a)[0])
        if a.get('k') == 'CXXMemberCallExpr' and (a.get('callee') or '').endswith('::str'):
            pass
        elif a.get('k') == 'DeclRefExpr' and a['ref'].get('sto') == 'local':
            did = a['ref'].get('did')
            uses = []
            for x in g.walk():
                if x.get('k') == 'DeclRefExpr' and x['ref'].get('did') == did and x is not a:
                    p_ = g.parent(x)
                    while p_ is not None and p_.get('k') in ('ImplicitCastExpr', 'MemberExpr', 'ParenExpr'):
                        p_ = g.parent(p_)
                    nm = (p_.get('callee') or '').split('::')[-1] if p_ is not None and p_.get('k') in CALL_KINDS else \
                        (p_ or {}).get('k')
                    uses.append(nm)
            bad = [u for u in uses if u in MUTATING or u in ('CXXOperatorCallExpr',)]
            init = [d.get('init') for ds in g.walk() if ds.get('k') == 'DeclStmt' for d in ds.get('decls', [])
                    if d.get('did') == did]
            from_stream = bool(init) and isinstance(init[0], dict) and any(
                y.get('k') == 'CXXMemberCallExpr' and (y.get('callee') or '').endswith('::str') for y in walk(init[0]))
            ok = from_stream and not bad
            detail = 'the rendered text is changed before it is appended (%s)' % sorted(set(bad)) if bad else \
                'the appended text is not the content of the stream'
        else:
            ok = False
            detail = 'the appended text is not the content of the stream'
    chk.check(ok, rule, g.name, 'the rendered number reaches the file name as it is (nothing is cut off)', g.loc(), detail)


def r7_os_layer(chk, prog, rule='R7'):
    """the roll-over renames generation n to n + 1 and RELIES on the replacement of an existing destination (the
    oldest generation is overwritten that way) and never looks at the result: the operating-system layer behind
    common::FileOperations passes every rename / remove to the C library unconditionally - source and destination in
    the right places - and returns its result"""
    table = {'rename': ('rename', ('src', 'dest')), 'remove': ('remove', ('file',))}
    for short, (libc, order) in table.items():
        f = prog.one('celma::common::detail::FileFuncsOs', short)
        cs = [c for c in f.calls() if c.get('k') == 'CallExpr' and (c.get('callee') or '') in (libc, '::' + libc, 'std::' + libc)]
        ok = len(cs) == 1 and not f.cfg.must_pass_through(lambda n_: any(n_ is c for c in cs))
        detail = 'the C library function is not reached on every path (calls: %d)' % len(cs)
        if ok:
            pn = [p_['name'] for p_ in f.params]
            a = call_args(cs[0])
            want = [pn[1], pn[0]] if short == 'rename' else [pn[0]]      # rename( dest, src) -> ::rename( src, dest)
            got = [sorted({y['ref'].get('name') for y in walk(x) if y.get('k') == 'DeclRefExpr' and
                           y['ref'].get('sto') == 'param'}) for x in a]
            ok = got == [[w] for w in want]
            detail = 'arguments %s, expected %s' % (got, want)
        if ok:
            rets = [x for x in f.walk() if x.get('k') == 'ReturnStmt' and children(x)]
            ok = len(rets) == 1 and any(y is cs[0] for y in walk(rets[0]))
            detail = 'the result of the C library function is not what is returned'
        chk.check(ok, rule, f.name, 'FileFuncsOs::%s() passes the request to ::%s() on every path and returns its result'
                  % (short, libc), f.loc(), '' if ok else detail)


def r8_fresh_message_text(chk, prog, rule='R8'):
    """what is written for a message is the text of THIS message: files::Handler< P, L>::message() formats into a
    stream that is a local object of the call and hands exactly that stream's content to the policy - a stream that
    outlives the call (a member) still holds the tail of an earlier, longer message"""
    n = 0
    for f in prog.functions:
        if f.short != 'message' or f.body is None or not (f.classq or '').startswith('celma::log::files::Handler'):
            continue
        fm = [c for c in f.calls() if callee_is(c, 'formatMsg')]
        wm = [c for c in f.calls() if callee_is(c, 'writeMessage')]
        if not fm or not wm:
            continue
        n += 1
        a = strip_all_casts(call_args(fm[0])[0])
        local = a.get('k') == 'DeclRefExpr' and a['ref'].get('sto') == 'local'
        same = local and any(mentions_var(x, a['ref'].get('name')) for x in call_args(wm[0]))
        chk.check(local and same, rule, f.name, 'the message text is formatted into a stream of its own and that text is '
                  'what is written', f.loc(fm[0]), 'the stream is %s' % ('a member: it keeps the characters of earlier '
                  'messages' if a.get('k') == 'MemberExpr' else 'not the one whose content is written'))
    chk.require(n >= 2, 'message() of the file handler instantiations: %d' % n)


def run(chk):
    units = units_matching('library/log/files/', 'library/common/file_operations.cpp') + [
        os.path.join(VERIF, 'drivers', 'log_files.cpp')]
    prog = load_program(units)
    chk.units = units
    chk.explanation = (
        'Necessary structural conditions of the rolling-file policies, decided on the AST/CFG of PolicyBase and of '
        'every policy class found (Counted, MaxSize, Simple, Timestamped): constant-folded open mode is '
        'non-truncating, every counter updated in written() and read in writeCheck() is reassigned on the open path, '
        'the byte accounting of written()/writeCheck() (abstractly evaluated) equals the operands streamed by '
        'writeMessage(), ordering by dominance, roll loops shift n-1 -> n descending. Histories, restarts and crash '
        'points are behavioural and not decided.')
    chk.assumptions = ['std::ios_base::openmode bit values of libstdc++ (app=1, ate=2, in=8, out=16, trunc=32)',
                       'std::endl writes one byte']
    chk.rule('R1', 'non-truncating open of the log file', 2)
    chk.rule('R2', 'progress counters restart with a new generation', 2)
    chk.rule('R3', 'size accounting agrees with the bytes written', 3)
    chk.rule('R4', 'check -> write -> account; close -> roll -> open; descending roll', 6)
    r1(chk, prog)
    r2(chk, prog)
    r3(chk, prog)
    r4(chk, prog)
    chk.rule('R5', 'the file handler holds its lock around check, roll-over, write and accounting', 2)
    r5_lock_held(chk, prog)
    chk.rule('R8', 'the text written for a message is formatted freshly for it', 2)
    r8_fresh_message_text(chk, prog)
    chk.rule('R6', 'every generation number has its own file name (the number is rendered completely)', 3)
    prog6 = load_program(units_matching('library/log/filename/builder.cpp'))
    chk.units = list(chk.units) + units_matching('library/log/filename/builder.cpp')
    r6_generation_names(chk, prog6)
    chk.rule('R7', 'the operating-system file layer passes rename / remove through unconditionally', 2)
    prog7 = load_program(units_matching('library/common/detail/file_funcs_os.cpp'))
    chk.units = list(chk.units) + units_matching('library/common/detail/file_funcs_os.cpp')
    r7_os_layer(chk, prog7)
