"""C12-R4: the summarising observers of DynamicBitset agree with a reference bit vector.

 all/any/none/count : the std::find / std::count call they are defined by has the polarity the
                      reference model prescribes (all: no false found, any: a true found, none: no true
                      found, count: number of true) - resolved callee, constant argument, comparison
                      with end(); a form that is not recognised is reported as undecided, never as a
                      violation
 to_ulong           : visit-all proof on the accumulation loop (Engine C): the loop starts at bit 0,
                      advances by one, ends only when every position below size() was visited; the
                      overflow exception is thrown only for a position >= 64 (= the number of value
                      bits of unsigned long); every other set bit contributes 1 << position with a
                      shift distance proved < 64
 to_string          : visit-all proof; the string has size() characters initialised with `zero`, a set
                      bit at position i stores `one` at index size() - 1 - i"""
from ..bounds import Engine, Ptr, Obj, Obligation, UNKNOWN, St, btype
from ..lin import Lin, lin, ge, le, lt, gt, eq, entails, feasible, TooBig
from ..facts import AnalysisBroken, children, walk, strip_casts, strip_all_casts, CALL_KINDS
from ..rules import call_args

CLS = 'celma::container::DynamicBitset'


def unwrap(x):
    x = strip_all_casts(x)
    while x.get('k') in ('ParenExpr', 'ExprWithCleanups', 'MaterializeTemporaryExpr', 'CXXBindTemporaryExpr',
                         'CXXConstructExpr') and len(children(x)) == 1:
        x = strip_all_casts(children(x)[0])
    return x


def is_mdata_call(x, short):
    """this->mData.<short>()"""
    x = unwrap(x)
    if x.get('k') != 'CXXMemberCallExpr' or not (x.get('callee') or '').endswith('::' + short):
        return False
    kids = children(x)
    if not kids or kids[0].get('k') != 'MemberExpr':
        return False
    base = children(kids[0])
    if not base:
        return False
    b = strip_all_casts(base[0])
    return b.get('k') == 'MemberExpr' and b.get('ref', {}).get('name') == 'mData' and \
        strip_all_casts(children(b)[0]).get('k') == 'CXXThisExpr' if children(b) else False


def algo_call(x, name):
    """std::<name>( mData.begin(), mData.end(), <bool constant>) -> the constant, else None"""
    x = unwrap(x)
    if x.get('k') != 'CallExpr' or x.get('callee') not in ('std::' + name,):
        return None
    args = children(x)[1:]
    if len(args) != 3 or not is_mdata_call(args[0], 'begin') and not is_mdata_call(args[0], 'cbegin'):
        return None
    if not (is_mdata_call(args[1], 'end') or is_mdata_call(args[1], 'cend')):
        return None
    v = unwrap(args[2])
    if v.get('k') == 'CXXBoolLiteralExpr':
        return bool(v.get('val'))
    if 'cv' in args[2]:
        return bool(args[2]['cv'])
    return None


def shapes(chk, prog, rule='R4'):
    want = {'all': ('==', False), 'any': ('!=', True), 'none': ('==', True)}
    n = 0
    for short, (op, val) in want.items():
        fs = [f for f in prog.functions if f.classq == CLS and f.short == short and not f.params]
        chk.require(len(fs) == 1, 'DynamicBitset::%s() not found' % short)
        f = fs[0]
        rets = [x for x in f.walk() if x.get('k') == 'ReturnStmt']
        got = None
        if len(rets) == 1 and children(rets[0]):
            e = unwrap(children(rets[0])[0])
            neg = False
            if e.get('k') == 'UnaryOperator' and e.get('op') == '!':
                neg = True
                e = unwrap(children(e)[0])
            if e.get('k') in ('CXXOperatorCallExpr', 'BinaryOperator') and \
                    (e.get('op') in ('==', '!=') or (e.get('callee') or '').endswith(('operator==', 'operator!='))):
                kids = children(e)
                if e.get('k') == 'CXXOperatorCallExpr':
                    kids = kids[1:]
                o = e.get('op') or ('==' if (e.get('callee') or '').endswith('operator==') else '!=')
                if len(kids) == 2:
                    a, b = kids
                    fv = algo_call(a, 'find')
                    other = b
                    if fv is None:
                        fv = algo_call(b, 'find')
                        other = a
                    if fv is not None and (is_mdata_call(other, 'end') or is_mdata_call(other, 'cend')):
                        if neg:
                            o = '!=' if o == '==' else '=='
                        got = (o, fv)
        if got is None:
            chk.notes.append('DynamicBitset::%s(): form not recognised - undecided' % short)
            continue
        n += 1
        chk.check(got == (op, val), rule, f.name, '%s() is "std::find( begin, end, %s) %s end" like the reference bit '
                  'vector' % (short, str(val).lower(), op), f.loc(), 'found: find( ..., %s) %s end' % (
                      str(got[1]).lower(), got[0]))
    # equality: the comparison of the two bit vectors (std::vector<bool>::operator==: same size, same bits)
    eqs = [f for f in prog.functions if f.classq == CLS and f.short == 'operator==' and len(f.params) == 1]
    for f in eqs:
        rets = [x for x in f.walk() if x.get('k') == 'ReturnStmt']
        ok = None
        if len(rets) == 1 and children(rets[0]):
            e = unwrap(children(rets[0])[0])
            if e.get('k') == 'CXXOperatorCallExpr' and (e.get('callee') or '').endswith('operator=='):
                ops = children(e)[1:]
                names = []
                for o in ops:
                    o = strip_all_casts(o)
                    if o.get('k') == 'MemberExpr' and o.get('ref', {}).get('name') == 'mData':
                        b = strip_all_casts(children(o)[0]) if children(o) else {}
                        names.append('this' if b.get('k') == 'CXXThisExpr' else b.get('ref', {}).get('name'))
                ok = len(names) == 2 and 'this' in names and f.params[0]['name'] in names
        if ok is None:
            chk.notes.append('DynamicBitset::operator==: form not recognised - undecided')
        else:
            n += 1
            chk.check(ok, rule, f.name, 'operator== compares the complete bit vectors of both operands', f.loc())
    fs = [f for f in prog.functions if f.classq == CLS and f.short == 'count' and not f.params]
    chk.require(len(fs) == 1, 'DynamicBitset::count() not found')
    f = fs[0]
    rets = [x for x in f.walk() if x.get('k') == 'ReturnStmt']
    got = algo_call(children(rets[0])[0], 'count') if len(rets) == 1 and children(rets[0]) else None
    if got is None:
        chk.notes.append('DynamicBitset::count(): form not recognised - undecided')
    else:
        n += 1
        chk.check(got is True, rule, f.name, 'count() counts the set bits', f.loc(), 'counts %s' % got)
    return n


class VisitAll:
    """for ( idx = 0; idx < size; ++idx) body: start at 0, step one, leave only when idx >= size"""

    def __init__(self, chk, eng, f, tag, rule):
        self.chk, self.eng, self.f, self.tag, self.rule = chk, eng, f, tag, rule

    def check(self, ok, what, node, detail=''):
        self.chk.check(ok, self.rule, self.f.name, '%s [%s]' % (what, self.tag), self.f.loc(node) if node else
                       self.f.loc(), detail)

    def run(self, st, size, on_iteration):
        """executes the statements of the function; its first loop is decomposed; on_iteration( state after the
        body, tested index, status) is called for every outcome of one symbolic iteration.  Returns the states
        after the loop."""
        eng, f = self.eng, self.f
        live = [st]
        after = []
        done_loop = False
        for stmt in children(f.body):
            if stmt.get('k') == 'ForStmt' and not done_loop:
                done_loop = True
                init, _cv, cond, inc, body = (stmt.get('c', []) + [None] * 5)[:5]
                cur = [s for s in eng.stmt(init, live, f) if s.status == 'normal'] if init is not None else live
                vars_, fields, havoc_this, incs, decs = eng.modified_in([cond, inc], f)
                var = sorted(vars_)[0] if len(vars_) == 1 else None
                self.check(var is not None, 'the loop has one position variable', stmt, str(sorted(vars_)))
                if var is None:
                    return []
                live = []
                for s0 in cur:
                    h0 = s0.vars.get(var)
                    self.check(isinstance(h0, Lin) and entails(s0.cons, le(h0, 0)) and entails(s0.cons, ge(h0, 0)),
                               'the visit starts at position 0', init or stmt, 'start %r' % (h0,))
                    head = s0.copy()
                    h = eng.fresh('head', head, 'unsigned long')
                    head.vars[var] = h
                    for truth, s1 in eng.cond(cond, head, f):
                        if not truth:
                            self.check(entails(s1.cons, ge(h, size)), 'the visit ends only when every position below '
                                       'size() was visited', cond, 'ends at %r with size %r' % (h, size))
                            live.append(s1)
                            continue
                        self.check(entails(s1.cons, lt(h, size)), 'every visited position is below size()', cond)
                        for r in eng.stmt(body, [s1], f):
                            on_iteration(r, h, r.status)
                            if r.status in ('normal', 'continue'):
                                r.status = 'normal'
                                for _, s2 in eng.ev(inc, r, f):
                                    h2 = s2.vars.get(var)
                                    self.check(isinstance(h2, Lin) and entails(s2.cons, ge(h2, h + 1)) and
                                               entails(s2.cons, le(h2, h + 1)), 'the visit advances by exactly one '
                                               'position', inc, 'next %r after %r' % (h2, h))
                            elif r.status not in ('throw',):
                                self.check(False, 'the visit is left only by its condition or an exception', body,
                                           'status %s' % r.status)
                continue
            live = [s for s in eng.stmt(stmt, live, f)]
            after.extend(s for s in live if s.status != 'normal')
            live = [s for s in live if s.status == 'normal']
        self.check(done_loop, 'the member visits the positions in a loop', None)
        return after + live


def make_engine(prog):
    cfg = {'inline': ('celma::container::',), 'inline_depth': 3, 'check_shifts': True}
    return Engine(prog, cfg)


def to_ulong(chk, prog, rule='R4'):
    fs = [f for f in prog.functions if f.classq == CLS and f.short == 'to_ulong']
    chk.require(len(fs) == 1, 'DynamicBitset::to_ulong() not found')
    f = fs[0]
    eng = make_engine(prog)
    eng.root = f.name
    st = St()
    size = eng.named('this.mData.size()', st, 'unsigned long')
    st.assume(le(size, (1 << 63) - 1))
    st.fields[('this.mData', 'size')] = size
    st.fields[('this', 'mData')] = Obj('this.mData', 'std::vector<bool>')
    va = VisitAll(chk, eng, f, 'to_ulong()', rule)
    # the accumulation: result += 1 << idx  /  result |= 1 << idx
    acc = []
    for x in f.walk():
        if x.get('k') == 'CompoundAssignOperator' and x.get('op') in ('+=', '|='):
            rhs = strip_all_casts(children(x)[1])
            while rhs.get('k') == 'ParenExpr':
                rhs = strip_all_casts(children(rhs)[0])
            if rhs.get('k') == 'BinaryOperator' and rhs.get('op') == '<<':
                a, b = children(rhs)
                if a.get('cv') == 1 or strip_all_casts(a).get('val') == 1:
                    acc.append((x, strip_all_casts(b)))
    chk.check(len(acc) == 1, rule, f.name, 'a set bit contributes 1 << position to the result [to_ulong()]', f.loc(),
              '%d accumulation statements of that form' % len(acc))
    shift_nodes = {id(b) for _, b in acc}
    seen = {'throw': 0, 'add': 0}

    def on_iteration(r, h, status):
        if status == 'throw':
            seen['throw'] += 1
            va.check(entails(r.cons, ge(h, 64)), 'the overflow exception is thrown only for a set bit at a position '
                     '>= 64 (bits 0..63 fit into unsigned long)', None,
                     'thrown at position %r on the path [%s]' % (h, '; '.join(r.trail[-5:])))
    mark = len(eng.obligations)
    finals = va.run(st, size, on_iteration)
    for o in eng.obligations[mark:]:
        if o.kind == 'shift':
            seen['add'] += 1
            chk.check(o.held, rule, f.name, '%s [to_ulong()]' % o.what, o.where, o.detail)
    del eng.obligations[mark:]
    chk.check(seen['throw'] >= 1, rule, f.name, 'a set bit at a position >= 64 is refused with an exception '
              '[to_ulong()]', f.loc(), 'no throwing path found')
    chk.check(seen['add'] >= 1, rule, f.name, 'the shift that builds the value is analysed [to_ulong()]', f.loc())
    return 1


def to_string(chk, prog, rule='R4'):
    fs = [f for f in prog.functions if f.classq == CLS and f.short == 'to_string']
    if not fs:
        chk.notes.append('DynamicBitset::to_string<T> is not instantiated in the analysed units - undecided')
        return 0
    n = 0
    for f in fs:
        eng = make_engine(prog)
        stores = []
        eng.cfg['on_store'] = lambda e, s, ptr, v, node, func: stores.append((s.copy(), ptr, v))
        eng.root = f.name
        st = St()
        for p in f.params:
            eng.bind_param(st, f, p)
        size = eng.named('this.mData.size()', st, 'unsigned long')
        st.assume(le(size, (1 << 62)))
        st.fields[('this.mData', 'size')] = size
        st.fields[('this', 'mData')] = Obj('this.mData', 'std::vector<bool>')
        tag = 'to_string<%s>()' % (f.params[0]['t'] if f.params else '')
        va = VisitAll(chk, eng, f, tag, rule)
        zero, one = (st.vars.get(p['name']) for p in f.params[:2])
        per_iter = []

        def on_iteration(r, h, status):
            per_iter.append((r, h, status, len(stores)))
        mark = len(eng.obligations)
        before = len(stores)
        finals = va.run(st, size, on_iteration)
        del eng.obligations[mark:]
        # the result string: size() characters of `zero`
        res = None
        for s in finals:
            if s.status == 'return' and isinstance(s.ret, Obj):
                res = s
                ln = s.fields.get((s.ret.name, 'length'))
                chk.check(isinstance(ln, Lin) and entails(s.cons, ge(ln, size)) and entails(s.cons, le(ln, size)),
                          rule, f.name, 'the string has size() characters [%s]' % tag, f.loc(), 'length %r' % (ln,))
        chk.check(res is not None, rule, f.name, 'a string is returned [%s]' % tag, f.loc())
        # stores inside the iteration: index size - 1 - i, value `one`
        good = 0
        for s, ptr, v in stores[before:]:
            i = None
            for r, h, status, upto in per_iter:
                pass
            hs = [h for r, h, status, upto in per_iter]
            h = hs[0] if hs else None
            ok = h is not None and isinstance(ptr, Ptr) and entails(s.cons, ge(ptr.off, size - 1 - h)) and \
                entails(s.cons, le(ptr.off, size - 1 - h)) and isinstance(v, Lin) and isinstance(one, Lin) and \
                entails(s.cons, ge(v, one)) and entails(s.cons, le(v, one))
            good += 1 if ok else 0
            chk.check(ok, rule, f.name, 'a set bit at position i stores `one` at index size() - 1 - i [%s]' % tag,
                      f.loc(), 'stores %r at %r' % (v, ptr))
        chk.check(good >= 1, rule, f.name, 'set bits are written into the string [%s]' % tag, f.loc(),
                  'no store into the result found')
        n += 1
    return n


def run(chk, prog, rule='R4'):
    n = shapes(chk, prog, rule)
    n += to_ulong(chk, prog, rule)
    n += to_string(chk, prog, rule)
    return n


# ====================================================================== bit-level results of the mutators

def mutators(chk, prog, rule='R5'):
    """C12-R5: the mutating operators produce, for every operand and for EVERY bit position, the bit the reference
    bit vector has there.  Engine C with the bit-level content model (cv/bits.py): element-wise loops are summarised
    (after proving that no iteration reads what an earlier one wrote), the bit at a symbolic position of the result
    is resolved through the write log and compared with the specification of the operation."""
    from .. import bits
    from ..bits import region_of, resolve, same, show, simplify
    cfg = {'inline': ('celma::container::',), 'inline_depth': 3, 'track_content': True, 'models': dict(bits.MODELS),
           'loop_summary': bits.loop_summary}
    eng = Engine(prog, cfg)
    eng.param_max = 1 << 62
    T, O = 'this.mData', 'other.mData'
    tr, orr = region_of(T), region_of(O)

    def I(r, off):
        return ('i', r, off)

    def setup(e, st, func):
        st.fields[('this', 'mData')] = Obj(T, 'std::vector<bool>')
        n = bits.vec_size(e, st, T)
        st.assume(le(n, (1 << 62)))
        first_free = not func.classq
        for p in func.params:
            t = btype(p['t'].rstrip('&').strip())
            if t == 'celma::container::DynamicBitset' and first_free:
                # binary operator as free function: the left operand plays the role of *this
                first_free = False
                st.vars[p['name']] = Obj('this', t)
            elif t == 'celma::container::DynamicBitset':
                st.vars[p['name']] = Obj('other', t)
                st.fields[('other', 'mData')] = Obj(O, 'std::vector<bool>')
                m = bits.vec_size(e, st, O)
                st.assume(le(m, (1 << 62)))
            elif t.startswith('std::vector<bool'):
                st.vars[p['name']] = Obj(O, 'std::vector<bool>')
                m = bits.vec_size(e, st, O)
                st.assume(le(m, (1 << 62)))

    n, m = Lin.sym('%s.size()' % T), Lin.sym('%s.size()' % O)

    def spec(f):
        """(result object selector, [(assumptions, expected size, [(range assumptions for position p, expected bit)])])"""
        ks = tuple(btype(p['t'].rstrip('&').strip()) for p in f.params)
        v = [Lin.sym(p['name']) for p in f.params]
        p = Lin.sym('p?')
        short = f.short
        if short == 'flip' and not ks:
            return 'this', [([], n, lambda p: [([], ('not', I(tr, p)))])]
        if short == 'reset' and not ks:
            return 'this', [([], lin(0), lambda p: [])]
        if short == 'set' and not ks:
            return 'this', [([], n, lambda p: [([], ('c', 1))])]
        if short == 'operator[]' and not f.d.get('const'):
            pos = v[0]
            return 'this', [([], None, lambda p: [([lt(p, n)], I(tr, p)), ([ge(p, n)], ('c', 0))])]
        if short == 'operator=' and ks and ks[0].startswith('std::vector<bool') and f.params[0]['t'].endswith('&&'):
            return 'this', [([], m, lambda p: [([], I(orr, p))])]
        if short == 'resize':
            return 'this', [([], v[0], lambda p: [([lt(p, n)], I(tr, p)), ([ge(p, n)], ('v', v[1]))])]
        if short == 'operator=' and ks and ks[0].startswith('std::vector<bool') and not f.params[0]['t'].endswith('&&'):
            return 'this', [([], m, lambda p: [([], I(orr, p))])]
        if short in ('operator&=', 'operator|=', 'operator^=') or (
                not f.classq and short in ('operator&', 'operator|', 'operator^') and len(ks) == 2):
            # the binary operators (free functions) have the specification of their compound counterparts
            op = {'&': 'and', '|': 'or', '^': 'xor'}[short[8]]
            who = 'this' if f.classq else 'ret'
            if op == 'and':
                return who, [([], n, lambda p: [([lt(p, m)], ('and', I(tr, p), I(orr, p))), ([ge(p, m)], ('c', 0))])]
            return who, [([ge(n, m)], n, lambda p: [([lt(p, m)], (op, I(tr, p), I(orr, p))), ([ge(p, m)], I(tr, p))]),
                            ([lt(n, m)], m, lambda p: [([lt(p, n)], (op, I(tr, p), I(orr, p))),
                                                       ([ge(p, n)], I(orr, p))])]
        if short == 'operator~':
            return 'ret', [([], n, lambda p: [([], ('not', I(tr, p)))])]
        if short in ('operator<<', 'operator<<='):
            d = v[0]
            who = 'ret' if short == 'operator<<' else 'this'
            return who, [([ge(d, 1), ge(n, 1)], n + d, lambda p: [([lt(p, d)], ('c', 0)), ([ge(p, d)], I(tr, p - d))]),
                         ([le(d, 0)], n, lambda p: [([], I(tr, p))]),
                         ([le(n, 0)], n, lambda p: [])]
        if short in ('operator>>', 'operator>>='):
            d = v[0]
            who = 'ret' if short == 'operator>>' else 'this'
            return who, [([ge(d, 1), ge(n, 1)], n, lambda p: [([lt(p + d, n)], I(tr, p + d)), ([ge(p + d, n)], ('c', 0))]),
                         ([le(d, 0)], n, lambda p: [([], I(tr, p))]),
                         ([le(n, 0)], n, lambda p: [])]
        if short in ('set', 'reset', 'flip') and ks and ks[0] == 'unsigned long':
            pos = v[0]
            if short == 'set':
                newbit = ('v', v[1])
            elif short == 'reset':
                newbit = ('c', 0)
            else:
                newbit = None
            return 'this', [([], None, lambda p: [([lt(p, pos), lt(p, n)], I(tr, p)), ([gt(p, pos), lt(p, n)], I(tr, p)),
                                                  ([lt(p, pos), ge(p, n)], ('c', 0)), ([gt(p, pos), ge(p, n)], ('c', 0))] +
                             ([(eq(p, pos), newbit)] if newbit is not None else
                              [(eq(p, pos) + [lt(pos, n)], ('not', I(tr, p))), (eq(p, pos) + [ge(pos, n)], ('c', 1))]))]
        return None

    members = [f for f in prog.functions if f.classq == CLS and not f.d.get('ctor') and not f.d.get('dtor')]
    members += [f for f in prog.functions if not f.classq and f.name.startswith('celma::container::operator') and
                f.body is not None and any('DynamicBitset' in p['t'] for p in f.params)]
    n_spec = 0
    undecided = []
    for f in sorted(members, key=lambda x: (x.line, x.key)):
        sp = spec(f)
        if sp is None:
            continue
        who, variants = sp
        n_spec += 1
        sig = '%s(%s)%s' % (f.short, ', '.join(p['t'].replace('celma::container::', '').replace(
            'std::vector<bool, std::allocator<bool>>', 'vector<bool>') for p in f.params), ' const' if f.d.get('const') else '')
        for vi, (assume, size_want, bitspec) in enumerate(variants):
            tag = '%s, case %d' % (sig, vi + 1)
            dead = []

            def setup2(e, st, func, assume=assume, dead=dead):
                setup(e, st, func)
                st.assume(*assume)
                if not st.ok():
                    dead.append(1)
            mark = len(eng.obligations)
            eng.dependent_loops = set()
            finals = eng.analyse(f, setup2)
            del eng.obligations[mark:]
            if dead:
                continue
            for s in finals:
                if s.status not in ('normal', 'return'):
                    continue
                if who == 'this':
                    vec = T
                else:
                    r = s.ret
                    if not isinstance(r, Obj):
                        chk.check(False, rule, f.name, 'the result object is tracked [%s]' % tag, f.loc(), repr(r))
                        continue
                    mo = s.fields.get((r.name, 'mData'))
                    vec = mo.name if isinstance(mo, Obj) else None
                    if vec is None or (vec, 'size') not in s.fields:
                        undecided.append(tag)
                        continue
                size = s.fields.get((vec, 'size'))
                if size_want is not None:
                    ok = isinstance(size, Lin) and entails(s.cons, ge(size, size_want)) and \
                        entails(s.cons, le(size, size_want))
                    chk.check(ok, rule, f.name, 'the result has the size of the reference bit vector [%s]' % tag, f.loc(),
                              '' if ok else 'size %r, expected %r; path [%s]' % (size, size_want, '; '.join(s.trail[-5:])))
                if not isinstance(size, Lin):
                    continue
                if size_want is None and f.params:
                    # a position at or beyond the size makes the bitset grow: afterwards it covers the position
                    # and is never smaller than before
                    pos = Lin.sym(f.params[0]['name'])
                    ok = entails(s.cons, ge(size, pos + 1)) and entails(s.cons, ge(size, n))
                    chk.check(ok, rule, f.name, 'the bitset covers the addressed position afterwards (grows if '
                              'necessary) [%s]' % tag, f.loc(), '' if ok else 'size %r, position %r; path [%s]' % (
                                  size, pos, '; '.join(s.trail[-5:])))
                p = eng.fresh('p', s, 'unsigned long')
                s2 = s.copy()
                s2.assume(ge(p, 0), lt(p, size))
                bad = None
                und = False
                ncase = 0
                if s2.ok():
                    for extra, want in bitspec(p):
                        s3 = s2.copy()
                        s3.assume(*extra)
                        if not s3.ok():
                            continue
                        for act, sa in resolve(eng, s3, region_of(vec), p):
                            ncase += 1
                            if simplify(act)[0] == 'u' or 'u' in repr(simplify(act)) and "('u',)" in repr(simplify(act)):
                                und = True
                                continue
                            if not same(sa, act, want):
                                bad = bad or 'bit %r of the result is %s, the reference has %s; path [%s]' % (
                                    p, show(act), show(want), '; '.join(sa.trail[-5:]))
                if und and bad is None:
                    if getattr(eng, 'dependent_loops', None):
                        bad = 'a loop reads positions that an earlier iteration of the same loop has already ' \
                              'overwritten (the result is not the shifted/combined ORIGINAL content)'
                    else:
                        undecided.append(tag)
                chk.check(bad is None, rule, f.name, 'every bit of the result is the bit of the reference bit vector '
                          '[%s]' % tag, f.loc(), bad or '')
    chk.require(n_spec >= 12, 'only %d mutating members of DynamicBitset matched a specification' % n_spec)
    if undecided:
        # every specified member is decided on the reference tree: an operation whose result can no longer be
        # resolved bit by bit is not a pass
        raise AnalysisBroken('bit-level result of %s can not be resolved (a loop of the operation is not summarised): '
                             'the operation is no longer decided' % sorted(set(undecided))[:6])
    chk.samples.append({'R5_members_specified': n_spec, 'R5_undecided': sorted(set(undecided))})
    return n_spec


def from_std_bitset(chk, prog, rule='R5'):
    """the two member templates that take a std::bitset< N> (converting constructor, assignment) copy it element by
    element: the bit vector is given exactly N elements, and a loop over idx = 0 .. N-1 stores other[ idx] into
    mData[ idx] in EVERY iteration - an assignment that only sets the set bits leaves earlier bits of the target
    standing"""
    fs = [f for f in prog.functions if f.classq == CLS and f.body is not None and len(f.params) == 1 and
          btype(f.params[0]['t'].rstrip('&').strip()).startswith('std::bitset<') and
          (f.d.get('ctor') or f.short == 'operator=')]
    chk.require(len(fs) >= 2, 'member templates taking a std::bitset instantiated: %d' % len(fs))
    for f in fs:
        src = f.params[0]['name']
        tag = 'DynamicBitset( std::bitset)' if f.d.get('ctor') else 'operator=( std::bitset)'
        loops = [l for l in f.walk() if l.get('k') == 'ForStmt']
        ok, why = len(loops) == 1, 'copy loop not found'
        if ok:
            loop = loops[0]
            stores = []
            for x in walk(loop):
                if x.get('k') == 'CXXOperatorCallExpr' and x.get('op') == '=' and call_args(x):
                    lhs = strip_all_casts(call_args(x)[0])
                    while lhs.get('k') in ('MaterializeTemporaryExpr', 'CXXBindTemporaryExpr') and children(lhs):
                        lhs = strip_all_casts(children(lhs)[0])
                    if lhs.get('k') == 'CXXOperatorCallExpr' and lhs.get('op') == '[]' and \
                            any(y.get('k') == 'MemberExpr' and y['ref'].get('name') == 'mData' for y in walk(lhs)):
                        stores.append((x, lhs, call_args(x)[1]))
            if len(stores) != 1:
                ok, why = False, 'the loop stores into mData[ ...] %d times' % len(stores)
            else:
                st, lhs, rhs = stores[0]
                idx = {y['ref'].get('name') for y in walk(call_args(lhs)[1]) if y.get('k') == 'DeclRefExpr'}
                reads = [y for y in walk(rhs) if (
                    (y.get('k') == 'CXXOperatorCallExpr' and y.get('op') == '[]') or
                    (y.get('k') == 'CXXMemberCallExpr' and (y.get('callee') or '').endswith('::test'))) and
                    any(z.get('k') == 'DeclRefExpr' and z['ref'].get('name') == src for z in walk(y))]
                ridx = {z['ref'].get('name') for y in reads for z in walk(call_args(y)[-1]) if z.get('k') == 'DeclRefExpr'}
                from ..rules import loop_iteration_must_pass
                off = loop_iteration_must_pass(f.cfg, loop, lambda n_: n_ is st)
                if off:
                    ok, why = False, 'an iteration can complete without storing the element (%s)' % '; '.join(off)
                elif len(idx) != 1 or ridx != idx or len(reads) != 1:
                    ok, why = False, 'mData[ %s] is not assigned other[ %s]' % (sorted(idx), sorted(ridx))
        chk.check(ok, rule, f.name, 'every element 0 .. N-1 is assigned the corresponding bit of the std::bitset [%s]' % tag,
                  f.loc(), '' if ok else why)


# ====================================================================== iteration order (R6)

def entry_points(chk, prog, rule='R6'):
    """begin()/cbegin() start at the FIRST set position, rbegin()/crbegin() at the LAST one (or at the end marker
    when no bit is set): every overload is executed symbolically (Engine C, bit-level model of the vector) with
    forward()/reverse() of the iterator base replaced by the contract proved above (from position c they move to
    the next set position beyond c, everything in between is clear; nothing happens at the end marker).  On every
    path the candidates examined must start at position 0 resp. size() - 1: either that position was tested and is
    set (no search), or it was tested and is clear / does not exist and the search starts from it, or the search
    starts from the position in front of it."""
    from .. import bits
    from ..bits import region_of
    cfg = {'inline': ('celma::container::',), 'inline_depth': 4, 'track_content': True, 'models': dict(bits.MODELS)}
    eng = Engine(prog, cfg)
    T = 'this.mData'
    reg = region_of(T)

    def scan_model(up):
        def model(eng_, n_, st, func, want):
            objn, _args = eng_.args_of(n_)
            out = []
            for ov, s1 in (eng_.ev(objn, st, func) if objn is not None else [(Obj('this', 'this'), st)]):
                if not isinstance(ov, Obj):
                    return None
                cur = s1.fields.get((ov.name, 'mCurrPos'))
                # (inside an inlined constructor the names of the iterator and of the bitset are exchanged: the
                # bitset is whatever the iterator points to)
                bso = s1.fields.get((ov.name, 'mpDynBitset'))
                vec = s1.fields.get((bso.name, 'mData')) if isinstance(bso, Obj) else None
                size = s1.fields.get((vec.name, 'size')) if isinstance(vec, Obj) else None
                if not isinstance(cur, Lin) or not isinstance(size, Lin):
                    return None
                s1.ghost.append(('scan', 'up' if up else 'down', cur))
                # at the end marker (or outside the range) nothing happens
                idle = s1.copy()
                if up:
                    # static_cast< size_t>( cur) >= size: cur >= size or cur < 0
                    for extra in ([ge(cur, size)], [le(cur, -1)]):
                        i2 = idle.copy()
                        i2.assume(*extra)
                        if i2.ok():
                            out.append((UNKNOWN, i2))
                    s1.assume(ge(cur, 0), lt(cur, size))
                else:
                    idle.assume(le(cur, -1))
                    if idle.ok():
                        out.append((UNKNOWN, idle))
                    s1.assume(ge(cur, 0))
                if s1.ok():
                    p = eng_.fresh('found', s1, 'long')
                    if up:
                        s1.assume(ge(p, cur + 1), le(p, size))
                    else:
                        s1.assume(le(p, cur - 1), ge(p, -1))
                    s1.fields[(ov.name, 'mCurrPos')] = p
                    out.append((UNKNOWN, s1))
            return out
        return model

    for g in prog.functions:
        if (g.classq or '').endswith('DynamicBitsetIteratorBase') and g.short in ('forward', 'reverse'):
            eng.cfg['models'][g.name] = scan_model(g.short == 'forward')
    members = [f for f in prog.functions if f.classq == CLS and f.short in ('begin', 'cbegin', 'rbegin', 'crbegin')
               and f.body is not None]
    chk.require(len(members) >= 6, 'begin()/rbegin() overloads of DynamicBitset found: %d' % len(members))
    for f in sorted(members, key=lambda x: (x.line, x.key)):
        up = f.short in ('begin', 'cbegin')
        tag = '%s()%s' % (f.short, ' const' if f.d.get('const') else '')

        def setup(e, st, func):
            st.fields[('this', 'mData')] = Obj(T, 'std::vector<bool>')
            n = bits.vec_size(e, st, T)
            st.assume(le(n, (1 << 62)))
        mark = len(eng.obligations)
        finals = eng.analyse(f, setup)
        del eng.obligations[mark:]
        n = Lin.sym('%s.size()' % T)
        first = lin(0) if up else n - 1
        got = 0
        for s in finals:
            if s.status == 'throw':
                chk.check(False, rule, f.name, '%s does not throw' % tag, f.loc(), '; '.join(s.trail[-5:]))
                continue
            if s.status not in ('normal', 'return'):
                continue
            r = s.ret
            pos = s.fields.get((r.name, 'mCurrPos')) if isinstance(r, Obj) else None
            if not isinstance(pos, Lin):
                chk.check(False, rule, f.name, 'the position of the iterator returned by %s is tracked' % tag, f.loc(),
                          repr(r))
                continue
            got += 1
            scans = [x for x in s.ghost if x[0] == 'scan']

            def same(a, b):
                return entails(s.cons, ge(a, b)) and entails(s.cons, le(a, b))

            def fact_at(where, value):
                return any(x[0] == 'bitfact' and x[1][0] == 'r' and x[1][1] == reg and same(x[1][2], where) and
                           x[2] is value for x in s.ghost)

            def outside(c):
                return entails(s.cons, ge(c, n)) or entails(s.cons, le(c, -1))
            why = ''
            if not scans:
                ok = same(pos, first) and (fact_at(pos, True) or outside(pos))
                if not ok:
                    why = 'no search and the iterator stands at %r (first candidate %r)' % (pos, first)
            elif len(scans) == 1 and scans[0][1] == ('up' if up else 'down'):
                c = scans[0][2]
                before = c + 1 if up else c - 1
                ok = same(before, first) or (same(c, first) and (fact_at(c, False) or outside(c)))
                if not ok:
                    why = 'the search starts from %r: the first position examined is %r, not %r' % (c, before, first) \
                        if not same(c, first) else 'the search starts from %r although that position was not found ' \
                        'clear (a set bit there is skipped)' % (c,)
            else:
                ok = False
                why = 'searches: %s' % [(x[1], x[2]) for x in scans]
            chk.check(ok, rule, f.name, '%s starts at the %s set position: the candidates examined begin at position %s'
                      % (tag, 'first' if up else 'last', '0' if up else 'size() - 1'), f.loc(),
                      why + ('; path [%s]' % '; '.join(s.trail[-5:]) if why else ''))
        chk.require(got >= 1, '%s: no path returns an iterator' % tag)



def iteration_order(chk, prog, rule='R6'):
    """C12-R6: forward()/reverse() of the iterator base move to the NEXT set position (ascending resp. descending)
    or to the end marker - decided as a linear-search proof on the skip loop: every step tests exactly the
    neighbouring position, the loop continues only over a clear bit inside the set and stops only at a set bit or
    at the end marker; operator++/-- of the iterators are defined through them."""
    from .. import bits
    from ..bits import region_of
    cfg = {'inline': ('celma::container::',), 'inline_depth': 3, 'track_content': True, 'models': dict(bits.MODELS)}
    eng = Engine(prog, cfg)
    BS = 'bs.mData'
    reg = region_of(BS)
    bases = [f for f in prog.functions if (f.classq or '').endswith('DynamicBitsetIteratorBase')
             and f.short in ('forward', 'reverse')]
    chk.require(len(bases) >= 2, 'forward()/reverse() of the iterator base not instantiated')
    seen_kind = set()
    for f in sorted(bases, key=lambda x: (x.short, x.cls)):
        if (f.short, f.line) in seen_kind:
            continue            # instantiations for const / non-const bitsets share the code
        seen_kind.add((f.short, f.line))
        up = f.short == 'forward'
        loops = [x for x in f.walk() if x.get('k') == 'WhileStmt']
        chk.require(len(loops) == 1, '%s(): skip loop not found' % f.short)
        loop = loops[0]
        cond, body = loop['c'][-2], loop['c'][-1]
        eng.root = f.name

        def fresh_state():
            st = St()
            st.fields[('this', 'mpDynBitset')] = Obj('bs', 'celma::container::DynamicBitset')
            st.fields[('bs', 'mData')] = Obj(BS, 'std::vector<bool>')
            n = bits.vec_size(eng, st, BS)
            st.assume(le(n, (1 << 62)))
            h = eng.named('this.mCurrPos', st, 'long')
            st.fields[('this', 'mCurrPos')] = h
            st.ftypes[('this', 'mCurrPos')] = 'long'
            st.assume(ge(h, -1), le(h, n))           # the position invariant (C12-O2)
            return st, n, h
        tag = 'DynamicBitsetIteratorBase::%s()' % f.short
        mark = len(eng.obligations)
        # (1) the guard in front of the loop: an early return only when nothing can be found
        st, n, h = fresh_state()
        pre = [x for x in children(f.body) if x is not loop and children(f.body).index(x) < children(f.body).index(loop)]
        live = [st]
        for stmt in pre:
            nxt = eng.stmt(stmt, live, f)
            for s in nxt:
                if s.status == 'return':
                    # (the unsigned comparison in forward() also sends the marker -1 of the reverse direction back)
                    ok = (entails(s.cons, ge(h, n)) or entails(s.cons, le(h, -1))) if up else entails(s.cons, le(h, -1))
                    chk.check(ok, rule, f.name, 'an early return only at the end marker [%s]' % tag, f.loc(stmt),
                              'position %r, size %r' % (h, n))
            live = [s for s in nxt if s.status == 'normal']
        # (2) one symbolic step from a head inside the search range
        for s0 in live:
            head = s0.copy()
            head.assume(lt(h, n) if up else ge(h, 0))
            if not head.ok():
                continue
            for truth, s1 in eng.cond(cond, head, f):
                if s1.status == 'throw':
                    chk.check(False, rule, f.name, 'the skip loop does not throw [%s]' % tag, f.loc(loop),
                              '; '.join(s1.trail[-4:]))
                    continue
                p1 = s1.fields.get(('this', 'mCurrPos'))
                want = h + 1 if up else h - 1
                step = isinstance(p1, Lin) and entails(s1.cons, ge(p1, want)) and entails(s1.cons, le(p1, want))
                chk.check(step, rule, f.name, 'each step moves to the neighbouring position [%s]' % tag, f.loc(cond),
                          'position %r after a step from %r' % (p1, h))
                if not step:
                    continue
                facts = [g for g in s1.ghost if g[0] == 'bitfact' and g[1][0] == 'r' and g[1][1] == reg and
                         entails(s1.cons, ge(g[1][2], p1)) and entails(s1.cons, le(g[1][2], p1))]
                inside = entails(s1.cons, lt(p1, n)) if up else entails(s1.cons, ge(p1, 0))
                at_end = entails(s1.cons, ge(p1, n)) if up else entails(s1.cons, le(p1, -1))
                if truth:
                    ok = inside and any(g[2] is False for g in facts)
                    chk.check(ok, rule, f.name, 'the search continues only over a clear bit inside the set [%s]' % tag,
                              f.loc(cond), 'continues at %r: inside %s, bit facts %s' % (p1, inside, [g[2] for g in facts]))
                    # the body must not move the position
                    for r in eng.stmt(body, [s1], f):
                        p2 = r.fields.get(('this', 'mCurrPos'))
                        chk.check(r.status == 'normal' and isinstance(p2, Lin) and entails(r.cons, ge(p2, p1)) and
                                  entails(r.cons, le(p2, p1)), rule, f.name, 'the loop body does not move the position '
                                  '[%s]' % tag, f.loc(body), 'status %s, position %r' % (r.status, p2))
                else:
                    ok = at_end or (inside and any(g[2] is True for g in facts))
                    chk.check(ok, rule, f.name, 'the search stops only at a set bit or at the end marker [%s]' % tag,
                              f.loc(cond), 'stops at %r: at end %s, inside %s, bit facts %s' % (
                                  p1, at_end, inside, [g[2] for g in facts]))
        del eng.obligations[mark:]
    entry_points(chk, prog, rule)
    # operator++ / operator-- are defined through forward() / reverse()
    table = {('DynamicBitsetIterator', 'operator++'): 'forward', ('DynamicBitsetIterator', 'operator--'): 'reverse',
             ('DynamicBitsetReverseIterator', 'operator++'): 'reverse',
             ('DynamicBitsetReverseIterator', 'operator--'): 'forward'}
    n_ops = 0
    for f in prog.functions:
        cls = (f.classq or '').split('::')[-1]
        want = table.get((cls, f.short))
        if want is None or f.body is None:
            continue
        n_ops += 1
        calls = [c for c in f.calls() if (c.get('callee') or '').split('::')[-1] in ('forward', 'reverse')]
        ok = len(calls) == 1 and (calls[0].get('callee') or '').endswith('::' + want) and \
            not f.cfg.must_pass_through(lambda nn: nn in calls)
        chk.check(ok, rule, f.name, '%s::%s steps with %s() on every path' % (cls, f.short, want), f.loc(),
                  'calls: %s' % [(c.get('callee') or '').split('::')[-1] for c in calls])
        # what the operator hands back: the prefix forms return the stepped iterator itself, the postfix forms a copy
        # of the iterator taken BEFORE the step (`*it++` reads the position the iterator is leaving)
        rets = [x for x in f.walk() if x.get('k') == 'ReturnStmt']
        prefix = (f.d.get('ret') or '').rstrip().endswith('&')
        if prefix:
            ok = bool(rets) and all(_is_deref_this(_strip_copy(children(r)[0])) for r in rets if children(r))
            chk.check(ok, rule, f.name, 'prefix %s::%s returns the stepped iterator itself' % (cls, f.short), f.loc())
        else:
            ok, why = bool(rets) and len(calls) == 1, 'no return / step call'
            for r in rets:
                v = _strip_copy(children(r)[0]) if children(r) else {}
                if v.get('k') != 'DeclRefExpr' or v['ref'].get('sto') != 'local':
                    ok, why = False, 'line %s returns something else than a local copy' % r.get('l')
                    break
                did = v['ref'].get('did')
                decl = [(ds, d) for ds in f.walk() if ds.get('k') == 'DeclStmt' for d in ds.get('decls', [])
                        if d.get('did') == did]
                if len(decl) != 1 or not _is_deref_this(_strip_copy(decl[0][1].get('init') or {})):
                    ok, why = False, 'the returned local is not a copy of *this'
                    break
                others = [x for x in f.walk() if x.get('k') == 'DeclRefExpr' and x['ref'].get('did') == did and
                          not any(x is y for rr in rets for y in walk(rr))]
                if others:
                    ok, why = False, 'the copy is used (possibly modified) before it is returned'
                    break
                if calls and not f.cfg.node_dominates(decl[0][0], calls[0]):
                    ok, why = False, 'the copy is not taken before the step on every path'
                    break
            chk.check(ok, rule, f.name, 'postfix %s::%s returns a copy taken before the step' % (cls, f.short), f.loc(),
                      '' if ok else why)
    chk.require(n_ops >= 8, 'iterator step operators instantiated: %d' % n_ops)


def _strip_copy(n):
    """strip casts, copy/move constructions, temporaries and parentheses around an expression"""
    while True:
        n = strip_all_casts(n)
        k = n.get('k')
        if k in ('CXXConstructExpr', 'MaterializeTemporaryExpr', 'CXXBindTemporaryExpr', 'ExprWithCleanups',
                 'ParenExpr', 'CXXFunctionalCastExpr') and len(children(n)) == 1:
            n = children(n)[0]
            continue
        return n


def _is_deref_this(n):
    return n.get('k') == 'UnaryOperator' and n.get('op') == '*' and \
        strip_all_casts(children(n)[0]).get('k') == 'CXXThisExpr'
